"""C03 — alignment operations equal the same operations on the gapped strings.

Oracle: an ordered dict name -> gapped Python string on which every operation
is re-implemented from its docstring.  The same history is applied to the
annotatable ``Alignment`` and the array-backed ``ArrayAlignment``.
"""

from __future__ import annotations

import copy as _copy
import math

import numpy
from hypothesis import strategies as st

from vlib.core import Soft, Sub

PROPERTY_ID = "C03"
LEVEL = "exploration"
RULE = (
    "A case is a generated alignment (1-5 rows, 1-30 columns; DNA/RNA/protein with gaps, '?', degenerate symbols; rows with "
    "leading/trailing gap runs and all-gap columns) and a history of 1-6 operations drawn from in-range slicing, rc, take_seqs, "
    "take_positions(+negate), take_positions_if, omit_gap_pos, no_degenerates, get_degapped_relative_to, sample with given "
    "indices, concatenation (with a second alignment or with itself), to_type, to_dna/to_rna, with_gaps_from, copy/deepcopy and "
    "a final degap. The history is applied to both alignment classes and to the row model; after each step names, length, "
    "to_dict, gapped and degapped rows are compared, and read-only methods of the result are compared with a fresh object built "
    "from the result's rows. Non-trivial = history of >= 2 operations on the annotatable class containing a slice or rc followed "
    "by a column operation, or a slice boundary inside a gap run; distinct = distinct case encodings."
)
ASSUMPTIONS = [
    "slice bounds are in range (-len <= a < b <= len) and unit stride: the annotatable class documents NotImplementedError for strides; out-of-range slicing of sequences is C01",
    "omit_gap_pos / no_degenerates return None when nothing remains (documented); the history ends there",
    "gap characters for omit_gap_pos are the moltype's gaps ('-' and '?'); get_degapped_relative_to and no_degenerates(allow_gap) use '-' only (as implemented and pinned by tests)",
    "sample is driven through its randint/permutation arguments with indices chosen by the generator",
]

ALPH = {
    "dna": ("ACGT", "ACGTRYN", "-", "?"),
    "rna": ("ACGU", "ACGURYN", "-", "?"),
    "protein": ("ACDEFGHIKLMNPQRSTVWY", "ACDEFGHIKLMNPQRSTVWYBXZ", "-", "?"),
}
DNA_COMP = dict(zip("ACGTRYMKWSBDHVN-?", "TGCAYRKMWSVHDBN-?"))
RNA_COMP = dict(zip("ACGURYMKWSBDHVN-?", "UGCAYRKMWSVHDBN-?"))


def comp(s, mt):
    t = DNA_COMP if mt == "dna" else RNA_COMP
    return "".join(t[c] for c in s)


# ------------------------------------------------------------------ model
def m_apply(rows: dict, mt: str, op: dict):
    """returns (new rows | None, new moltype); rows is an ordered dict"""
    kind = op["op"]
    names = list(rows)
    L = len(next(iter(rows.values()))) if rows else 0
    if kind == "slice":
        return {n: s[op["a"] : op["b"]] for n, s in rows.items()}, mt
    if kind == "rc":
        return {n: comp(s, mt)[::-1] for n, s in rows.items()}, mt
    if kind == "take_seqs":
        sel = op["names"]
        if op["negate"]:
            return {n: rows[n] for n in names if n not in sel}, mt
        return {n: rows[n] for n in sel}, mt
    if kind == "take_positions":
        cols = op["cols"]
        if op["negate"]:
            keep = [i for i in range(L) if i not in set(cols)]
        else:
            keep = cols
        return {n: "".join(s[i] for i in keep) for n, s in rows.items()}, mt
    if kind == "take_positions_if":
        keep = [i for i in range(L) if all(s[i] != "-" for s in rows.values()) != op["negate"]]
        return {n: "".join(s[i] for i in keep) for n, s in rows.items()}, mt
    if kind in ("omit_gap_pos", "no_degenerates"):
        m = op["motif"]
        nm = L // m
        keep = []
        canon = ALPH[mt][0]
        for j in range(nm):
            block = [s[j * m : (j + 1) * m] for s in rows.values()]
            if kind == "omit_gap_pos":
                num_gap = sum(b.count("-") + b.count("?") for b in block)
                ok = num_gap / (len(block) * m) <= op["frac"]
            else:
                allowed = set(canon) | ({"-"} if op["allow_gap"] else set())
                ok = all(c in allowed for b in block for c in b)
            if ok:
                keep.extend(range(j * m, (j + 1) * m))
        if not keep:
            return None, mt
        return {n: "".join(s[i] for i in keep) for n, s in rows.items()}, mt
    if kind == "degapped_relative_to":
        ref = rows[op["name"]]
        keep = [i for i in range(L) if ref[i] != "-"]
        return {n: "".join(s[i] for i in keep) for n, s in rows.items()}, mt
    if kind == "sample":
        m = op["motif"]
        return {n: "".join(s[k * m : (k + 1) * m] for k in op["locs"]) for n, s in rows.items()}, mt
    if kind == "add":
        other = op["other"]
        return {n: rows[n] + other[n] for n in names}, mt
    if kind == "add_self":
        return {n: rows[n] + rows[n] for n in names}, mt
    if kind in ("to_array", "to_annotatable", "copy", "deepcopy"):
        return dict(rows), mt
    if kind == "to_rna":
        return {n: s.replace("T", "U") for n, s in rows.items()}, "rna"
    if kind == "to_dna":
        return {n: s.replace("U", "T") for n, s in rows.items()}, "dna"
    if kind == "with_gaps_from":
        t = op["template"]
        return {n: "".join("-" if t[n][i] == "-" else s[i] for i in range(L)) for n, s in rows.items()}, mt
    raise ValueError(kind)


# -------------------------------------------------------------- generator
@st.composite
def row_st(draw, mt, L):
    canon, degen, gap, q = ALPH[mt]
    lead = draw(st.integers(0, min(3, L))) if draw(st.booleans()) else 0
    trail = draw(st.integers(0, min(3, L - lead))) if draw(st.booleans()) else 0
    mid = L - lead - trail
    weights = canon * 6 + degen + gap * 5 + q
    body = "".join(draw(st.lists(st.sampled_from(weights), min_size=mid, max_size=mid)))
    return "-" * lead + body + "-" * trail


@st.composite
def aln_st(draw, mt, nrows, L, names=None):
    names = names or [f"s{i}" for i in range(nrows)]
    rows = {n: draw(row_st(mt, L)) for n in names}
    # all-gap columns with raised probability
    if L and draw(st.booleans()):
        c = draw(st.integers(0, L - 1))
        rows = {n: s[:c] + "-" + s[c + 1 :] for n, s in rows.items()}
    return rows


@st.composite
def histories(draw):
    mt = draw(st.sampled_from(["dna", "dna", "rna", "protein"]))
    nrows = draw(st.integers(1, 5))
    L = draw(st.integers(1, 30))
    rows = draw(aln_st(mt, nrows, L))
    start_array = draw(st.booleans())
    depth = draw(st.integers(1, 6))
    ops = []
    cur, cur_mt = rows, mt
    for _ in range(depth):
        names = list(cur)
        L = len(cur[names[0]])
        kinds = ["slice"] * 4 + ["take_seqs", "take_positions", "take_positions", "take_positions_if", "omit_gap_pos", "omit_gap_pos",
                                 "no_degenerates", "degapped_relative_to", "sample", "add", "add_self", "to_array", "to_annotatable",
                                 "copy", "deepcopy", "with_gaps_from"]
        if cur_mt in ("dna", "rna"):
            kinds += ["rc", "rc", "rc", "to_rna" if cur_mt == "dna" else "to_dna"]
        kind = draw(st.sampled_from(kinds))
        op = {"op": kind}
        if kind == "slice":
            if L < 1:
                break
            a = draw(st.integers(0, L - 1))
            b = draw(st.integers(a + 1, L))
            # python spellings
            if draw(st.booleans()) and a > 0:
                sa = a - L
            else:
                sa = a if (a or draw(st.booleans())) else None
            if draw(st.booleans()) and b < L:
                sb = b - L
            else:
                sb = b if (b < L or draw(st.booleans())) else None
            op.update(a=sa, b=sb)
        elif kind == "take_seqs":
            k = draw(st.integers(1, len(names)))
            sel = draw(st.permutations(names))[:k]
            neg = draw(st.booleans())
            if neg and k == len(names):
                neg = False
            op.update(names=list(sel), negate=neg)
        elif kind == "take_positions":
            if L < 1:
                break
            k = draw(st.integers(1, L))
            cols = draw(st.permutations(list(range(L))))[:k]
            neg = draw(st.booleans())
            if neg and k == L:
                neg = False
            if draw(st.booleans()):
                cols = sorted(cols)
            op.update(cols=list(cols), negate=neg)
        elif kind == "take_positions_if":
            op.update(negate=draw(st.booleans()))
        elif kind == "omit_gap_pos":
            op.update(motif=draw(st.sampled_from([1, 1, 2, 3])), frac=draw(st.sampled_from([1 - 1e-6, 0.0, 0.34, 0.5, 0.75])))
        elif kind == "no_degenerates":
            op.update(motif=draw(st.sampled_from([1, 1, 2, 3])), allow_gap=draw(st.booleans()))
        elif kind == "degapped_relative_to":
            op.update(name=draw(st.sampled_from(names)))
        elif kind == "sample":
            m = draw(st.sampled_from([1, 1, 2, 3]))
            pop = L // m
            if pop < 1:
                continue
            wr = draw(st.booleans())
            if wr:
                n = draw(st.integers(1, pop + 2))
                locs = draw(st.lists(st.integers(0, pop - 1), min_size=n, max_size=n))
            else:
                n = draw(st.integers(1, pop))
                locs = list(draw(st.permutations(list(range(pop)))))
            op.update(motif=m, with_replacement=wr, n=n, locs=locs[:n] if wr else locs[:n], perm=locs)
        elif kind == "add":
            L2 = draw(st.integers(1, 8))
            other = draw(aln_st(cur_mt, len(names), L2, names=names))
            op.update(other=other)
        elif kind == "with_gaps_from":
            if L < 1:
                break
            op.update(template=draw(aln_st(cur_mt, len(names), L, names=names)))
        new, new_mt = m_apply(cur, cur_mt, op)
        ops.append(op)
        if new is None or not new or len(next(iter(new.values()))) == 0:
            break
        cur, cur_mt = new, new_mt
    return {"mt": mt, "rows": rows, "array": start_array, "ops": ops, "degap": draw(st.booleans())}


# ---------------------------------------------------------------- execute
def build(rows, mt, array):
    from cogent3 import make_aligned_seqs

    return make_aligned_seqs(dict(rows), moltype=mt, array_align=array)


def r_apply(aln, op, mt):
    """the same operation on a real alignment"""
    from cogent3 import make_aligned_seqs

    kind = op["op"]
    if kind == "slice":
        return aln[op["a"] : op["b"]]
    if kind == "rc":
        return aln.rc()
    if kind == "take_seqs":
        return aln.take_seqs(op["names"], negate=op["negate"])
    if kind == "take_positions":
        return aln.take_positions(op["cols"], negate=op["negate"])
    if kind == "take_positions_if":
        return aln.take_positions_if(lambda col: all(str(c) != "-" for c in col), negate=op["negate"])
    if kind == "omit_gap_pos":
        return aln.omit_gap_pos(allowed_gap_frac=op["frac"], motif_length=op["motif"])
    if kind == "no_degenerates":
        return aln.no_degenerates(motif_length=op["motif"], allow_gap=op["allow_gap"])
    if kind == "degapped_relative_to":
        return aln.get_degapped_relative_to(op["name"])
    if kind == "sample":
        locs, perm = op["locs"], op["perm"]
        return aln.sample(
            n=op["n"],
            with_replacement=op["with_replacement"],
            motif_length=op["motif"],
            randint=lambda lo, hi, n: numpy.array(locs),
            permutation=lambda n: numpy.array(perm),
        )
    if kind == "add":
        other = make_aligned_seqs(dict(op["other"]), moltype=mt, array_align=type(aln).__name__ == "ArrayAlignment")
        return aln + other
    if kind == "add_self":
        return aln + aln
    if kind == "to_array":
        return aln.to_type(array_align=True)
    if kind == "to_annotatable":
        return aln.to_type(array_align=False)
    if kind == "copy":
        return aln.copy()
    if kind == "deepcopy":
        return aln.deepcopy() if hasattr(aln, "deepcopy") else _copy.deepcopy(aln)
    if kind == "to_rna":
        return aln.to_rna()
    if kind == "to_dna":
        return aln.to_dna()
    if kind == "with_gaps_from":
        tmpl = make_aligned_seqs(dict(op["template"]), moltype=mt, array_align=False)
        return aln.with_gaps_from(tmpl)
    raise ValueError(kind)


def observe(s: Soft, tag, aln, rows, what):
    names = list(rows)
    L = len(rows[names[0]])
    ok, got_names = s.call(tag + "/names", lambda: list(aln.names))
    if ok and not s.eq(got_names, names, tag + "/names", what):
        return False
    ok, n = s.call(tag + "/len", len, aln)
    if ok:
        s.eq(n, L, tag + "/len", what)
    ok, d = s.call(tag + "/to_dict", aln.to_dict)
    if ok:
        if not s.eq(d, dict(rows), tag + "/to_dict", what):
            return False
        s.check(len({len(v) for v in d.values()}) <= 1, tag + "/ragged", f"{what}: {d}")
    for nme in names[:3]:
        ok, g = s.call(tag + "/get_gapped_seq", lambda: str(aln.get_gapped_seq(nme)))
        if ok:
            s.eq(g, rows[nme], tag + "/get_gapped_seq", f"{what}: row {nme}")
        if type(aln).__name__ == "Alignment":
            ok, g = s.call(tag + "/get_seq", lambda: str(aln.get_seq(nme)))
            if ok:
                s.eq(g, rows[nme].replace("-", ""), tag + "/get_seq", f"{what}: row {nme}")
    return True


METHODS = [
    ("counts", {}), ("counts_per_seq", {}), ("counts_per_pos", {}), ("get_lengths", {}), ("variable_positions", {}),
    ("get_gap_array", {}), ("count_gaps_per_pos", {}), ("count_gaps_per_seq", {}), ("iupac_consensus", {}),
    ("majority_consensus", {}), ("to_fasta", {}), ("to_phylip", {}), ("is_ragged", {}), ("get_ambiguous_positions", {}),
    ("get_identical_sets", {}), ("counts_per_seq", {"motif_length": 2}), ("probs_per_pos", {}), ("entropy_per_pos", {}),
]


def norm(x, depth=0):
    if depth > 6:
        return repr(x)
    if isinstance(x, (str, int, bool, type(None))):
        return x
    if isinstance(x, float):
        return "nan" if math.isnan(x) else round(x, 12)
    if isinstance(x, numpy.generic):
        return norm(x.item(), depth + 1)
    if isinstance(x, numpy.ndarray):
        return norm(x.tolist(), depth + 1)
    if isinstance(x, dict):
        return sorted((repr(norm(k, depth + 1)), norm(v, depth + 1)) for k, v in x.items())
    if isinstance(x, (set, frozenset)):
        return sorted(repr(norm(y, depth + 1)) for y in x)
    if isinstance(x, (list, tuple)):
        return [norm(y, depth + 1) for y in x]
    if hasattr(x, "to_dict"):
        try:
            return norm(x.to_dict(), depth + 1)
        except Exception:  # noqa: BLE001
            pass
    if hasattr(x, "array") and hasattr(x, "template"):
        return norm(x.array, depth + 1)
    return str(x)


def method_differential(s: Soft, tag, aln, rows, mt, what):
    array = type(aln).__name__ == "ArrayAlignment"
    ok, fresh = s.call(tag + "/fresh", build, rows, mt, array)
    if not ok:
        return
    for name, kw in METHODS:
        res = []
        for obj in (aln, fresh):
            try:
                res.append(("ok", norm(getattr(obj, name)(**kw))))
            except Exception as e:  # noqa: BLE001
                res.append(("raises", type(e).__name__))
        if res[0] != res[1]:
            s.fail(f"{tag}/method:{name}", f"{what}: {name}({kw}) on result -> {str(res[0])[:200]}; on fresh object with the same rows -> {str(res[1])[:200]}")


def exec_history(case) -> Soft:
    s = Soft("C03/")
    mt0 = case["mt"]
    rows0 = dict(case["rows"])
    results = {}
    for cls_name, array in (("Alignment", False), ("ArrayAlignment", True)):
        start_array = case["array"] if cls_name == "Alignment" else not case["array"]
        # both classes are exercised: one history starts as given, the other as the opposite class
        del start_array
        tag0 = cls_name
        ok, aln = s.call(tag0 + "/construct", build, rows0, mt0, array)
        if not ok:
            continue
        rows, mt = rows0, mt0
        observe(s, tag0 + "/fresh", aln, rows, f"fresh {cls_name} {rows0}")
        hist = []
        nontriv = False
        for i, op in enumerate(case["ops"]):
            kind = op["op"]
            cur_cls = type(aln).__name__
            if kind == "with_gaps_from" and cur_cls != "Alignment":
                continue  # method of the annotatable class only
            if kind == "take_positions" and rows and any(c >= len(next(iter(rows.values()))) for c in op["cols"]):
                # columns were drawn for the history as generated; this class skipped a step
                # (with_gaps_from) and has fewer columns left
                s.cls("op-skipped:columns-beyond-current-length")
                continue
            new_rows, new_mt = m_apply(rows, mt, op)
            what = f"{cur_cls} history {hist + [ _brief(op) ]} from {rows0}"
            tag = f"{cur_cls}/{kind}"
            if kind == "take_positions" and op["negate"]:
                tag += "[negate]"
            ok, res = s.call(tag, r_apply, aln, op, mt)
            if not ok:
                break
            hist.append(_brief(op))
            if new_rows is None:
                s.check(res is None, tag + "/expected-None", f"{what}: model keeps no column, got {res!r}"[:300])
                break
            if res is None or isinstance(res, dict):
                s.fail(tag + "/unexpected-None", f"{what}: returned {res!r}, model has {new_rows}")
                break
            L_new = len(next(iter(new_rows.values()))) if new_rows else 0
            if not new_rows or L_new == 0:
                break
            if not observe(s, tag, res, new_rows, what):
                break
            # non-triviality
            if cur_cls == "Alignment" and i >= 1:
                prev = [h.split("(")[0] for h in hist[:-1]]
                if ("slice" in prev or "rc" in prev) and kind in ("take_positions", "take_positions_if", "omit_gap_pos", "no_degenerates", "degapped_relative_to", "sample"):
                    nontriv = True
            if kind == "slice" and cur_cls == "Alignment":
                L = len(next(iter(rows.values())))
                a = op["a"] or 0
                b = op["b"] if op["b"] is not None else L
                a = a + L if a < 0 else a
                b = b + L if b < 0 else b
                for r in rows.values():
                    if (0 < a < L and r[a - 1] == "-" and r[a] == "-") or (0 < b < L and r[b - 1] == "-" and r[b] == "-"):
                        nontriv = True
                        s.cls("slice-inside-gap-run")
            aln, rows, mt = res, new_rows, new_mt
            s.cls(f"op:{kind}")
        else:
            pass
        if aln is not None and rows:
            method_differential(s, f"{type(aln).__name__}/final", aln, rows, mt, f"after {hist} from {rows0}")
            if case.get("degap"):
                ok, dg = s.call(f"{type(aln).__name__}/degap", aln.degap)
                if ok:
                    ok, d = s.call(f"{type(aln).__name__}/degap/to_dict", dg.to_dict)
                    if ok:
                        want = {n: r.replace("-", "").replace("?", "") for n, r in rows.items()}
                        s.eq(d, want, f"{type(aln).__name__}/degap/to_dict", f"after {hist} from {rows0}")
        results[cls_name] = nontriv
    s.nontrivial = any(results.values())
    s.cls(mt0)
    return s


def _brief(op):
    k = op["op"]
    if k == "slice":
        return f"slice({op['a']},{op['b']})"
    if k in ("add", "with_gaps_from"):
        return f"{k}(…)"
    return k + "(" + ",".join(f"{a}={v}" for a, v in op.items() if a not in ("op", "perm")) + ")"


SUBS = [
    Sub("histories", exec_history, strategy=histories(), quick=1600, thorough=320_000, shards_quick=16),
]

KNOWN_PREDICATES = {}

# thorough tier: coverage-guided campaigns (atheris/libFuzzer mutating the bytes Hypothesis draws from)
FUZZ = {
    "subs": ['histories'],
    "targets": ['cogent3.core.alignment', 'cogent3.core.sequence'],
    "execs_thorough": 40_000, "jobs_thorough": 4, "execs_quick": 1000, "jobs_quick": 2,
}

META = {
    "technique": "Hypothesis-generated operation histories applied to both alignment classes and to a dict-of-gapped-strings model; method differential result vs fresh object",
    "level_text": "A few thousand generated histories per run (slicing inside gap runs, rc, row/column selection, gap and degenerate filters, degapping relative to a row, index-driven sampling, concatenation, class and moltype conversion) are executed on the annotatable and the array-backed class and compared after every step with plain string operations; 18 read-only methods of the final object are compared with a freshly built object.",
    "level_note": "Trusts the row model (about 80 lines). Strides and out-of-range slices are outside the domain; generic filtered() predicates are covered through omit_gap_pos/no_degenerates.",
    "design_ref": "DESIGN.md section 1, C03",
}
