"""C11 — the log-likelihood is invariant under relabelling, reordering and re-rooting.

Metamorphic check.  A case is a complete likelihood problem (substitution
model, tree, alignment, motif probabilities, parameter values, scoping) plus
the arguments of a set of transformations.  ``execute`` evaluates the base
problem once and then every transformed problem with a freshly built
likelihood function; parameters are carried to the transformed problem by the
harness' own tree model (an edge keeps its length / parameter group / psub
matrix wherever the transformation puts it) and are all set constant, so no
optimisation is involved.  The transformed trees (child order, new root at a
node, new root on an edge, edge split by a degree-2 node) are produced by
harness code on a nested-dict tree model and written out as newick; one
additional relation uses the library's own ``rooted_at`` / ``rooted_with_tip``.  ``execute_loci`` does the same for
multi-locus functions (``loci=[...]``) and adds the order of the loci and the decomposition into single-locus functions.
"""

from __future__ import annotations

import math

from hypothesis import strategies as st

from vlib.core import Soft, Sub

PROPERTY_ID = "C11"
LEVEL = "exploration"
RULE = (
    "A case is a likelihood problem: a model name out of all 25 registered models (nucleotide reversible / non-reversible / "
    "discrete-time, 61-state codon, 20-state protein) or a predicate-built non-reversible model (ns-predicate sub: "
    "ns_substitution_model.NonReversibleNucleotide with A>C, G>A, C>T, T>G, A/T and NonReversibleDinucleotide with A>C, G>A, CG>TG), "
    "a tree with 2-6 tips (2-5 for codon/protein/ns; root degree 2-4, polytomies), branch lengths log-uniform in [1e-3, 3] with one "
    "edge in six in [1e-8, 1e-3] or [3, 10] (1e-8 and 10 themselves included), an alignment of 2-12 motif columns drawn with repetition "
    "from a pool of distinct columns (IUPAC degenerates and gaps in about 12 % of the cells, old- or new-type alignment objects), motif "
    "probabilities (equal / varied / sparse, i.e. 30-90 % of the motifs at 2e-6 as the library assigns to unobserved motifs / data, i.e. "
    "never set, the function keeps what set_alignment derived from the alignment; 20 % of the cases), models built with "
    "optimise_motif_probs=True in a quarter of the cases (1 in 12 for codon), parameter values 1.0 or log-uniform in [0.1, 10] with global "
    "or per-edge-group scope, rate heterogeneity in 25-35 % of the continuous-time cases of every family (2-4 bins; gamma or 'free' "
    "distribution on 'rate' or on a rate parameter of the model via ordered_param, or bin-params: every rate parameter has its own "
    "constant value in every bin through set_param_rule(par, bin=...); bin probabilities left equal, or unequal through "
    "set_param_rule('bprobs', init=...) or (value=..., is_constant=True), each >= 0.0066), and the arguments of the "
    "transformations: a permutation of the motif-sized columns, a permutation of the sequences, child permutations at every internal "
    "node, repeat factor k in {2,3} (tiled or in place), a multiset of columns to append, two root placements (at an internal node or at "
    "a fraction of an edge; fraction in [0.05, 0.95] or 0, 0.5, 1), one library re-rooting (>= 3 tips), 1-3 edges split into 2, 3 or 4 "
    "pieces at such fractions (fractions 0 and 1 and equal neighbours give zero-length pieces), and a combination of all of them. The "
    "word-* subs do the same for user-built reversible word models (TimeReversibleCodon with kappa+omega, "
    "TimeReversibleNucleotide(motif_length=2|3) with kappa+CpG, TimeReversibleDinucleotide with kappa) under every mprob_model in "
    "{tuple, conditional, monomer, monomers}, 2-5 tips, with word probabilities = product of per-position nucleotide frequencies "
    "that are distinct permutations of (0.46, 0.29, 0.15, 0.10) perturbed by <= 10 %, times a per-word factor in [0.8, 1.25] (1 in a "
    "quarter of the cases), or data-derived (1 in 6). The multilocus sub builds functions with loci=[2-3 names] for a continuous-time "
    "nucleotide model: every locus has its own alignment (1-8 columns), its own motif probabilities (data-derived / explicit per locus / "
    "one explicit vector) and shared or locus-specific parameter values; relations: per-locus column permutation, per-locus sequence "
    "order, order of the loci, child order, k-fold repetition, lnL = sum of the single-locus functions, edge split, root placement, "
    "combination. Each transformed problem is one evaluation. Non-trivial = unequal motif probabilities and (a non-identity column "
    "permutation over >= 3 distinct columns, or a root moved across >= 1 internal node); distinct = distinct case encodings."
)
ASSUMPTIONS = [
    "tolerance |lnL' - lnL| <= 1e-9 * max(1, |lnL|) (k * lnL for k-fold repetition; lnL(A)+lnL(S) for appended columns S)",
    "root-placement and edge-split relations compare P(t) of one rate matrix at different t, so they depend on the accuracy of the matrix exponential: half of the cases run them with lf.set_expm('pade') on both sides at 1e-9; the other half with the default exponentiator ('either': eigendecomposition validated by the library at numpy.allclose precision, Pade fallback) where only 1e-6 * max(1, |lnL|) is required (signatures .../default-expm/...)",
    "when the motif distribution is nearly degenerate (1 - sum p_i^2 < 0.05; explicit probabilities, or for data-derived ones the complete-motif frequencies of the alignment) the calibrated rate matrix has entries of 1e2 ... 1e5 and Pade's scaling-and-squaring loses digits (measured: 6e-10 absolute at length 10): the Pade-side relations are then also only required to 1e-6",
    "re-rooting relations only for the time-reversible models (JC69 F81 K80 HKY85 TN93 GTR, all codon models except GNC, all protein models); never for GN, ssGN, GNC, BH, DT or the predicate-built non-reversible models",
    "edge-split relations only for continuous-time models (not BH/DT); all pieces of a split edge get the parameter values of the original edge, so the process is homogeneous along it; a zero-length piece is a constant length of 0.0 (within the library's bounds [0, 10] of 'length'; P(0) = I)",
    "appending copies of existing columns is required to add exactly the log-likelihood of those columns (sites are independent; no rate-HMM is configured); not asserted with data-derived motif probabilities (the three alignments have different frequencies)",
    "data-derived motif probabilities are a function of the multiset of alignment columns, so all permutation / root / split relations apply unchanged; k-fold repetition keeps the relative frequencies and is asserted when the probabilities are constant, but not when the function was built with optimise_motif_probs (set_motif_probs_from_data then adds a pseudocount of 0.5 when a motif is unobserved, which k-fold counts do not preserve)",
    "an alignment without a single complete motif (every cell degenerate or gap) gives set_alignment nothing to derive frequencies from (0/0); such alignments (possible for appended-column subsets and 2-tip cases) are skipped",
    "codon alignments hold sense codons of the standard code, '---', 'NNN' or a sense codon with N in third position (not for TA./TG. prefixes); BH/DT alignments have no gaps or '?'",
    "branch lengths in [1e-8, 10] (split pieces down to 0), rate parameters in [0.1, 10], motif probabilities >= 2e-6 (set_motif_probs lifts smaller values to 1e-6 itself); BH/DT psub matrices are row-stochastic with a dominant diagonal",
    "rate heterogeneity is configured through the public API only: get_model(..., ordered_param=, distribution='gamma'|'free'), make_likelihood_function(tree, bins=n | [names]), set_param_rule('<x>_shape'), set_param_rule('bprobs', init= | value=, is_constant=True), set_param_rule(par, bin=, edges=, value=); the 'free' distribution has no public setter for its partition, so it is evaluated at the library's default partition (rates proportional to 1..n); every bin probability is >= 0.0066 (> 1e-3); codon models use omega as the ordered parameter (each (model, ordered_param, distribution) is a separate 1-3 s construction)",
    "all parameters are set constant through apply_param_rules / set_motif_probs (bprobs also as a non-constant init; motif probabilities non-constant for optimise_motif_probs models); lnL is read from lf.lnL without optimisation; substitution model instances are deep copies of one pristine instance per process and constructor keywords",
    "user-built word models are given word probabilities (dict over the word alphabet) through set_motif_probs for every mprob_model; the monomer / monomers models derive their (position-specific) nucleotide frequencies from them as documented by adapt_motif_probs; all of these models are time-reversible by construction, so every relation applies",
    "library re-rooting (rooted_at / rooted_with_tip) is only used when parameters are globally scoped and the tree has >= 3 tips, and its relation is skipped when the library's result does not preserve the tip-to-tip path lengths (that is C09's clause)",
    "multi-locus functions: loci are independent data sets evaluated on one tree with shared branch lengths, so lnL equals the sum of single-locus functions given the locus' alignment, motif probabilities and parameter values (doc/examples/testing_multi_loci.rst: parameters are per locus or shared; lengths have no locus dimension); listing the loci in another order (names, alignments and settings moving together) is a relabelling",
    "signature tag tiny-edge-3step = a confirmed defect's circumstance (3-letter-motif model and an edge shorter than 1e-5 in either tree, where PadeExponentiator's order-1 approximant gets three-substitution entries of exp(Qt) wrong by 50 %); see C11_ext_findings.md",
]

NUC_REV = ["JC69", "F81", "K80", "HKY85", "TN93", "GTR"]
NUC_NONREV = ["GN", "ssGN"]
NUC_DISCRETE = ["BH", "DT"]
CODON_REV = ["CNFGTR", "CNFHKY", "MG94HKY", "MG94GTR", "GY94", "Y98", "H04G", "H04GK", "H04GGK"]
CODON_NONREV = ["GNC"]
PROT = ["DSO78", "JTT92", "AH96", "AH96_mtmammals", "WG01"]
# predicate-built non-reversible models (cogent3.evolve.ns_substitution_model), see _build_ns_model
NS_MODELS = ["ns:nuc", "ns:nuc", "ns:dinuc"]
REVERSIBLE = set(NUC_REV + CODON_REV + PROT)
DISCRETE = set(NUC_DISCRETE)
TINY_PROB = 2e-6  # set_motif_probs itself lifts anything below 1e-6 to that value
SKIP_PARAMS = {"psmprobs", "mprobs", "length", "psubs", "bprobs", "rate", "rate_shape", "dpsubs"}

NUCS = "ACGT"
NUC_DEGEN = ["N", "R", "Y", "W", "S", "K", "M", "-", "?"]
NUC_DEGEN_NOGAP = ["N", "R", "Y", "W", "S", "K", "M"]
STOPS = {"TAA", "TAG", "TGA"}
SENSE = [a + b + c for a in "TCAG" for b in "TCAG" for c in "TCAG" if a + b + c not in STOPS]
AAS = "ACDEFGHIKLMNPQRSTVWY"
AA_DEGEN = ["X", "B", "Z", "-", "?"]
TRIPLETS = [a + b + c for a in "TCAG" for b in "TCAG" for c in "TCAG"]
DINUCS = [a + b for a in "TCAG" for b in "TCAG"]
# user-built reversible word models: kind -> (word list, word length)
WORD_KINDS = {"codon": SENSE, "tri": TRIPLETS, "di": DINUCS, "dinuc": DINUCS}
MPROB_MODELS = ["tuple", "conditional", "monomer", "monomers"]
POSITION_PROFILE = [0.46, 0.29, 0.15, 0.10]  # nucleotide frequencies at a word position, permuted per position
TIP_POOL = ["Human", "mouse", "t10", "t2", "A_1", "z", "b", "Rat", "t1", "Zeta"]


# ------------------------------------------------------------------ tree model
# node = {"name": str, "len": float|None, "grp": int|None, "pw": [[..4]..4]|None, "kids": [...]}
def _deep(n):
    return {"name": n["name"], "len": n["len"], "grp": n.get("grp"), "pw": n.get("pw"), "kids": [_deep(k) for k in n["kids"]]}


def m_tips(n):
    if not n["kids"]:
        return [n["name"]]
    out = []
    for k in n["kids"]:
        out.extend(m_tips(k))
    return out


def m_nodes(n, root=True):
    """all non-root nodes, preorder"""
    out = [] if root else [n]
    for k in n["kids"]:
        out.extend(m_nodes(k, False))
    return out


def m_internal(n, root=True):
    """internal nodes including the root, preorder"""
    out = []
    if n["kids"]:
        out.append(n)
    for k in n["kids"]:
        out.extend(m_internal(k, False))
    return out


def m_newick(n, root=True):
    if n["kids"]:
        inner = "(" + ",".join(m_newick(k, False) for k in n["kids"]) + ")"
        return inner + ";" if root else f"{inner}{n['name']}:{n['len']!r}"
    return f"{n['name']}:{n['len']!r}"


def m_parent_map(root):
    par = {}

    def walk(n):
        for k in n["kids"]:
            par[k["name"]] = n
            walk(k)

    walk(root)
    return par


def m_find(root, name):
    if root["name"] == name:
        return root
    for k in root["kids"]:
        r = m_find(k, name)
        if r is not None:
            return r
    return None


def m_permute_kids(root, codes):
    """a copy with the children of every internal node (preorder) permuted by the Lehmer code codes[i]"""
    t = _deep(root)
    for i, n in enumerate(m_internal(t)):
        code = codes[i % len(codes)] if codes else 0
        kids = list(n["kids"])
        new = []
        for r in range(len(kids), 0, -1):
            new.append(kids.pop(code % r))
            code //= r
        n["kids"] = new
    return t


def m_split(root, child_name, cuts, new_name):
    """a copy in which the edge above ``child_name`` is split into len(cuts)+1 pieces by degree-2 nodes.  ``cuts`` is a
    fraction or an ascending list of fractions of the edge length measured from the child end: the child keeps
    cuts[0]*len, the next piece is (cuts[1]-cuts[0])*len, ..., the piece below the old parent gets the remainder.
    Fractions 0 and 1 (and equal neighbours) give zero-length pieces."""
    if not isinstance(cuts, (list, tuple)):
        cuts = [cuts]
    t = _deep(root)
    par = m_parent_map(t)
    c = m_find(t, child_name)
    p = par[child_name]
    total = c["len"]
    pieces, prev = [], 0.0
    for x in cuts:
        pieces.append(total * (x - prev))
        prev = x
    pieces.append(max(0.0, total - sum(pieces)))
    grp, pw = c["grp"], c["pw"]
    c["len"] = pieces[0]
    node = c
    for i, ln in enumerate(pieces[1:]):
        node = {"name": new_name if i == 0 else f"{new_name}_{i}", "len": ln, "grp": grp, "pw": pw, "kids": [node]}
    p["kids"][p["kids"].index(c)] = node
    return t


def m_reroot_at(root, name):
    """a copy re-oriented so that the internal node ``name`` is the root; edge attributes stay with the edge"""
    t = _deep(root)
    if t["name"] == name:
        return t
    par = m_parent_map(t)
    path = [m_find(t, name)]
    while path[-1]["name"] in par:
        path.append(par[path[-1]["name"]])
    # path: new root ... old root ; reverse every edge on it
    attrs = [(n["len"], n["grp"], n["pw"]) for n in path[:-1]]
    for i in range(len(path) - 1):
        child, parent = path[i], path[i + 1]
        parent["kids"].remove(child)
    for i in range(len(path) - 1):
        child, parent = path[i], path[i + 1]
        child["kids"].append(parent)
        parent["len"], parent["grp"], parent["pw"] = attrs[i]
    new = path[0]
    new["len"], new["grp"], new["pw"] = None, None, None
    return new


def m_paths(root):
    """{(tipa, tipb): path length} over the undirected tree"""
    depth = {}

    def walk(n, anc, d):
        cur = anc + [(n["name"], d)]
        if not n["kids"]:
            depth[n["name"]] = cur
        for k in n["kids"]:
            walk(k, cur, d + k["len"])

    walk(root, [], 0.0)
    out = {}
    names = sorted(depth)
    for i, a in enumerate(names):
        for b in names[i + 1 :]:
            pa, pb = depth[a], depth[b]
            j = 0
            while j < min(len(pa), len(pb)) and pa[j][0] == pb[j][0]:
                j += 1
            lca = pa[j - 1][1]
            out[(a, b)] = (pa[-1][1] - lca) + (pb[-1][1] - lca)
    return out


def m_has_deg2(n, root=True):
    if not root and len(n["kids"]) == 1:
        return True
    return any(m_has_deg2(k, False) for k in n["kids"])


def m_depth_of(root, name):
    """number of edges between the root and the node"""
    par = m_parent_map(root)
    d = 0
    while name in par:
        name = par[name]["name"]
        d += 1
    return d


# ------------------------------------------------------------------ generators
def _loguniform(lo, hi):
    return st.floats(math.log(lo), math.log(hi), allow_nan=False, allow_infinity=False).map(lambda x: float(math.exp(x)))


@st.composite
def tree_st(draw, min_tips, max_tips, discrete):
    n = draw(st.sampled_from([k for k in (4, 5, 3, 6, 5, 4, 3, 5, 4, 2) if min_tips <= k <= max_tips]))
    names = draw(st.permutations(TIP_POOL))[:n]
    # mostly [1e-3, 3]; one edge in six is very short (down to 1e-8) or very long (up to the library's bound of 10)
    length = st.one_of(
        _loguniform(1e-3, 3.0), _loguniform(1e-3, 3.0), _loguniform(1e-3, 3.0), _loguniform(1e-3, 3.0), _loguniform(1e-3, 3.0),
        st.one_of(_loguniform(1e-8, 1e-3), _loguniform(3.0, 10.0), st.sampled_from([1e-8, 10.0])),
    )

    def attrs():
        d = {"len": draw(length), "grp": draw(st.integers(0, 2)), "pw": None}
        if discrete:
            d["pw"] = [[draw(st.integers(1, 9)) for _ in range(4)] for _ in range(4)]
        return d

    nodes = [dict(name=nm, kids=[], **attrs()) for nm in names]
    root_deg = min(draw(st.sampled_from([2, 2, 3, 3, 3, 4])), n)
    cnt = 0
    while len(nodes) > root_deg:
        k = draw(st.sampled_from([2, 2, 2, 2, 3]))
        k = min(k, len(nodes) - root_deg + 1)
        if k < 2:
            break
        idxs = sorted(draw(st.lists(st.integers(0, len(nodes) - 1), min_size=k, max_size=k, unique=True)), reverse=True)
        kids = [nodes.pop(i) for i in idxs]
        nodes.append(dict(name=f"n{cnt}", kids=kids, **attrs()))
        cnt += 1
    return {"name": "n_r", "len": None, "grp": None, "pw": None, "kids": nodes}


@st.composite
def columns_st(draw, family, ntips, gaps_ok):
    if family == "nuc":
        motifs, degen = list(NUCS), (NUC_DEGEN if gaps_ok else NUC_DEGEN_NOGAP)
    elif family == "prot":
        motifs, degen = list(AAS), AA_DEGEN
    elif family in ("di", "dinuc"):
        motifs, degen = DINUCS, ["--", "NN", "2N"]
    elif family == "tri":
        motifs, degen = TRIPLETS, ["---", "NNN", "3N"]
    else:
        motifs, degen = SENSE, ["---", "NNN", "3N"]
    npool = draw(st.integers(2, 8))
    pool = []
    for _ in range(npool):
        base = draw(st.integers(0, len(motifs) - 1))
        col = []
        for _ in range(ntips):
            r = draw(st.integers(0, 99))
            if r < 50:
                m = motifs[base]
            elif r < 88:
                m = motifs[draw(st.integers(0, len(motifs) - 1))]
            else:
                m = degen[draw(st.integers(0, len(degen) - 1))]
                if m == "3N":
                    c = motifs[base]
                    m = c if (family != "tri" and c[:2] in ("TA", "TG")) else c[:2] + "N"
                elif m == "2N":
                    m = motifs[base][0] + "N"
            col.append(m)
        pool.append(col)
    ncols = draw(st.integers(2, 12))
    idx = draw(st.lists(st.integers(0, npool - 1), min_size=ncols, max_size=ncols))
    return [pool[i] for i in idx]


_CUT = st.one_of(
    st.floats(0.05, 0.95, allow_nan=False), st.floats(0.05, 0.95, allow_nan=False), st.floats(0.05, 0.95, allow_nan=False),
    st.sampled_from([0.0, 1.0, 0.5]),
)


@st.composite
def xf_st(draw, tree, ncols, ntips):
    """arguments of the transformations.  Split and root positions are fractions of an edge and include 0 and 1 (a
    zero-length piece); an edge is split into 2, 3 or 4 pieces"""
    nnodes = len(m_nodes(tree))
    return {
        "colperm": list(draw(st.permutations(list(range(ncols))))),
        "seqperm": list(draw(st.permutations(list(range(ntips))))),
        "kids": [draw(st.integers(0, 23)) for _ in range(len(m_internal(tree)))],
        "k": draw(st.sampled_from([2, 3])),
        "tile": draw(st.booleans()),
        "dup": draw(st.lists(st.integers(0, ncols - 1), min_size=1, max_size=ncols)),
        "reroot": [{"node": draw(st.integers(0, nnodes - 1)), "frac": draw(_CUT), "at": draw(st.booleans())} for _ in range(2)],
        "lib": {"node": draw(st.integers(0, nnodes - 1)), "tip": draw(st.booleans())},
        "split": [
            {"node": draw(st.integers(0, nnodes - 1)), "cuts": sorted(draw(_CUT) for _ in range(draw(st.sampled_from([1, 1, 1, 2, 3]))))}
            for _ in range(draw(st.integers(1, 3)))
        ],
    }


@st.composite
def het_st(draw, family, model):
    """rate heterogeneity: how the bins of the likelihood function differ.
    gamma-rate / free-rate: ordered_param='rate' with distribution 'gamma' / 'free' (free = the library's monotonic
    partition at its default value; it has no public setter); gamma-param / free-param: the same on a rate parameter of
    the model (``<param>_factor``); bin-params: no ordered parameter, every rate parameter gets its own constant value per
    bin through set_param_rule(par, bin=...).  Bin probabilities: library default (equal), or unequal via
    set_param_rule('bprobs', init=...) / (value=..., is_constant=True); every probability is >= 0.02/3.02."""
    paramless = family == "prot" or model in ("JC69", "F81")
    if model in DISCRETE:
        return {"mode": "none"}
    p_het = {"nuc": 35, "ns": 30, "prot": 30, "codon": 25}[family]
    if draw(st.integers(0, 99)) >= p_het:
        return {"mode": "none"}
    if paramless:
        mode = draw(st.sampled_from(["gamma-rate", "gamma-rate", "free-rate"]))
    elif family == "codon":
        # every (model, ordered_param, distribution) is a separate 1-3 s model construction
        mode = draw(st.sampled_from(["gamma-rate", "gamma-param", "bin-params", "bin-params"]))
    else:
        mode = draw(st.sampled_from(["gamma-rate", "gamma-rate", "gamma-param", "gamma-param", "free-rate", "free-param", "bin-params", "bin-params"]))
    nb = draw(st.sampled_from({"nuc": [2, 2, 3, 3, 4], "ns": [2, 3], "prot": [2, 3], "codon": [2, 2, 3]}[family]))
    return {
        "mode": mode,
        "bins": nb,
        "param": "omega" if family == "codon" else None,  # else chosen by pidx from the model's parameter list
        "pidx": draw(st.integers(0, 11)),
        "shape": draw(_loguniform(0.2, 5.0)),
        "bp": draw(st.sampled_from(["default", "init", "init", "const"])),
        "bprobs": [draw(_loguniform(0.02, 1.0)) for _ in range(nb)],
        "names": draw(st.booleans()),
    }


@st.composite
def case_st(draw, family, models=None):
    if models is not None:
        model = draw(st.sampled_from(models))
        max_tips, nmp = 5, (4 if model.startswith("MG94") else 61)
    elif family == "nuc":
        model = draw(st.sampled_from(NUC_REV + NUC_REV + NUC_NONREV + NUC_NONREV + NUC_DISCRETE))
        max_tips, nmp = 6, 4
    elif family == "ns":
        model = draw(st.sampled_from(NS_MODELS))
        max_tips, nmp = 5, (16 if model == "ns:dinuc" else 4)
    elif family == "codon":
        model = draw(st.sampled_from(CODON_REV + CODON_NONREV + CODON_NONREV))
        max_tips, nmp = 5, (4 if model.startswith("MG94") else 61)
    else:
        model = draw(st.sampled_from(PROT))
        max_tips, nmp = 5, 20
    discrete = model in DISCRETE
    tree = draw(tree_st(2, max_tips, discrete))
    ntips = len(m_tips(tree))
    colfam = ("dinuc" if model == "ns:dinuc" else "nuc") if family == "ns" else family
    cols = draw(columns_st(colfam, ntips, gaps_ok=not discrete))
    ncols = len(cols)
    # "data": set_motif_probs is never called, the function keeps what set_alignment derived from the alignment
    pi_mode = draw(st.sampled_from(["varied", "sparse", "varied", "equal", "varied", "sparse", "varied", "varied", "data", "data"]))
    w = [1.0] * nmp if pi_mode == "equal" else [draw(st.floats(0.05, 1.0, allow_nan=False)) for _ in range(nmp)]
    if pi_mode == "sparse":
        # some motifs get the probability the library itself assigns to unobserved motifs (about 1e-6)
        cut = draw(st.sampled_from([3, 6, 9]))  # about 30 %, 60 % or 90 % of the motifs
        tiny = [draw(st.integers(0, 9)) < cut for _ in range(nmp)]
        if all(tiny):
            tiny[0] = False
        w = [0.0 if t else x for t, x in zip(tiny, w)]
    # 1.0 is the value every rate parameter has in a freshly made likelihood function
    pvals = [draw(st.one_of(st.just(1.0), _loguniform(0.1, 10.0), _loguniform(0.1, 10.0))) for _ in range(12)]
    scope = "global" if discrete else draw(st.sampled_from(["global", "global", "global", "edge", "edge"]))
    het = draw(het_st(family, model))
    # optimise_motif_probs=True: motif probabilities are a free (not constant) partition; a separate model construction
    opt_mp = draw(st.integers(0, 11 if family == "codon" else 3)) == 0
    return {
        "family": family,
        "model": model,
        "het": het,
        "opt_mp": opt_mp,
        "new_type": draw(st.integers(0, 3)) == 0,
        "default_expm": draw(st.booleans()),
        "tree": tree,
        "cols": cols,
        "pi_mode": pi_mode,
        "mp": w,
        "pvals": pvals,
        "scope": scope,
        "xf": draw(xf_st(tree, ncols, ntips)),
    }


@st.composite
def word_case_st(draw, kind, mprob_models):
    """user-built reversible word model ``kind`` with motif-probability model drawn from ``mprob_models``; word
    probabilities are a product of per-position nucleotide frequencies that differ clearly between positions
    (each position gets its own permutation of POSITION_PROFILE, slightly perturbed) times a per-word factor"""
    if kind is None:  # either way of building a dinucleotide model
        kind = draw(st.sampled_from(["dinuc", "di"]))
    words = sorted(WORD_KINDS[kind])
    wl = len(words[0])
    mpm = draw(st.sampled_from(mprob_models))
    tree = draw(tree_st(2, 5, False))
    ntips = len(m_tips(tree))
    cols = draw(columns_st("codon" if kind == "codon" else kind, ntips, gaps_ok=True))
    ncols = len(cols)
    perms = []
    for k in range(wl):
        pm = list(draw(st.permutations([0, 1, 2, 3])))
        while pm in perms:  # positions must differ
            pm = pm[1:] + pm[:1]
        perms.append(pm)
    pos = [[POSITION_PROFILE[pm[i]] * draw(st.floats(0.9, 1.1, allow_nan=False)) for i in range(4)] for pm in perms]
    pure = draw(st.integers(0, 3)) == 0
    jit = [1.0 if pure else draw(st.floats(0.8, 1.25, allow_nan=False)) for _ in words]
    w = []
    for word, j in zip(words, jit):
        x = j
        for k, ch in enumerate(word):
            x *= pos[k]["ACGT".index(ch)]
        w.append(x)
    pvals = [draw(st.one_of(st.just(1.0), _loguniform(0.1, 10.0), _loguniform(0.1, 10.0))) for _ in range(12)]
    scope = draw(st.sampled_from(["global", "global", "edge"]))
    xf = draw(xf_st(tree, ncols, ntips))
    data_pi = draw(st.integers(0, 5)) == 0  # motif probabilities left as derived from the alignment
    return {
        "family": "word",
        "kind": kind,
        "mprob_model": mpm,
        "model": f"word:{kind}:{mpm}",
        "het": {"mode": "none"},
        "opt_mp": False,
        "new_type": draw(st.integers(0, 3)) == 0,
        "default_expm": draw(st.sampled_from([False, True, False])),
        "tree": tree,
        "cols": cols,
        "pi_mode": "data" if data_pi else ("position-skewed-product" if pure else "position-skewed"),
        "position_freqs": pos,
        "mp": w,
        "pvals": pvals,
        "scope": scope,
        "xf": xf,
    }


LOCUS_POOL = ["x", "y", "L3", "1st-half", "b"]
LOCI_MODELS = NUC_REV + NUC_REV + NUC_NONREV


@st.composite
def loci_case_st(draw):
    """a multi-locus problem: one continuous-time nucleotide model and tree, 2-3 loci each with its own alignment,
    its own motif probabilities (data-derived / explicit per locus / one explicit vector for all loci) and either shared or
    locus-specific rate parameters; branch lengths are shared by construction of the library"""
    model = draw(st.sampled_from(LOCI_MODELS))
    tree = draw(tree_st(2, 5, False))
    ntips = len(m_tips(tree))
    nloci = draw(st.sampled_from([2, 2, 3]))
    names = draw(st.permutations(LOCUS_POOL))[:nloci]
    loci = []
    for nm in names:
        cols = draw(columns_st("nuc", ntips, gaps_ok=True))[: draw(st.integers(1, 8))]
        loci.append({
            "name": nm,
            "cols": cols,
            "mp": [draw(st.floats(0.05, 1.0, allow_nan=False)) for _ in range(4)],
            "shift": draw(st.integers(0, 11)),
            "colperm": list(draw(st.permutations(list(range(len(cols)))))),
            "seqperm": list(draw(st.permutations(list(range(ntips))))),
        })
    nnodes = len(m_nodes(tree))
    return {
        "family": "loci",
        "model": model,
        "opt_mp": draw(st.sampled_from([False, False, False, True])),
        "new_type": draw(st.integers(0, 3)) == 0,
        "default_expm": draw(st.booleans()),
        "tree": tree,
        "loci": loci,
        "pi_mode": draw(st.sampled_from(["data", "per-locus", "per-locus", "shared"])),
        "param_scope": draw(st.sampled_from(["per-locus", "per-locus", "shared"])),
        "scope": draw(st.sampled_from(["global", "global", "edge"])),
        "pvals": [draw(st.one_of(st.just(1.0), _loguniform(0.1, 10.0), _loguniform(0.1, 10.0))) for _ in range(12)],
        "xf": {
            "locusperm": list(draw(st.permutations(list(range(nloci))))),
            "kids": [draw(st.integers(0, 23)) for _ in range(len(m_internal(tree)))],
            "k": draw(st.sampled_from([2, 3])),
            "reroot": {"node": draw(st.integers(0, nnodes - 1)), "frac": draw(_CUT), "at": draw(st.booleans())},
            "split": {"node": draw(st.integers(0, nnodes - 1)), "cuts": sorted(draw(_CUT) for _ in range(draw(st.sampled_from([1, 1, 2, 3]))))},
        },
    }


# ------------------------------------------------------------------ execution
class _Ctx:
    pass


_PRISTINE = {}  # per process: (model, constructor keywords) -> substitution model never handed to a likelihood function
BIN_NAMES = ["slow", "fast", "mid", "z4"]


def _norm_het(case):
    """the rate-heterogeneity description of a case (cases written before ``het`` existed carry bins / shape)"""
    het = case.get("het")
    if het is None:
        b = case.get("bins", 0)
        het = {"mode": "gamma-rate", "bins": b, "shape": case.get("shape", 1.0), "bp": "default", "names": False} if b else {"mode": "none"}
    return het


def _model_kw(case, het):
    """constructor keywords of the substitution model of a case"""
    kw = {}
    mode = het["mode"]
    if mode in ("gamma-rate", "free-rate"):
        kw = {"ordered_param": "rate", "distribution": mode.split("-")[0]}
    elif mode in ("gamma-param", "free-param"):
        par = het.get("param")
        if par is None:
            plist = sorted(_get_sm(case["model"], {}).get_param_list())
            par = plist[het["pidx"] % len(plist)] if plist else "rate"
        kw = {"ordered_param": par, "distribution": mode.split("-")[0]}
    if case.get("opt_mp"):
        kw["optimise_motif_probs"] = True
    return kw


def _get_sm(model, kw):
    """a fresh substitution model instance; codon models take seconds to construct, so a pristine instance is
    built once per process and every case works on its own deep copy (execution stays a function of the case)"""
    import copy

    import cogent3

    key = (model, tuple(sorted(kw.items())))
    if key not in _PRISTINE:
        if model.startswith("word:"):
            _PRISTINE[key] = _build_word_model(*model.split(":")[1:])
        elif model.startswith("ns:"):
            _PRISTINE[key] = _build_ns_model(model.split(":")[1], **kw)
        else:
            _PRISTINE[key] = cogent3.get_model(model, **kw)
    return copy.deepcopy(_PRISTINE[key])


def _build_ns_model(kind, **kw):
    """non-reversible, non-stationary models built from directed predicates the way cogent3.evolve.models builds GN;
    the predicate lists are those of tests/test_evolve/test_ns_substitution_model.py (test_nr_nucleotide /
    test_nr_dinucleotide) plus, for nucleotides, two more directed and one undirected change"""
    from cogent3.evolve import ns_substitution_model as ns
    from cogent3.evolve.predicate import MotifChange

    common = dict(recode_gaps=True, model_gaps=False, name=f"user-ns-{kind}")
    common.update(kw)
    ac = MotifChange("A", "C", forward_only=True)
    ga = MotifChange("G", "A", forward_only=True)
    if kind == "dinuc":
        return ns.NonReversibleDinucleotide(predicates=[ac, ga, MotifChange("CG", "TG", forward_only=True)], **common)
    ct = MotifChange("C", "T", forward_only=True).aliased("ct")
    tg = MotifChange("T", "G", forward_only=True)
    return ns.NonReversibleNucleotide(predicates=[ac, ga, ct, tg, MotifChange("A", "T")], **common)


def _build_word_model(kind, mpm):
    """reversible word models built the way cogent3.evolve.models builds the canned ones"""
    from cogent3.evolve import substitution_model as smod
    from cogent3.evolve.predicate import MotifChange, omega

    kappa = (smod.kappa_y | smod.kappa_r).aliased("kappa")
    cg = MotifChange("CG").aliased("G")
    common = dict(mprob_model=mpm, recode_gaps=True, model_gaps=False, name=f"user-{kind}-{mpm}")
    if kind == "codon":
        return smod.TimeReversibleCodon(predicates=[kappa, omega], **common)
    if kind == "tri":
        return smod.TimeReversibleNucleotide(motif_length=3, predicates=[kappa, cg], **common)
    if kind == "di":
        return smod.TimeReversibleNucleotide(motif_length=2, predicates=[kappa, cg], **common)
    return smod.TimeReversibleDinucleotide(predicates=[kappa], **common)


def _lnl(ctx, tm, cols, order, real_tree=None, pade=False):
    """lnL of the problem on tree model ``tm`` (or on the given real tree, whose nodes then carry ``tm``-independent
    lengths read from the tree itself) with alignment columns ``cols`` and sequences given in ``order``."""
    import cogent3

    case = ctx.case
    tips = ctx.tips  # column rows are in this order
    seqs = {nm: "".join(c[tips.index(nm)] for c in cols) for nm in order}
    aln = cogent3.make_aligned_seqs(seqs, moltype="protein" if case["family"] == "prot" else "dna", new_type=case["new_type"])
    if real_tree is None:
        tree = cogent3.make_tree(m_newick(tm))
        nodes = m_nodes(tm)
        lengths = {n["name"]: n["len"] for n in nodes}
    else:
        tree = real_tree
        nodes = None
        lengths = {e.name: e.length for e in tree.get_edge_vector() if not e.isroot()}
    het = ctx.het
    nb = het["bins"] if het["mode"] != "none" else 0
    bin_names = (BIN_NAMES[:nb] if het.get("names") else [f"bin{i}" for i in range(nb)]) if nb else []
    kw = {"bins": (bin_names if het.get("names") else nb)} if nb else {}
    lf = ctx.sm.make_likelihood_function(tree, **kw)
    lf.set_alignment(aln)
    if case["pi_mode"] != "data":
        lf.set_motif_probs(ctx.mprobs)
    ctx.mprobs_free = bool(lf.optimise_motif_probs)
    model = case["model"]
    if pade and model not in DISCRETE:
        lf.set_expm("pade")
    rules = []
    if model in DISCRETE:
        import numpy

        for n in nodes:
            P = numpy.array(n["pw"], dtype=float)
            P = P + numpy.eye(4) * 12.0
            P = P / P.sum(axis=1)[:, None]
            rules.append(dict(par_name="psubs", edge=n["name"], value=P, is_constant=True))
        lf.apply_param_rules(rules)
        return float(lf.lnL)
    pnames = sorted(p for p in lf.get_param_names() if p not in SKIP_PARAMS and not p.endswith(("_factor", "_shape")))
    pv = case["pvals"]
    # in mode bin-params every parameter has its own value in every bin (offset 3 * bin index into pvals)
    per_bin = [(3 * j, {"bin": bn}) for j, bn in enumerate(bin_names)] if het["mode"] == "bin-params" else [(0, {})]
    if case["scope"] == "global" or nodes is None:
        for i, p in enumerate(pnames):
            for off, bkw in per_bin:
                rules.append(dict(par_name=p, value=pv[(i + off) % len(pv)], is_constant=True, **bkw))
    else:
        groups = {}
        for n in nodes:
            groups.setdefault(n["grp"], []).append(n["name"])
        for i, p in enumerate(pnames):
            for g, edges in sorted(groups.items()):
                for off, bkw in per_bin:
                    rules.append(dict(par_name=p, edges=edges, value=pv[(i + 5 * g + off) % len(pv)], is_constant=True, **bkw))
    if nb:
        if het["mode"].startswith("gamma"):
            shape = [p for p in lf.get_param_names() if p.endswith("_shape")]
            if len(shape) != 1:
                from vlib.core import HarnessError

                raise HarnessError(f"expected one gamma shape parameter, found {shape}")
            rules.append(dict(par_name=shape[0], value=het["shape"], is_constant=True))
        if het["bp"] != "default":
            tot = sum(het["bprobs"][:nb])
            bp = [x / tot for x in het["bprobs"][:nb]]
            bp[-1] = 1.0 - sum(bp[:-1])
            rules.append(dict(par_name="bprobs", value=bp, is_constant=True) if het["bp"] == "const" else dict(par_name="bprobs", init=bp))
    for name, ln in lengths.items():
        rules.append(dict(par_name="length", edge=name, value=ln, is_constant=True))
    lf.apply_param_rules(rules)
    return float(lf.lnL)


def _spread(weights):
    """1 - sum(p_i^2) of the normalised weights: the probability that two draws differ.  The library calibrates rate
    matrices to one expected substitution per unit length under the motif distribution, so a nearly degenerate
    distribution (spread -> 0) scales the rates of the rare states up by about 1 / spread"""
    tot = float(sum(weights))
    if tot <= 0:
        return 0.0
    return 1.0 - sum((x / tot) ** 2 for x in weights)


STIFF_SPREAD = 0.05
TINY_EDGE = 1e-5


def _observe(tree):
    def rd(n, root=True):
        return {"name": n.name, "len": None if root else n.length, "grp": None, "pw": None, "kids": [rd(c, False) for c in n.children]}

    return rd(tree)


def execute(case) -> Soft:
    import cogent3

    fam = case["family"]
    word = fam == "word"
    if word:
        fam = f"word-{case['kind']}-{case['mprob_model']}"  # part of every signature
    s = Soft("C11/")
    model = case["model"]
    tm = case["tree"]
    cols = case["cols"]
    xf = case["xf"]
    ctx = _Ctx()
    ctx.case = case
    ctx.tips = m_tips(tm)
    tips = ctx.tips
    ntips = len(tips)
    ncols = len(cols)
    rev = word or model in REVERSIBLE
    discrete = model in DISCRETE
    het = ctx.het = _norm_het(case)
    data_pi = case["pi_mode"] == "data"
    ok, sm = s.call(f"get_model/{fam}", lambda: _get_sm(model, _model_kw(case, het)))
    if not ok:
        return s
    ctx.sm = sm
    # word models always get word probabilities; the monomer(s) models derive nucleotide frequencies from them
    keys = sorted(sm.get_alphabet()) if word else sorted(sm.get_mprob_alphabet())
    if word and keys != sorted(WORD_KINDS[case["kind"]]):
        from vlib.core import HarnessError

        raise HarnessError(f"word alphabet of {model} is not the expected one")
    w = case["mp"][: len(keys)]
    if not any(w):
        w = [1.0] * len(w)
    ntiny = sum(1 for x in w if x == 0)
    tot = sum(w)
    ctx.mprobs = {k: (TINY_PROB if x == 0 else x / tot * (1.0 - ntiny * TINY_PROB)) for k, x in zip(keys, w)}
    unequal_pi = max(w) - min(w) > 1e-3

    kind = "discrete" if discrete else ("reversible" if rev else "nonreversible")
    distinct = len({tuple(c) for c in cols})
    canon = WORD_KINDS[case["kind"]] if word else (SENSE if fam == "codon" else (AAS if fam == "prot" else (DINUCS if model == "ns:dinuc" else NUCS)))
    degen = any(m not in canon for c in cols for m in c)
    if data_pi:
        # the function keeps the motif probabilities set_alignment derived from the alignment: unequal unless all counts agree
        counts = {}
        for c in cols:
            for m in c:
                if m in canon:
                    counts[m] = counts.get(m, 0) + 1
        unequal_pi = len(counts) < len(canon) or len(set(counts.values())) > 1
        stiff = _spread(list(counts.values())) < STIFF_SPREAD
    else:
        stiff = _spread(list(ctx.mprobs.values())) < STIFF_SPREAD
    lens = [n["len"] for n in m_nodes(tm)]
    s.cls(
        f"family:{case['family']}", f"model:{model}", f"kind:{kind}", f"scope:{case['scope']}",
        f"het:{het['mode']}", f"bins:{het['bins'] if het['mode'] != 'none' else 0}",
        *([f"bprobs:{het['bp']}"] if het["mode"] != "none" else []),
        "optimise_motif_probs=True" if case.get("opt_mp") else "optimise_motif_probs:model-default",
        "length<1e-3" if min(lens) < 1e-3 else "lengths>=1e-3", "length>3" if max(lens) > 3 else "lengths<=3",
        f"root-degree:{len(tm['kids'])}", "polytomy" if any(len(n["kids"]) > 2 for n in m_internal(tm)[1:]) or len(tm["kids"]) > 3 else "binary",
        "degenerate-symbols" if degen else "canonical-only", "duplicate-columns" if distinct < ncols else "all-columns-distinct",
        f"pi:{case['pi_mode']}", "new-type-alignment" if case["new_type"] else "old-type-alignment", f"tips:{ntips}",
    )

    if word:
        s.cls(f"word-kind:{case['kind']}", f"mprob_model:{case['mprob_model']}")

    def has_canonical(columns):
        # set_alignment derives motif probabilities from the complete motifs of the alignment (before they are overridden);
        # an alignment without a single complete motif has no such frequencies and is not a valid input
        return any(m in canon for c in columns for m in c)

    if not has_canonical(cols):
        s.cls("alignment-without-complete-motif(skipped)")
        return s
    ok, base = s.call(f"base/{fam}", _lnl, ctx, tm, cols, tips)
    if not ok:
        return s
    if not (math.isfinite(base) and base < 0):
        s.cls("base-not-finite")
        return s
    evals = 0

    # Circumstance of a confirmed defect (C11_ext_findings.md, finding 1): PadeExponentiator picks approximation order 1
    # when |Qt| < 1.2e-6, which gets entries of exp(Qt) that need three substitutions wrong by 50 %.  Relations that compare
    # different subdivisions of an edge are given their own signature when the model has 3-letter motifs and an edge of
    # either tree is that short (|Q| >= 1 row-wise for a calibrated matrix; bound taken with a margin).
    word3 = case["family"] == "codon" or (word and case["kind"] in ("codon", "tri"))

    def tiny(tree_model):
        return any(0.0 < n["len"] < TINY_EDGE for n in m_nodes(tree_model))

    def relate(name, want, what, *args, rtol=1e-9, tag="", **kwargs):
        nonlocal evals
        if tag and word3 and (tiny(tm) or tiny(args[0] if args[0] is not None else _observe(kwargs["real_tree"]))):
            tag += "/tiny-edge-3step"
        sig = f"{name}{tag}/{fam}"
        ok, got = s.call(sig, _lnl, ctx, *args, **kwargs)
        if not ok:
            return
        evals += 1
        s.cls(f"rel:{name}{tag}")
        s.notes.setdefault("residuals", []).append([name + tag, abs(got - want) / max(1.0, abs(want))])
        s.close(got, want, sig, f"{model} scope={case['scope']} het={het['mode']} pi={case['pi_mode']} {what}: base lnL {base!r}", rtol=rtol)

    # Relations that evaluate P(t) of one rate matrix at different t (root placement, edge split) depend on the accuracy
    # of the matrix exponential.  Half of the cases evaluate them with the Pade exponentiator on both sides (tolerance
    # 1e-9); the other half with the library's default exponentiator, whose eigendecomposition route the library itself
    # only validates to numpy.allclose precision: there the relation is required to 1e-6 and has its own signature.
    rbase, rkw = base, {"pade": False}
    if not discrete:
        if case["default_expm"]:
            rkw = {"pade": False, "rtol": 1e-6, "tag": "/default-expm"}
        else:
            ok, rbase = s.call(f"base-pade/{fam}", _lnl, ctx, tm, cols, tips, pade=True)
            if not ok or not (math.isfinite(rbase) and rbase < 0):
                return s
            rkw = {"pade": True, "tag": "/pade"}
            if stiff:
                # nearly all probability on one motif: the calibrated rate matrix has entries of 1e2 ... 1e5, Pade's scaling
                # and squaring then loses digits (measured 6e-10 absolute at length 10); required to 1e-6 like the default route
                rkw["rtol"] = 1e-6
                s.cls("near-degenerate-motif-probs(pade relations at 1e-6)")

    # -- column permutation (motif-sized blocks)
    perm = xf["colperm"]
    pcols = [cols[i] for i in perm]
    relate("colperm", base, f"columns permuted by {perm}", tm, pcols, tips)
    col_nontrivial = distinct >= 3 and pcols != cols

    # -- sequence order
    order = [tips[i] for i in xf["seqperm"]]
    relate("seqorder", base, f"sequences given in order {order} (tree tips {tips})", tm, cols, order)

    # -- child order
    ktm = m_permute_kids(tm, xf["kids"])
    relate("childorder", base, f"children reordered: {m_newick(ktm)}", ktm, cols, tips)

    # -- repeat every column k times.  With motif probabilities taken from the alignment this needs them to be the plain
    # relative frequencies (constant probabilities); optimisable ones get a pseudocount of 0.5 when a motif is unobserved
    k = xf["k"]
    if data_pi and ctx.mprobs_free:
        k = 1
        s.cls("repeat-skipped(data-derived optimisable motif probs)")
    else:
        rcols = cols * k if xf["tile"] else [c for c in cols for _ in range(k)]
        relate("repeat", k * base, f"every column repeated {k} times ({'tiled' if xf['tile'] else 'in place'})", tm, rcols, tips)

    # -- append copies of existing columns: lnL(A ++ A[S]) = lnL(A) + lnL(A[S]); the three alignments have different
    # motif frequencies, so not with data-derived motif probabilities
    dup = xf["dup"]
    scols = [cols[i] for i in dup]
    if not data_pi and has_canonical(scols):
        ok, sub = s.call(f"subset/{fam}", _lnl, ctx, tm, scols, tips)
        if ok and math.isfinite(sub):
            evals += 1
            relate("append-identical", base + sub, f"copies of columns {dup} appended (their own lnL {sub!r})", tm, cols + scols, tips)

    # -- edge splits (continuous time)
    nodes = m_nodes(tm)
    stm = tm
    if not discrete:
        done = set()
        for j, sp in enumerate(xf["split"]):
            nd = nodes[sp["node"] % len(nodes)]["name"]
            if nd in done:
                continue
            done.add(nd)
            cuts = sp["cuts"] if "cuts" in sp else [sp["frac"]]
            stm = m_split(stm, nd, cuts, f"s{j}")
            s.cls(f"split-pieces:{len(cuts) + 1}")
            if any(x in (0.0, 1.0) for x in cuts) or len(set(cuts)) < len(cuts):
                s.cls("split-with-zero-length-piece")
        relate("split", rbase, f"edges above {sorted(done)} split: {m_newick(stm)}", stm, cols, tips, **rkw)

    # -- re-rooting (reversible)
    root_nontrivial = False
    rtm = None
    if rev:
        for j, rr in enumerate(xf["reroot"]):
            internal = m_internal(tm)[1:]
            if rr["at"] and internal:
                target = internal[rr["node"] % len(internal)]["name"]
                rtm = m_reroot_at(tm, target)
                moved = m_depth_of(tm, target) >= 1
                name = "reroot-node"
                what = f"root moved to node {target}"
            else:
                target = nodes[rr["node"] % len(nodes)]["name"]
                rtm = m_reroot_at(m_split(tm, target, rr["frac"], "n_x"), "n_x")
                moved = m_depth_of(tm, target) >= 2
                name = "reroot-edge"
                what = f"root moved onto the edge above {target} at fraction {rr['frac']}"
            if m_has_deg2(rtm):
                s.cls("reroot-leaves-degree2-node")
            root_nontrivial = root_nontrivial or moved
            relate(name, rbase, f"{what}: {m_newick(tm)} -> {m_newick(rtm)}", rtm, cols, tips, **rkw)
        # library re-rooting, globally scoped parameters only (trees with two tips are left to C09)
        if case["scope"] == "global" and ntips >= 3:
            lb = xf["lib"]
            ok, real = s.call(f"make_tree/{fam}", cogent3.make_tree, m_newick(tm))
            if ok:
                if lb["tip"]:
                    target = tips[lb["node"] % ntips]
                    name, fn = "reroot-lib-tip", real.rooted_with_tip
                else:
                    internal = m_internal(tm)[1:]
                    target = internal[lb["node"] % len(internal)]["name"] if internal else None
                    name, fn = "reroot-lib-node", real.rooted_at
                if target is not None:
                    ok, res = s.call(f"{name}/{fam}", fn, target)
                    if ok:
                        obs = _observe(res)
                        wp = m_paths(tm)
                        same = sorted(m_tips(obs)) == sorted(tips) and all(n["len"] is not None for n in m_nodes(obs))
                        if same:
                            gp = m_paths(obs)
                            same = all(abs(gp[key] - v) <= 1e-12 * max(1.0, v) for key, v in wp.items())
                        if same:
                            relate(name, rbase, f"library re-rooting with {target}: {res.get_newick(with_distances=True)}", None, cols, tips, real_tree=res, **rkw)
                        else:
                            s.cls("lib-reroot-changed-path-lengths(skipped)")

    # -- everything at once
    ctm = m_permute_kids(rtm if rtm is not None else stm, xf["kids"][::-1])
    if not discrete and rtm is not None:
        cn = m_nodes(ctm)
        sp = xf["split"][0]
        ctm = m_split(ctm, cn[sp["node"] % len(cn)]["name"], sp["cuts"] if "cuts" in sp else [sp["frac"]], "s_c")
    relate("combined", k * rbase, f"column permutation + sequence order + child order + {k}-fold repetition" + (" + re-rooting + split" if rtm is not None else ("" if discrete else " + split")),
           ctm, [pcols[i % ncols] for i in range(ncols * k)], order, **rkw)

    s.evals = max(1, evals)
    s.nontrivial = bool(unequal_pi and (col_nontrivial or root_nontrivial))
    if col_nontrivial:
        s.cls("nontrivial-column-permutation")
    if root_nontrivial:
        s.cls("root-moved-across-internal-node")
    return s


def _lnl_loci(ctx, tm, loci, pade=False):
    """lnL of a likelihood function over the given loci (list of {"name", "cols", "order", "mp", "shift"}) on tree
    model ``tm``; a single locus is evaluated with an ordinary (loci-less) likelihood function"""
    import cogent3

    case = ctx.case
    tips = ctx.tips
    alns = []
    for lc in loci:
        seqs = {nm: "".join(c[tips.index(nm)] for c in lc["cols"]) for nm in lc["order"]}
        alns.append(cogent3.make_aligned_seqs(seqs, moltype="dna", new_type=case["new_type"]))
    tree = cogent3.make_tree(m_newick(tm))
    nodes = m_nodes(tm)
    multi = len(loci) > 1
    lf = ctx.sm.make_likelihood_function(tree, **({"loci": [lc["name"] for lc in loci]} if multi else {}))
    lf.set_alignment(alns if multi else alns[0])
    keys = sorted(ctx.sm.get_mprob_alphabet())
    if case["pi_mode"] != "data":
        for i, lc in enumerate(loci):
            w = ctx.shared_mp if case["pi_mode"] == "shared" else lc["mp"]
            tot = sum(w)
            lf.set_motif_probs({k: x / tot for k, x in zip(keys, w)}, **({"locus": lc["name"]} if multi else {}))
    ctx.mprobs_free = bool(lf.optimise_motif_probs)
    if pade:
        lf.set_expm("pade")
    pnames = sorted(p for p in lf.get_param_names() if p not in SKIP_PARAMS)
    pv = case["pvals"]
    groups = {}
    for n in nodes:
        groups.setdefault(n["grp"] if case["scope"] == "edge" else 0, []).append(n["name"])
    rules = []
    for i, p in enumerate(pnames):
        for lc in loci:
            lkw = {"locus": lc["name"]} if multi else {}
            shift = lc["shift"] if case["param_scope"] == "per-locus" else 0
            for g, edges in sorted(groups.items()):
                ekw = {"edges": edges} if case["scope"] == "edge" else {}
                rules.append(dict(par_name=p, value=pv[(i + 5 * g + shift) % len(pv)], is_constant=True, **lkw, **ekw))
    for n in nodes:
        rules.append(dict(par_name="length", edge=n["name"], value=n["len"], is_constant=True))
    lf.apply_param_rules(rules)
    return float(lf.lnL)


def execute_loci(case) -> Soft:
    s = Soft("C11/")
    model = case["model"]
    tm = case["tree"]
    xf = case["xf"]
    ctx = _Ctx()
    ctx.case = case
    tips = ctx.tips = m_tips(tm)
    rev = model in REVERSIBLE
    data_pi = case["pi_mode"] == "data"
    ok, sm = s.call("get_model/loci", lambda: _get_sm(model, {"optimise_motif_probs": True} if case["opt_mp"] else {}))
    if not ok:
        return s
    ctx.sm = sm
    ctx.shared_mp = case["loci"][0]["mp"]
    loci = [dict(lc, order=tips) for lc in case["loci"]]
    nloci = len(loci)
    s.cls(
        "family:loci", f"model:{model}", f"kind:{'reversible' if rev else 'nonreversible'}", f"loci:{nloci}", f"pi:{case['pi_mode']}",
        f"params:{case['param_scope']}", f"scope:{case['scope']}", f"tips:{len(tips)}",
        "optimise_motif_probs=True" if case["opt_mp"] else "optimise_motif_probs:model-default",
        "new-type-alignment" if case["new_type"] else "old-type-alignment",
    )
    if not all(any(m in NUCS for c in lc["cols"] for m in c) for lc in loci):
        s.cls("locus-without-complete-motif(skipped)")  # no motif frequencies can be derived from it (see execute)
        return s
    ok, base = s.call("base/loci", _lnl_loci, ctx, tm, loci)
    if not ok:
        return s
    if not (math.isfinite(base) and base < 0):
        s.cls("base-not-finite")
        return s
    evals = 0

    def relate(name, want, what, *args, rtol=1e-9, tag="", **kwargs):
        nonlocal evals
        sig = f"{name}{tag}/loci"
        ok, got = s.call(sig, _lnl_loci, ctx, *args, **kwargs)
        if not ok:
            return
        evals += 1
        s.cls(f"rel:{name}{tag}")
        s.notes.setdefault("residuals", []).append([name + tag, abs(got - want) / max(1.0, abs(want))])
        s.close(got, want, sig, f"{model} {nloci} loci pi={case['pi_mode']} params={case['param_scope']} scope={case['scope']} {what}: base lnL {base!r}", rtol=rtol)

    if case["default_expm"]:
        rbase, rkw = base, {"pade": False, "rtol": 1e-6, "tag": "/default-expm"}
    else:
        ok, rbase = s.call("base-pade/loci", _lnl_loci, ctx, tm, loci, pade=True)
        if not ok or not (math.isfinite(rbase) and rbase < 0):
            return s
        rkw = {"pade": True, "tag": "/pade"}
        stiff = False
        for lc in loci:
            if data_pi:
                cnt = {}
                for c in lc["cols"]:
                    for m in c:
                        if m in NUCS:
                            cnt[m] = cnt.get(m, 0) + 1
                stiff = stiff or _spread(list(cnt.values())) < STIFF_SPREAD
            else:
                stiff = stiff or _spread(ctx.shared_mp if case["pi_mode"] == "shared" else lc["mp"]) < STIFF_SPREAD
        if stiff:
            rkw["rtol"] = 1e-6  # see execute
            s.cls("near-degenerate-motif-probs(pade relations at 1e-6)")

    # -- columns permuted within every locus
    ploci = [dict(lc, cols=[lc["cols"][i] for i in lc["colperm"]]) for lc in loci]
    relate("loci-colperm", base, f"columns of the loci permuted by {[lc['colperm'] for lc in loci]}", tm, ploci)
    col_nontrivial = any(len({tuple(c) for c in lc["cols"]}) >= 3 and pl["cols"] != lc["cols"] for lc, pl in zip(loci, ploci))

    # -- sequences of every locus given in their own order
    oloci = [dict(lc, order=[tips[i] for i in lc["seqperm"]]) for lc in loci]
    relate("loci-seqorder", base, f"sequences of the loci given in orders {[lc['order'] for lc in oloci]}", tm, oloci)

    # -- loci listed in another order (each keeps its name, alignment, motif probabilities and parameter values)
    if case["pi_mode"] != "shared":
        lperm = xf["locusperm"]
        relate("loci-order", base, f"loci listed in order {[loci[i]['name'] for i in lperm]}", tm, [loci[i] for i in lperm])

    # -- child order
    ktm = m_permute_kids(tm, xf["kids"])
    relate("loci-childorder", base, f"children reordered: {m_newick(ktm)}", ktm, loci)

    # -- every column of every locus repeated k times (see execute for the restriction)
    k = xf["k"]
    if data_pi and ctx.mprobs_free:
        k = 1
    else:
        relate("loci-repeat", k * base, f"every column of every locus repeated {k} times", tm, [dict(lc, cols=[c for c in lc["cols"] for _ in range(k)]) for lc in loci])

    # -- the loci are independent data sets: lnL = sum of the lnL of single-locus functions with the locus' own settings
    total, okall = 0.0, True
    for i, lc in enumerate(loci):
        one = dict(lc, mp=ctx.shared_mp) if case["pi_mode"] == "shared" else lc
        ok, part = s.call("loci-single/loci", _lnl_loci, ctx, tm, [one])
        if not (ok and math.isfinite(part)):
            okall = False
            break
        evals += 1
        total += part
    if okall:
        s.cls("rel:loci-sum")
        s.notes.setdefault("residuals", []).append(["loci-sum", abs(total - base) / max(1.0, abs(base))])
        s.close(base, total, "loci-sum/loci", f"{model} {nloci} loci pi={case['pi_mode']} params={case['param_scope']} scope={case['scope']}: lnL of the multi-locus function vs sum over single-locus functions")

    # -- edge split
    nodes = m_nodes(tm)
    sp = xf["split"]
    stm = m_split(tm, nodes[sp["node"] % len(nodes)]["name"], sp["cuts"], "s0")
    relate("loci-split", rbase, f"edge split: {m_newick(stm)}", stm, loci, **rkw)

    # -- root placement (reversible models)
    root_nontrivial = False
    ctm = stm
    if rev:
        rr = xf["reroot"]
        internal = m_internal(tm)[1:]
        if rr["at"] and internal:
            target = internal[rr["node"] % len(internal)]["name"]
            rtm = m_reroot_at(tm, target)
            root_nontrivial = m_depth_of(tm, target) >= 1
        else:
            target = nodes[rr["node"] % len(nodes)]["name"]
            rtm = m_reroot_at(m_split(tm, target, rr["frac"], "n_x"), "n_x")
            root_nontrivial = m_depth_of(tm, target) >= 2
        relate("loci-reroot", rbase, f"root moved: {m_newick(tm)} -> {m_newick(rtm)}", rtm, loci, **rkw)
        ctm = rtm

    # -- everything at once
    cl = [dict(lc, cols=[pl["cols"][i % len(pl["cols"])] for i in range(len(pl["cols"]) * k)], order=ol["order"]) for lc, pl, ol in zip(loci, ploci, oloci)]
    if case["pi_mode"] != "shared":
        cl = [cl[i] for i in xf["locusperm"]]
    relate("loci-combined", k * rbase, f"column permutation + sequence order + locus order + child order + {k}-fold repetition" + (" + re-rooting" if rev else " + split"),
           m_permute_kids(ctm, xf["kids"][::-1]), cl, **rkw)

    s.evals = max(1, evals)
    s.nontrivial = bool(col_nontrivial or root_nontrivial)
    return s


# codon models take 1-4 s each to construct, so the codon cases are split into subs by model group: a worker process
# then builds only the models of its group
SUBS = [
    Sub("nucleotide", execute, strategy=case_st("nuc"), quick=640, thorough=64_000, shards_quick=16, weight=1.0),
    Sub("protein", execute, strategy=case_st("prot"), quick=160, thorough=16_000, shards_quick=8, weight=1.0),
    Sub("multilocus", execute_loci, strategy=loci_case_st(), quick=64, thorough=6_400, shards_quick=4, weight=1.0),
    Sub("ns-predicate", execute, strategy=case_st("ns"), quick=64, thorough=6_400, shards_quick=4, weight=1.0),
    Sub("codon-cnf", execute, strategy=case_st("codon", ["CNFGTR", "CNFHKY"]), quick=32, thorough=3_200, shards_quick=2, weight=4.0),
    Sub("codon-mg94", execute, strategy=case_st("codon", ["MG94HKY", "MG94GTR"]), quick=32, thorough=3_200, shards_quick=2, weight=4.0),
    Sub("codon-y98", execute, strategy=case_st("codon", ["GY94", "Y98"]), quick=32, thorough=3_200, shards_quick=2, weight=4.0),
    Sub("codon-h04", execute, strategy=case_st("codon", ["H04G", "H04GK", "H04GGK"]), quick=36, thorough=3_600, shards_quick=3, weight=4.0),
    Sub("codon-gnc", execute, strategy=case_st("codon", ["GNC"]), quick=24, thorough=2_400, shards_quick=2, weight=5.0),
]

# user-built reversible word models (the registered models use only some kind x mprob_model combinations). 61/64-state
# models take about 2 s to construct, so each of them gets its own single-shard sub; the 16-state ones are grouped by mprob_model.
for _kind in ("codon", "tri"):
    for _m in MPROB_MODELS:
        SUBS.append(Sub(f"word-{_kind}-{_m}", execute, strategy=word_case_st(_kind, [_m]), quick=12, thorough=1_600, shards_quick=1, weight=4.0))
for _m in MPROB_MODELS:
    SUBS.append(Sub(f"word-dinuc-{_m}", execute, strategy=word_case_st(None, [_m]), quick=16, thorough=1_600, shards_quick=1, weight=1.0))

KNOWN_PREDICATES = {}

META = {
    "technique": "metamorphic relations between freshly built likelihood functions (column/sequence/child permutations, column repetition and appending, root placement at nodes and on edges, edge splitting into 2-4 pieces incl. zero-length ones, locus order and locus decomposition for multi-locus functions), transformed trees produced by a harness tree model",
    "level_text": "About 1250 generated likelihood problems per run over all 25 registered models (4-, 20- and 61-state), 2 predicate-built non-reversible models, 16 user-built reversible word models (codon / trinucleotide / dinucleotide x 4 motif-probability models, position-specific nucleotide frequencies) and multi-locus functions, with rate-heterogeneity bins (gamma / free / per-bin parameters, unequal bin probabilities) in about 30 % of the cases of every family, explicit or data-derived motif probabilities, branch lengths from 1e-8 to 10 and 2-6 tips; each is evaluated under about ten transformations with every parameter fixed; the transformed log-likelihood must equal the original (or k times it, or the sum for appended columns / separate loci) to 1e-9 relative. Root-placement and edge-split relations are evaluated with the Pade exponentiator (1e-9; 1e-6 for nearly degenerate motif distributions) or with the default exponentiator (1e-6).",
    "level_note": "Relations between two runs of the implementation: a defect that shifts both sides equally is invisible here (that is C02's job). Trees bounded to 6 tips, alignments to 12 motif columns (36 after repetition); no bins on the word-* and multilocus subs; the 'free' rate distribution only at the library's default partition; no rate-HMM (sites_independent=False).",
    "design_ref": "DESIGN.md section 1, C11",
}
