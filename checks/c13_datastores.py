"""C13 — data stores hold exactly what was written, record by record.

Oracle: a dictionary model (completed / not-completed id -> text) driven by
the same generated history, compared after every step with the live store and
with a freshly opened read-only store on the same source.
"""

from __future__ import annotations

import hashlib
import os
import shutil
import tempfile

from hypothesis import strategies as st

from vlib.core import Soft, Sub

PROPERTY_ID = "C13"
ISOLATION = "subprocess"  # data stores only create their directories in a master process
LEVEL = "exploration"
RULE = (
    "A case is a store kind (directory with a suffix / sqlite file), an initial mode and a history of 1-25 steps drawn from "
    "write, write_not_completed, write_log, drop_not_completed(id), drop_not_completed(), close+reopen(mode) over a pool of "
    "related identifiers (a, ba, aa, ab, b, names equal to or containing the suffix text, with and without the format suffix). "
    "After every step the live store and a freshly opened read-only store are compared with the dictionary model: member id "
    "sets, content of every member, md5 of every member, validate() counts, `in`. Non-trivial = a history with a completed "
    "write of an id that is a proper suffix/prefix of another stored id, or a reopen after a drop; distinct = distinct case encodings."
)
ASSUMPTIONS = [
    "outcomes the documentation leaves open are not pinned: re-writing an existing completed id in overwrite mode may keep the old or store the new text; write_not_completed of an existing id in overwrite mode may keep or replace; completing a not-completed id in append mode may raise IOError (unchanged) or complete it. For these only the policy-free invariants are asserted (live == reopened, other ids untouched, content one of old/new, id in exactly one of completed / not completed, checksum matches content)",
    "directory-store identifiers are file names: an id with or without the store's suffix names the same record; identifiers with other dots are not generated",
    "a sqlite store is unlocked before closing so that it can be reopened in overwrite mode (documented lock behaviour)",
]

SUFFIXES = ["fasta", "fa", "txt"]
STEMS = ["a", "ba", "aa", "ab", "b", "fab", "fasta", "xfasta", "fa", "a_fa", "axfa", "A", "BA", "txt1", "nc", "json1"]
SCRATCH = os.path.join(os.path.dirname(os.path.dirname(os.path.abspath(__file__))), ".scratch")


def md5(text: str) -> str:
    return hashlib.md5(text.encode("utf8")).hexdigest()


# -------------------------------------------------------------- generator
@st.composite
def histories(draw):
    kind = draw(st.sampled_from(["dir", "dir", "sqlite"]))
    suffix = draw(st.sampled_from(SUFFIXES))
    k = draw(st.integers(2, 5))
    pool = draw(st.lists(st.sampled_from(STEMS), min_size=k, max_size=k, unique=True))
    mode = draw(st.sampled_from(["w", "w", "a"]))
    n = draw(st.integers(1, 25))
    steps = []
    counter = 0
    cur_mode = mode
    done = set()  # ids completed so far (generator-side bookkeeping only, to keep one policy-open op rare)
    for _ in range(n):
        op = draw(
            st.sampled_from(
                ["write"] * 6 + ["write_nc"] * 5 + ["write_log"] + ["drop_one"] * 2 + ["drop_all"] + ["reopen"] * 3
            )
        )
        if op in ("write", "write_nc", "drop_one", "write_log"):
            stem = draw(st.sampled_from(pool))
            with_sfx = draw(st.booleans())
            mkey = (stem, with_sfx if kind == "sqlite" else None)
            if op == "write_nc" and cur_mode == "w" and mkey in done and draw(st.integers(0, 9)) > 0:
                op = "write"  # a not-completed write over a completed id is a known finding; keep it to ~10%
            if op == "write" and cur_mode != "r":
                done.add(mkey)
            counter += 1
            text = f">{stem}\nDATA{counter}\n" if op != "write_nc" else f'{{"nc": "{stem}", "n": {counter}}}'
            steps.append({"op": op, "id": stem, "sfx": with_sfx, "text": text})
        elif op == "reopen":
            cur_mode = draw(st.sampled_from(["w", "a", "a", "r"]))
            steps.append({"op": "reopen", "mode": cur_mode})
        else:
            steps.append({"op": "drop_all"})
    return {"kind": kind, "suffix": suffix, "mode": mode, "steps": steps}


# ---------------------------------------------------------------- execute
class Store:
    """thin adapter over the two store classes with model-level identifiers"""

    def __init__(self, kind, suffix, root):
        self.kind, self.suffix, self.root = kind, suffix, root
        self.ds = None
        self.mode = None

    @property
    def source(self):
        return os.path.join(self.root, "store") if self.kind == "dir" else os.path.join(self.root, "store.sqlitedb")

    def open(self, mode):
        from cogent3.app.data_store import DataStoreDirectory
        from cogent3.app.sqlite_data_store import DataStoreSqlite

        if self.kind == "dir":
            self.ds = DataStoreDirectory(self.source, mode=mode, suffix=self.suffix)
        else:
            self.ds = DataStoreSqlite(self.source, mode=mode)
            self.ds.db  # noqa: B018  (connects and locks)
        self.mode = mode
        return self.ds

    def close(self):
        if self.ds is None:
            return
        if self.kind == "sqlite":
            try:
                self.ds.unlock(force=True)
            finally:
                self.ds.close()
        self.ds = None

    def key(self, stem, with_sfx):
        """model key and the identifier passed to the API"""
        if self.kind == "dir":
            return stem, (f"{stem}.{self.suffix}" if with_sfx else stem)
        ident = f"{stem}.{self.suffix}" if with_sfx else stem
        return ident, ident

    def member_key(self, unique_id, completed):
        uid = str(unique_id)
        if self.kind == "dir":
            name = os.path.basename(uid)
            ext = "." + (self.suffix if completed else "json")
            return name[: -len(ext)] if name.endswith(ext) else name
        return uid


def snapshot(s: Soft, store: Store, ds, tag):
    """(completed dict, not completed dict, md5 dict) as observed, or None"""
    out = {"C": {}, "N": {}, "md5": {}}
    for label, attr in (("C", "completed"), ("N", "not_completed")):
        ok, members = s.call(f"{tag}/{attr}", lambda: list(getattr(ds, attr)))
        if not ok:
            return None
        seen = []
        for m in members:
            k = store.member_key(m.unique_id, label == "C")
            seen.append(k)
            ok, txt = s.call(f"{tag}/read", m.read)
            if not ok:
                return None
            out[label][k] = txt
            ok, h = s.call(f"{tag}/md5", ds.md5, str(m.unique_id))
            if ok:
                out["md5"][(label, k)] = h
        s.check(len(seen) == len(set(seen)), f"{tag}/duplicate-members", f"{attr}: {seen}")
    return out


def exec_history(case) -> Soft:
    s = Soft("C13/")
    os.makedirs(SCRATCH, exist_ok=True)
    root = tempfile.mkdtemp(prefix="c13.", dir=SCRATCH)
    try:
        _run(s, case, root)
    finally:
        shutil.rmtree(root, ignore_errors=True)
    return s


def _run(s: Soft, case, root):
    kind = case["kind"]
    store = Store(kind, case["suffix"], root)
    pre = f"{kind}/"
    ok, ds = s.call(pre + "open", store.open, case["mode"])
    if not ok:
        return
    C, N = {}, {}  # the dictionary model
    s.cls(kind, "mode:" + case["mode"])
    related_write = reopen_after_drop = False
    dropped = False
    try:
        for i, step in enumerate(case["steps"]):
            op = step["op"]
            mode = store.mode
            before = (dict(C), dict(N))
            open_keys = {}  # id -> text written, for ids whose outcome is policy-open in this step
            what = f"step {i} {step} (mode {mode}, model C={sorted(C)} N={sorted(N)})"
            if op in ("write", "write_nc", "write_log"):
                key, ident = store.key(step["id"], step["sfx"])
                if op == "write_log":
                    ident = f"run-{step['id']}.log"
                fn = {"write": ds.write, "write_nc": ds.write_not_completed, "write_log": ds.write_log}[op]
                try:
                    fn(unique_id=ident, data=step["text"])
                    raised = None
                except Exception as e:  # noqa: BLE001
                    from vlib.core import raised_in_repo

                    if not raised_in_repo(e):
                        raise
                    raised = e
                if mode == "r":
                    s.check(isinstance(raised, IOError) or (kind == "sqlite" and raised is not None), pre + f"{op}/readonly-accepted", f"{what}: {raised!r}")
                elif op == "write_log":
                    s.check(raised is None, pre + "write_log/raises", f"{what}: {raised!r}")
                elif op == "write":
                    if mode == "a" and key in C:
                        s.check(isinstance(raised, IOError), pre + "write/append-overwrites-completed", f"{what}: raised {raised!r}")
                    elif mode == "a" and key in N:
                        if raised is None:
                            C[key] = step["text"]
                            N.pop(key)
                        else:
                            s.check(isinstance(raised, IOError), pre + "write/raises", f"{what}: {raised!r}")
                    else:
                        if s.check(raised is None, pre + "write/raises", f"{what}: {raised!r}"):
                            if key in C:
                                open_keys[key] = step["text"]  # old or new text
                            else:
                                C[key] = step["text"]
                            N.pop(key, None)
                            others = [k for k in set(C) | set(N) if k != key and (k.endswith(key) or k.startswith(key) or key.endswith(k) or key.startswith(k))]
                            related_write = related_write or bool(others)
                else:  # write_nc
                    if mode == "a" and (key in C or key in N):
                        # append mode never overwrites: the call is rejected (IOError) or ignored; the model stays unchanged
                        s.check(raised is None or isinstance(raised, IOError), pre + "write_nc/append-raises", f"{what}: raised {raised!r}")
                    elif s.check(raised is None, pre + "write_nc/raises", f"{what}: {raised!r}"):
                        if key in C:
                            s.cls("nc-over-completed")
                            s.notes["nc_over_completed"] = True
                        if key in C or key in N:
                            open_keys[key] = step["text"]
                        else:
                            N[key] = step["text"]
            elif op == "drop_one":
                key, ident = store.key(step["id"], step["sfx"])
                import sqlite3

                ok, _ = s.call(pre + "drop_not_completed", lambda: ds.drop_not_completed(unique_id=ident), allowed=(IOError, sqlite3.OperationalError) if mode == "r" else ())
                if mode != "r" and ok:
                    N.pop(key, None)
                    dropped = True
                if mode == "r" and kind == "sqlite" and not ok:
                    pass
            elif op == "drop_all":
                import sqlite3

                ok, _ = s.call(pre + "drop_not_completed", ds.drop_not_completed, allowed=(IOError, sqlite3.OperationalError) if mode == "r" else ())
                if mode != "r" and ok:
                    N.clear()
                    dropped = True
            elif op == "reopen":
                ok, _ = s.call(pre + "close", store.close)
                ok, ds = s.call(pre + "reopen", store.open, step["mode"])
                if not ok:
                    return
                if dropped:
                    reopen_after_drop = True
            # ---- invariants: live view and freshly opened read-only view
            live = snapshot(s, store, ds, pre + "live")
            other = Store(kind, case["suffix"], root)
            ok, ro = s.call(pre + "open-readonly", other.open, "r")
            fresh = snapshot(s, other, ro, pre + "reopened") if ok else None
            if ok:
                other.close()
            for tag, snap in (("live", live), ("reopened", fresh)):
                if snap is None:
                    continue
                _compare(s, pre + tag, snap, C, N, before, open_keys, what)
            if live is not None and fresh is not None:
                s.check(live["C"] == fresh["C"] and live["N"] == fresh["N"], pre + "live-vs-reopened", f"{what}: live C={live['C']} N={live['N']}; reopened C={fresh['C']} N={fresh['N']}")
            # resolve policy-open outcomes from what the store now holds (persisted view)
            ref = fresh or live
            if ref is not None:
                for k in open_keys:
                    if k in ref["C"] and k not in ref["N"]:
                        C[k] = ref["C"][k]
                        N.pop(k, None)
                    elif k in ref["N"] and k not in ref["C"]:
                        N[k] = ref["N"][k]
                        C.pop(k, None)
            # membership probes
            if live is not None:
                for stem in {st_["id"] for st_ in case["steps"] if "id" in st_}:
                    for with_sfx in (False, True):
                        key, ident = store.key(stem, with_sfx)
                        if kind == "dir" and not with_sfx:
                            continue  # the directory store documents membership by file name
                        ok, got = s.call(pre + "contains", lambda: ident in ds)
                        if ok and key not in open_keys:
                            # the directory store documents `in` for completed records; sqlite lists every member
                            want_in = key in C or (kind == "sqlite" and key in N)
                            s.eq(bool(got), want_in, pre + "contains", f"{what}: {ident!r} in store")
                ok, val = s.call(pre + "validate", lambda: ds.validate().to_dict())
                if ok:
                    cols = val.get("Value", val)
                    vals = list(cols.values()) if isinstance(cols, dict) else []
                    cond = list(val.get("Condition", {}).values()) if isinstance(val.get("Condition"), dict) else []
                    rec = dict(zip(cond, vals))
                    s.check(rec.get("Num md5sum incorrect", 0) == 0 and rec.get("Num md5sum missing", 0) == 0, pre + "validate", f"{what}: {rec}")
                ok, n = s.call(pre + "len", len, ds)
                if ok and not open_keys:
                    s.eq(n, len(C) + len(N), pre + "len", what)
    finally:
        try:
            store.close()
        except Exception:  # noqa: BLE001
            pass
    s.nontrivial = (related_write or reopen_after_drop) and len(case["steps"]) >= 3
    if related_write:
        s.cls("related-id-write")
    if reopen_after_drop:
        s.cls("reopen-after-drop")


def _compare(s: Soft, tag, snap, C, N, before, open_keys, what):
    bC, bN = before
    for label, model, prev in (("C", C, bC), ("N", N, bN)):
        got = snap[label]
        want_keys = {k for k in model if k not in open_keys}
        got_keys = {k for k in got if k not in open_keys}
        if not s.eq(sorted(got_keys), sorted(want_keys), f"{tag}/membership-{label}", what):
            continue
        for k in want_keys:
            s.eq(got[k], model[k], f"{tag}/content-{label}", f"{what}: record {k!r}")
            h = snap["md5"].get((label, k))
            s.check(h == md5(got[k]), f"{tag}/md5-{label}", f"{what}: record {k!r} md5 {h!r} != md5 of its content")
    for k in open_keys:
        inC, inN = k in snap["C"], k in snap["N"]
        s.check(inC != inN, f"{tag}/open-outcome/membership", f"{what}: {k!r} completed={inC} not_completed={inN}")
        old = [d[k] for d in (bC, bN) if k in d]
        cur = snap["C"].get(k, snap["N"].get(k))
        new = open_keys[k]
        s.check(cur in old or cur == new, f"{tag}/open-outcome/content", f"{what}: {k!r} holds {cur!r}, neither old {old!r} nor new {new!r}")
        for label in ("C", "N"):
            if k in snap[label]:
                h = snap["md5"].get((label, k))
                s.check(h == md5(snap[label][k]), f"{tag}/open-outcome/md5", f"{what}: {k!r} md5 {h!r} does not match its content")


SUBS = [
    Sub("histories", exec_history, strategy=histories(), quick=1200, thorough=96_000, shards_quick=16),
]

def _kp_nc_over_completed(case, sig, msg):
    """the history writes a not-completed record for an id that is completed at that moment, in overwrite mode"""
    done = set()
    mode = case["mode"]
    for st_ in case["steps"]:
        op = st_["op"]
        if op == "reopen":
            mode = st_["mode"]
        elif op == "write" and mode != "r":
            done.add((st_["id"], st_["sfx"] if case["kind"] == "sqlite" else None))
        elif op == "write_nc" and mode == "w":
            if (st_["id"], st_["sfx"] if case["kind"] == "sqlite" else None) in done:
                return True
    return False


KNOWN_PREDICATES = {"nc_over_completed": _kp_nc_over_completed}

# thorough tier: coverage-guided campaigns (atheris/libFuzzer mutating the bytes Hypothesis draws from)
FUZZ = {
    "subs": ['histories'],
    "targets": ['cogent3.app.data_store', 'cogent3.app.sqlite_data_store'],
    "execs_thorough": 40_000, "jobs_thorough": 4, "execs_quick": 1000, "jobs_quick": 2,
}

META = {
    "technique": "Hypothesis-generated operation histories over related identifiers against a dictionary model, with a live-vs-reopened differential after every step",
    "level_text": "Each run drives about a thousand histories of up to 25 store operations (both store kinds, all modes, close/reopen) over identifier pools built so that ids are suffixes/prefixes of each other or contain the suffix text, and after every single step compares membership, content and checksum of every record with a plain dictionary model, on the live object and on a freshly opened read-only store.",
    "level_note": "Outcomes the documentation leaves open are checked only for policy-free invariants (see assumptions). Zipped read-only stores and in-memory sqlite are not driven.",
    "design_ref": "DESIGN.md section 1, C13",
}
