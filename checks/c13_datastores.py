"""C13 — data stores hold exactly what was written, record by record.

Oracle: a dictionary model (completed / not-completed id -> text, log name ->
text) driven by the same generated history, compared after every step with the
live store and with a freshly opened read-only store on the same source; at the
end of a directory history the zipped directory is read back through
ReadOnlyDataStoreZipped and compared with the same model.
"""

from __future__ import annotations

import hashlib
import os
import shutil
import tempfile

from hypothesis import strategies as st

from vlib.core import Soft, Sub

PROPERTY_ID = "C13"
ISOLATION = "subprocess"  # data stores only create their directories in a master process
LEVEL = "exploration"
RULE = (
    "A case is a store kind (directory with a suffix, a quarter of them with a compression part: fa.gz, fasta.gz / sqlite file), an initial mode and a history of 1-25 steps drawn from "
    "write, write_not_completed, write_log, drop_not_completed(id), drop_not_completed(), close+reopen(mode) over a pool of "
    "related identifiers (a, ba, aa, ab, b, names equal to or containing the suffix text, with and without the format suffix; "
    "about 40% of the pools add identifiers with interior dots: a.1, a.2, ba.1, g.1.x, g.1.y, ENSG01.2, A.FASTA, b.fa, and about half add a "
    "pair that differs only in case or in one character (a/A, ba/BA, a_fa/axfa, a_1/a.1); not-completed "
    "records of a directory store are also written under '<id>.json', the form the writer apps use). "
    "About half of the record and log texts are a plain two-line ASCII text with '\\n' line ends; the others are drawn from CRLF, bare CR and mixed "
    "line ends, a leading U+FEFF, latin-1 range / Greek / CJK / astral characters (also placed after and across the first 100 bytes, the sample "
    "`open_` decides the encoding from), the empty text, blank lines, trailing blanks, no final newline and Unicode line breaks. The model holds the "
    "text exactly as it was given. "
    "After every step the live store and a freshly opened read-only store are compared with the dictionary model: member id "
    "sets, content of every member, md5 of every member, validate() counts and 'Has log', `in`, len, and the log records "
    "(`ds.logs` identifiers 'logs/<name>' and their text). After the last step of a directory history the directory is zipped and "
    "ReadOnlyDataStoreZipped must list and read the same completed / not-completed / log records and checksums. Non-trivial = a "
    "history with a completed write of an id that is a proper suffix/prefix of another stored id, or a reopen after a drop; "
    "distinct = distinct case encodings."
)
ASSUMPTIONS = [
    "outcomes the documentation leaves open are not pinned: re-writing an existing completed id in overwrite mode may keep the old or store the new text; write_not_completed of an existing id in overwrite mode may keep or replace; completing a not-completed id in append mode may raise IOError (unchanged) or complete it. For these only the policy-free invariants are asserted (live == reopened, other ids untouched, content one of old/new, id in exactly one of completed / not completed, checksum matches content)",
    "directory-store identifiers are file names: an id with or without the store's suffix (exact case) names the same record, "
    "as `__contains__` and `drop_not_completed` treat it (they append the suffix unless the id already ends with it); any other dotted ending "
    "belongs to the identifier ('a.1' and 'a.2' are different records, 'b.fa' in a 'fasta' store is not 'b'). '<id>.json' passed to "
    "write_not_completed names the not-completed record of <id> (what the writer apps pass). Identifiers ending in .json / .log / a "
    "compression suffix are not generated for the other calls, and the store suffix is not appended to an id that already ends with it",
    "a sqlite store is unlocked before closing so that it can be reopened in overwrite mode (documented lock behaviour)",
    "log records: log names end with '.log', contain no other dot and are unique per session (apply_to derives them from time and pid); after "
    "write_log(name, text) `ds.logs` holds 'logs/<name>' reading back text, and logs of earlier sessions are never changed by any later "
    "operation, in any mode (test_append_makes_logs: a separate instance adds a log). Left open: the text after writing the same name twice "
    "in one session (old or new), and whether a sqlite store keeps an earlier log of the *same* session when a second name is written "
    "(it holds one log row per session, sqlite_data_store.py `_write`: 'todo how to evaluate whether writing a new log?'; the directory "
    "store keeps both). Read-only stores reject write_log",
    "a zipped directory store is read with the archive made as the library's tests make it (shutil.make_archive with base_dir = directory "
    "name)",
    "record text is any str that UTF-8 can encode; no docstring or test of either store documents a translation of line ends or of characters "
    "between write and read (DataStoreSqlite returns every text verbatim; the loaders only ever splitlines() what read() returns), and "
    "validate() compares the stored checksum, which is that of the text given, with the text read back: so read() == text written, "
    "md5(id) == md5(text) and validate() all-correct are asserted for every text on every store. `open_` documents that a byte order mark of a "
    "*file* is dropped (test_open_handles_bom); a record whose text starts with U+FEFF is the one input where that and this property "
    "disagree, it is generated rarely and reported under its own circumstance signature (.../leading-bom/...)",
    "a directory-store suffix may carry a compression part ('fa.gz', 'fasta.gz': test_directory_data_store_write_compressed); identifiers are "
    "then given bare or as '<id>.fa.gz' and name the same record, exactly as for a plain suffix",
    "failures at a step of a directory history whose circumstance is a compressed suffix, a text with '\\r' or a leading U+FEFF (and, for the "
    "zipped read-back, non-ASCII text) are reported under one circumstance signature each and the history stops there",
]

# a quarter of the cases use a suffix with a compression part (open_data_store(..., suffix="fa.gz") is a tested configuration)
SUFFIXES = ["fasta", "fasta", "fa", "fa", "txt", "txt", "fa.gz", "fasta.gz"]
STEMS = ["a", "ba", "aa", "ab", "b", "fab", "fasta", "xfasta", "fa", "a_fa", "axfa", "A", "BA", "txt1", "nc", "json1", "gz"]
# identifiers with interior dots; related to the plain stems and to each other
DOTTED = ["a.1", "a.2", "ba.1", "g.1.x", "g.1.y", "ENSG01.2", "A.FASTA", "b.fa"]
# pairs that a case-insensitive or pattern comparison (SQL LIKE: '_' matches any character) would confuse
CONFUSABLE = [["a", "A"], ["ba", "BA"], ["a_fa", "axfa"], ["a_1", "a.1"]]
# record text: about half of the records are the plain two-line ASCII text, the others vary line ends, encoding width and blanks
TEXT_STYLES = ["plain"] * 16 + [
    "crlf", "cr", "mixed-eol", "cr-mid", "bom", "latin1", "greek", "cjk", "astral", "late-nonascii", "split-sample",
    "high-only", "empty", "trailing-blanks", "blank-lines", "no-final-newline", "unicode-breaks",
]  # fmt: skip


def make_text(op: str, style: str, stem: str, counter: int) -> str:
    """the text of a record; every non-empty text carries the counter, so two records never hold the same text"""
    lines = [f'{{"nc": "{stem}", "n": {counter}}}'] if op == "write_nc" else [f">{stem}", f"DATA{counter}"]
    first, last = lines[0], lines[-1]
    if style == "plain":
        return first if op == "write_nc" else "\n".join(lines) + "\n"
    if style == "crlf":
        return "\r\n".join(lines) + "\r\n"
    if style == "cr":
        return "\r".join(lines) + "\r"
    if style == "mixed-eol":
        return f"{first}\r\nx\ny\r{last}\n"
    if style == "cr-mid":
        return f"{first}\rz\n{last}"
    if style == "bom":
        return "\ufeff" + "\n".join(lines) + "\n"
    if style == "latin1":
        return f"{first} caf\xe9 \xfc\xf1\n{last}\xe5\n"
    if style == "greek":
        return f"{first} \u03b1\u03b2\u03b3\n{last}\n"
    if style == "cjk":
        return f"{first} \u65e5\u672c\u8a9e\n\u4e2d\u6587{last}\n"
    if style == "astral":
        return f"{first} \U0001f600\U0001d518\n{last}\n"
    if style == "late-nonascii":
        # the first 100 bytes (what open_ samples to choose an encoding) are ASCII
        return f"{first}\n{'A' * 110}\xe9\u65e5\n{last}\n"
    if style == "split-sample":
        # byte 100 of the UTF-8 form falls inside a three byte character
        return "\xe9" * 49 + "A" + "\u65e5" + f"\n{first}\n{last}\n"
    if style == "high-only":
        return "\xe9\xe8\xfc" * (1 + counter % 7)
    if style == "empty":
        return ""
    if style == "trailing-blanks":
        return "\n".join(lines) + "\n  \n\n \t"
    if style == "blank-lines":
        return f"\n\n {first}\n\n{last}\n\n"
    if style == "no-final-newline":
        return "\n".join(lines)
    if style == "unicode-breaks":
        return f"{first}\u2028{last}\x85\x0c{counter}\n"
    raise ValueError(style)


def text_circumstances(text: str) -> list:
    """circumstance tags of a record text that a text-mode reader may not return as written"""
    out = []
    if "\r" in text:
        out.append("cr-in-text")
    if text[:1] == "\ufeff":
        out.append("leading-bom")
    if any(ord(c) > 127 for c in text[1:]) or "\x7f" < text[:1] != "\ufeff":
        out.append("non-ascii-text")
    return out


def is_compressed(suffix: str) -> bool:
    return suffix.rsplit(".", 1)[-1] in ("gz", "bz2", "zip") and "." in suffix


SCRATCH = os.path.join(os.path.dirname(os.path.dirname(os.path.abspath(__file__))), ".scratch")


def md5(text: str) -> str:
    return hashlib.md5(text.encode("utf8")).hexdigest()


def api_ident(kind: str, suffix: str, stem: str, sfx) -> str:
    """the identifier passed to the store: sfx False -> stem, True -> stem.<suffix>, 'json' -> <record>.json (directory store)"""
    if sfx == "json" and kind == "dir":
        return f"{model_key(kind, suffix, stem, False)}.json"
    if sfx is True and not stem.endswith(f".{suffix}"):
        return f"{stem}.{suffix}"
    return stem


def model_key(kind: str, suffix: str, stem: str, sfx) -> str:
    """the key of the record in the dictionary model"""
    if kind == "dir" and sfx == "json":
        sfx = False
    ident = api_ident(kind, suffix, stem, sfx)
    if kind == "sqlite":
        return ident  # identifiers are kept verbatim
    ext = f".{suffix}"
    return ident[: -len(ext)] if ident.endswith(ext) else ident


def dotted_circumstance(kind: str, suffix: str, ident: str):
    """circumstance tag of a directory-store identifier whose last dotted component is not the store's suffix"""
    if kind != "dir" or "." not in ident or ident.endswith(f".{suffix}"):
        return None
    last = ident.rsplit(".", 1)[1]
    if last == suffix or last in ("json", "log"):
        return None
    return "case-suffix" if last.lower() == suffix.lower() else "dotted-id"


# -------------------------------------------------------------- generator
@st.composite
def histories(draw):
    kind = draw(st.sampled_from(["dir", "dir", "sqlite"]))
    suffix = draw(st.sampled_from(SUFFIXES))
    k = draw(st.integers(2, 5))
    pool = draw(st.lists(st.sampled_from(STEMS), min_size=k, max_size=k, unique=True))
    n_dot = draw(st.sampled_from([0, 0, 0, 1, 2]))
    pool = pool + draw(st.lists(st.sampled_from(DOTTED), min_size=n_dot, max_size=n_dot, unique=True))
    pair = draw(st.sampled_from([[], [], [], []] + CONFUSABLE))
    pool = pool + [p for p in pair if p not in pool]
    mode = draw(st.sampled_from(["w", "w", "a"]))
    n = draw(st.integers(1, 25))
    steps = []
    counter = 0
    cur_mode = mode
    done = set()  # ids completed so far (generator-side bookkeeping only, to keep one policy-open op rare)
    for _ in range(n):
        op = draw(
            st.sampled_from(
                ["write"] * 6 + ["write_nc"] * 5 + ["write_log"] * 2 + ["drop_one"] * 2 + ["drop_all"] + ["reopen"] * 3
            )
        )
        if op in ("write", "write_nc", "drop_one", "write_log"):
            stem = draw(st.sampled_from(pool))
            with_sfx = draw(st.booleans())
            if op == "write_nc" and kind == "dir" and draw(st.integers(0, 3)) == 0:
                with_sfx = "json"  # the form the writer apps use
            mkey = model_key(kind, suffix, stem, with_sfx)
            if op == "write_nc" and cur_mode == "w" and mkey in done and draw(st.integers(0, 19)) > 0:
                op = "write"  # a not-completed write over a completed id is a known finding; keep it to ~5% of such draws
                with_sfx = with_sfx is True
            if op == "write" and cur_mode != "r":
                done.add(mkey)
            counter += 1
            text = make_text(op, draw(st.sampled_from(TEXT_STYLES)), stem, counter)
            steps.append({"op": op, "id": stem, "sfx": with_sfx, "text": text})
        elif op == "reopen":
            cur_mode = draw(st.sampled_from(["w", "a", "a", "r"]))
            steps.append({"op": "reopen", "mode": cur_mode})
        else:
            steps.append({"op": "drop_all"})
    return {"kind": kind, "suffix": suffix, "mode": mode, "steps": steps}


# ---------------------------------------------------------------- execute
class Store:
    """thin adapter over the store classes with model-level identifiers"""

    def __init__(self, kind, suffix, root):
        self.kind, self.suffix, self.root = kind, suffix, root
        self.ds = None
        self.mode = None

    @property
    def source(self):
        return os.path.join(self.root, "store") if self.kind == "dir" else os.path.join(self.root, "store.sqlitedb")

    def open(self, mode):
        from cogent3.app.data_store import DataStoreDirectory
        from cogent3.app.sqlite_data_store import DataStoreSqlite

        if self.kind == "dir":
            self.ds = DataStoreDirectory(self.source, mode=mode, suffix=self.suffix)
        else:
            self.ds = DataStoreSqlite(self.source, mode=mode)
            self.ds.db  # noqa: B018  (connects and locks)
        self.mode = mode
        return self.ds

    def open_zipped(self, path):
        from cogent3.app.data_store import ReadOnlyDataStoreZipped

        self.ds = ReadOnlyDataStoreZipped(path, suffix=self.suffix)
        self.mode = "r"
        return self.ds

    def close(self):
        if self.ds is None:
            return
        if self.kind == "sqlite":
            try:
                self.ds.unlock(force=True)
            finally:
                self.ds.close()
        self.ds = None

    def key(self, stem, with_sfx):
        """model key and the identifier passed to the API"""
        return model_key(self.kind, self.suffix, stem, with_sfx), api_ident(self.kind, self.suffix, stem, with_sfx)

    def member_key(self, unique_id, completed):
        uid = str(unique_id)
        if self.kind == "dir":
            name = os.path.basename(uid)
            ext = "." + (self.suffix if completed else "json")
            return name[: -len(ext)] if name.endswith(ext) else name
        return uid


def log_name(stem: str, session: int) -> str:
    """a log name as apply_to makes them: ends with .log, no other dot, not re-used by a later session"""
    return f"run-{stem.replace('.', '_')}-s{session}.log"


def snapshot(s: Soft, store: Store, ds, tag):
    """completed dict, not completed dict, md5 dict and log dict as observed, or None"""
    out = {"C": {}, "N": {}, "md5": {}, "L": None}
    for label, attr in (("C", "completed"), ("N", "not_completed")):
        ok, members = s.call(f"{tag}/{attr}", lambda: list(getattr(ds, attr)))
        if not ok:
            return None
        seen = []
        for m in members:
            k = store.member_key(m.unique_id, label == "C")
            seen.append(k)
            ok, txt = s.call(f"{tag}/read", m.read)
            if not ok:
                return None
            out[label][k] = txt
            ok, h = s.call(f"{tag}/md5", ds.md5, str(m.unique_id))
            if ok:
                out["md5"][(label, k)] = h
        s.check(len(seen) == len(set(seen)), f"{tag}/duplicate-members", f"{attr}: {seen}")
    ok, members = s.call(f"{tag}/logs", lambda: list(ds.logs))
    if ok:
        logs, seen = {}, []
        for m in members:
            uid = str(m.unique_id).replace("\\", "/")
            seen.append(uid)
            ok, txt = s.call(f"{tag}/logs/read", m.read)
            if not ok:
                break
            logs[uid] = txt
        else:
            out["L"] = logs
        s.check(len(seen) == len(set(seen)), f"{tag}/logs/duplicate-members", f"logs: {seen}")
    return out


# what a failure at a step (or of the zipped read-back) with a given circumstance is reported as: one signature per root cause
STEP_TAILS = {
    "append-nc-json-over-completed": "completed-record-not-protected",
    "compressed-suffix": "record-or-checksum-misnamed",
    "cr-in-text": "text-not-returned-as-written",
    "leading-bom": "text-not-returned-as-written",
}
ZIP_TAILS = {
    "txt-suffix": "checksum-files-listed-as-records",
    "compressed-suffix": "member-not-decompressed",
    "cr-in-text": "text-not-returned-as-written",
    "non-ascii-text": "text-not-returned-as-written",
    "leading-bom": "text-not-returned-as-written",
}


def exec_history(case) -> Soft:
    s = Soft("C13/")
    os.makedirs(SCRATCH, exist_ok=True)
    root = tempfile.mkdtemp(prefix="c13.", dir=SCRATCH)
    try:
        _run(s, case, root)
    finally:
        shutil.rmtree(root, ignore_errors=True)
    return s


def _merge(s: Soft, t: Soft):
    have = {f.signature for f in s.failures}
    for f in t.failures:
        if f.signature not in have:
            s.failures.append(f)
            have.add(f.signature)


def _run(s: Soft, case, root):
    kind = case["kind"]
    store = Store(kind, case["suffix"], root)
    pre = f"{kind}/"
    ok, ds = s.call(pre + "open", store.open, case["mode"])
    if not ok:
        return
    C, N, L = {}, {}, {}  # the dictionary model: completed, not completed, logs
    session = 0
    session_logs = []  # log names written by the current session
    s.cls(kind, "mode:" + case["mode"])
    state = {"related_write": False, "reopen_after_drop": False, "dropped": False}
    aborted = False
    try:
        for i, step in enumerate(case["steps"]):
            # the clauses of one step are collected apart: a directory-store identifier with a dotted ending that is not the
            # store's suffix is a circumstance of its own; whatever clause shows it first carries that tag (one root cause,
            # one signature) and the history stops there, because the store and the model no longer name the same records
            t = Soft(s.prefix)
            circumstance = text_tag = None
            writes = step["op"] in ("write", "write_nc", "write_log") and store.mode != "r"
            if kind == "dir" and writes and step["op"] != "write_log" and is_compressed(case["suffix"]):
                # a store whose suffix has a compression part (fa.gz)
                circumstance = "compressed-suffix"
            if kind == "dir" and writes:
                # the directory store reads its records in text mode: line ends other than '\n' and a leading U+FEFF
                tags = [c for c in text_circumstances(step["text"]) if c != "non-ascii-text"]
                text_tag = tags[0] if tags else None
                circumstance = circumstance or text_tag
            if writes:
                s.cls(*("text:" + c for c in text_circumstances(step["text"])))
                if step["text"] == "":
                    s.cls("text:empty")
            if step["op"] in ("write", "write_nc") and store.mode != "r":
                key, ident = store.key(step["id"], step["sfx"])
                circumstance = circumstance or dotted_circumstance(kind, case["suffix"], ident)
                if step["op"] == "write_nc" and step["sfx"] == "json" and store.mode == "a" and key in C:
                    # append mode, '<id>.json' while <id> is completed: the append guard looks the literal name up
                    circumstance = circumstance or "append-nc-json-over-completed"
            if circumstance:
                s.cls(circumstance)
            if step["op"] == "reopen":
                ok, _ = s.call(pre + "close", store.close)
                ok, ds = s.call(pre + "reopen", store.open, step["mode"])
                if not ok:
                    return
                session += 1
                session_logs = []
                if state["dropped"]:
                    state["reopen_after_drop"] = True
            _step(s, t, case, store, ds, root, i, step, C, N, L, session, session_logs, state)
            if circumstance and t.failures:
                f = t.failures[0]
                if text_tag and f.signature.endswith(("/content-C", "/content-N", "/content")):
                    circumstance = text_tag  # the text read back differs: not what a misnamed record or checksum looks like
                tail = STEP_TAILS.get(circumstance, "record-not-held-under-its-identifier")
                s.fail(f"{pre}{circumstance}/{tail}", f"first shown by {f.signature}: {f.message}")
                aborted = True
                break
            _merge(s, t)
        if kind == "dir" and not aborted:
            _zipped(s, case, store, root, C, N, L)
    finally:
        try:
            store.close()
        except Exception:  # noqa: BLE001
            pass
    s.nontrivial = (state["related_write"] or state["reopen_after_drop"]) and len(case["steps"]) >= 3
    if state["related_write"]:
        s.cls("related-id-write")
    if state["reopen_after_drop"]:
        s.cls("reopen-after-drop")


def _step(s, t: Soft, case, store, ds, root, i, step, C, N, L, session, session_logs, state):
    """one operation (a reopen has already been done by the caller) and the invariants after it; clauses go to `t`"""
    kind = case["kind"]
    pre = f"{kind}/"
    op = step["op"]
    mode = store.mode
    before = (dict(C), dict(N))
    open_keys = {}  # id -> text written, for ids whose outcome is policy-open in this step
    open_logs = {}  # log name -> text written, same name written twice in one session
    maybe_gone = set()  # sqlite: earlier logs of the same session after a log under another name
    what = f"step {i} {step} (mode {mode}, model C={sorted(C)} N={sorted(N)} L={sorted(L)})"
    if op in ("write", "write_nc", "write_log"):
        key, ident = store.key(step["id"], step["sfx"])
        if op == "write_log":
            ident = log_name(step["id"], session)
        fn = {"write": ds.write, "write_nc": ds.write_not_completed, "write_log": ds.write_log}[op]
        try:
            fn(unique_id=ident, data=step["text"])
            raised = None
        except Exception as e:  # noqa: BLE001
            from vlib.core import raised_in_repo

            if not raised_in_repo(e):
                raise
            raised = e
        if mode == "r":
            t.check(isinstance(raised, IOError) or (kind == "sqlite" and raised is not None), pre + f"{op}/readonly-accepted", f"{what}: {raised!r}")
        elif op == "write_log":
            if t.check(raised is None, pre + "write_log/raises", f"{what}: {raised!r}"):
                s.cls("log-write")
                if ident in L:
                    open_logs[ident] = step["text"]  # old or new text
                else:
                    L[ident] = step["text"]
                if kind == "sqlite":
                    maybe_gone.update(n for n in session_logs if n != ident)
                if ident not in session_logs:
                    session_logs.append(ident)
        elif op == "write":
            if mode == "a" and key in C:
                t.check(isinstance(raised, IOError), pre + "write/append-overwrites-completed", f"{what}: raised {raised!r}")
            elif mode == "a" and key in N:
                if raised is None:
                    C[key] = step["text"]
                    N.pop(key)
                else:
                    t.check(isinstance(raised, IOError), pre + "write/raises", f"{what}: {raised!r}")
            else:
                if t.check(raised is None, pre + "write/raises", f"{what}: {raised!r}"):
                    if key in C:
                        open_keys[key] = step["text"]  # old or new text
                    else:
                        C[key] = step["text"]
                    N.pop(key, None)
                    others = [k for k in set(C) | set(N) if k != key and (k.endswith(key) or k.startswith(key) or key.endswith(k) or key.startswith(k))]
                    state["related_write"] = state["related_write"] or bool(others)
        else:  # write_nc
            if mode == "a" and (key in C or key in N):
                # append mode never overwrites: the call is rejected (IOError) or ignored; the model stays unchanged
                t.check(raised is None or isinstance(raised, IOError), pre + "write_nc/append-raises", f"{what}: raised {raised!r}")
            elif t.check(raised is None, pre + "write_nc/raises", f"{what}: {raised!r}"):
                if key in C:
                    s.cls("nc-over-completed")
                    s.notes["nc_over_completed"] = True
                if key in C or key in N:
                    open_keys[key] = step["text"]
                else:
                    N[key] = step["text"]
    elif op == "drop_one":
        key, ident = store.key(step["id"], step["sfx"])
        import sqlite3

        ok, _ = t.call(pre + "drop_not_completed", lambda: ds.drop_not_completed(unique_id=ident), allowed=(IOError, sqlite3.OperationalError) if mode == "r" else ())
        if mode != "r" and ok:
            N.pop(key, None)
            state["dropped"] = True
    elif op == "drop_all":
        import sqlite3

        ok, _ = t.call(pre + "drop_not_completed", ds.drop_not_completed, allowed=(IOError, sqlite3.OperationalError) if mode == "r" else ())
        if mode != "r" and ok:
            N.clear()
            state["dropped"] = True
    # ---- invariants: live view and freshly opened read-only view
    live = snapshot(t, store, ds, pre + "live")
    other = Store(kind, case["suffix"], root)
    ok, ro = t.call(pre + "open-readonly", other.open, "r")
    fresh = snapshot(t, other, ro, pre + "reopened") if ok else None
    if ok:
        other.close()
    for tag, snap in (("live", live), ("reopened", fresh)):
        if snap is None:
            continue
        _compare(t, pre + tag, snap, C, N, before, open_keys, what)
        if snap["L"] is not None:
            _compare_logs(t, pre + tag, snap["L"], L, open_logs, maybe_gone, what)
    if live is not None and fresh is not None:
        t.check(live["C"] == fresh["C"] and live["N"] == fresh["N"], pre + "live-vs-reopened", f"{what}: live C={live['C']} N={live['N']}; reopened C={fresh['C']} N={fresh['N']}")
        if live["L"] is not None and fresh["L"] is not None:
            t.eq(live["L"], fresh["L"], pre + "logs/live-vs-reopened", what)
    # resolve policy-open outcomes from what the store now holds (persisted view)
    ref = fresh or live
    if ref is not None:
        for k in open_keys:
            if k in ref["C"] and k not in ref["N"]:
                C[k] = ref["C"][k]
                N.pop(k, None)
            elif k in ref["N"] and k not in ref["C"]:
                N[k] = ref["N"][k]
                C.pop(k, None)
        if ref["L"] is not None:
            for n in open_logs:
                if ref["L"].get(f"logs/{n}") in (L[n], open_logs[n]):
                    L[n] = ref["L"][f"logs/{n}"]
            for n in maybe_gone:
                if f"logs/{n}" not in ref["L"]:
                    L.pop(n, None)
                    if n in session_logs:
                        session_logs.remove(n)
    # membership probes
    if live is not None:
        for stem in sorted({st_["id"] for st_ in case["steps"] if "id" in st_}):
            for with_sfx in (False, True):
                key, ident = store.key(stem, with_sfx)
                if kind == "dir" and not ident.endswith("." + case["suffix"]):
                    continue  # the directory store documents membership by file name
                ok, got = t.call(pre + "contains", lambda: ident in ds)
                if ok and key not in open_keys:
                    # the directory store documents `in` for completed records; sqlite lists every member
                    want_in = key in C or (kind == "sqlite" and key in N)
                    t.eq(bool(got), want_in, pre + "contains", f"{what}: {ident!r} in store")
        ok, val = t.call(pre + "validate", lambda: ds.validate().to_dict())
        if ok:
            cols = val.get("Value", val)
            vals = list(cols.values()) if isinstance(cols, dict) else []
            cond = list(val.get("Condition", {}).values()) if isinstance(val.get("Condition"), dict) else []
            rec = dict(zip(cond, vals))
            t.check(rec.get("Num md5sum incorrect", 0) == 0 and rec.get("Num md5sum missing", 0) == 0, pre + "validate", f"{what}: {rec}")
            if "Has log" in rec and not open_logs and not maybe_gone and live["L"] is not None:
                t.eq(bool(rec["Has log"]), bool(L), pre + "validate-has-log", f"{what}: {rec}")
        ok, n = t.call(pre + "len", len, ds)
        if ok and not open_keys:
            t.eq(n, len(C) + len(N), pre + "len", what)


def _compare(s: Soft, tag, snap, C, N, before, open_keys, what):
    bC, bN = before
    for label, model, prev in (("C", C, bC), ("N", N, bN)):
        got = snap[label]
        want_keys = {k for k in model if k not in open_keys}
        got_keys = {k for k in got if k not in open_keys}
        if not s.eq(sorted(got_keys), sorted(want_keys), f"{tag}/membership-{label}", what):
            continue
        for k in want_keys:
            s.eq(got[k], model[k], f"{tag}/content-{label}", f"{what}: record {k!r}")
            h = snap["md5"].get((label, k))
            s.check(h == md5(got[k]), f"{tag}/md5-{label}", f"{what}: record {k!r} md5 {h!r} != md5 of its content")
    for k in open_keys:
        inC, inN = k in snap["C"], k in snap["N"]
        s.check(inC != inN, f"{tag}/open-outcome/membership", f"{what}: {k!r} completed={inC} not_completed={inN}")
        old = [d[k] for d in (bC, bN) if k in d]
        cur = snap["C"].get(k, snap["N"].get(k))
        new = open_keys[k]
        s.check(cur in old or cur == new, f"{tag}/open-outcome/content", f"{what}: {k!r} holds {cur!r}, neither old {old!r} nor new {new!r}")
        for label in ("C", "N"):
            if k in snap[label]:
                h = snap["md5"].get((label, k))
                s.check(h == md5(snap[label][k]), f"{tag}/open-outcome/md5", f"{what}: {k!r} md5 {h!r} does not match its content")


def _compare_logs(s: Soft, tag, got, L, open_logs, maybe_gone, what):
    """got: {'logs/<name>': text} as listed by ds.logs"""
    want = {f"logs/{n}": txt for n, txt in L.items()}
    optional = {f"logs/{n}" for n in maybe_gone}
    missing = sorted(u for u in want if u not in got and u not in optional)
    extra = sorted(u for u in got if u not in want)
    if not s.check(not missing and not extra, f"{tag}/logs/membership", f"{what}: logs listed {sorted(got)}, model {sorted(want)} (optional {sorted(optional)})"):
        return
    for n, txt in L.items():
        u = f"logs/{n}"
        if u not in got:
            continue
        if n in open_logs:
            s.check(got[u] in (txt, open_logs[n]), f"{tag}/logs/open-outcome/content", f"{what}: log {n!r} holds {got[u]!r}, neither old {txt!r} nor new {open_logs[n]!r}")
        else:
            s.eq(got[u], txt, f"{tag}/logs/content", f"{what}: log {n!r}")


def _zipped(s: Soft, case, store, root, C, N, L):
    """read-side differential: the zipped directory store lists and reads what the model holds"""
    if not os.path.isdir(store.source):
        return
    pre = "dir/zip/"
    path = shutil.make_archive(base_name=os.path.join(root, "store"), format="zip", root_dir=root, base_dir="store")
    z = Store("dir", case["suffix"], root)
    ok, zs = s.call(pre + "open", z.open_zipped, path)
    if not ok:
        return
    s.cls("zip")
    # circumstances of their own, e.g. the checksum files (md5/<name>.txt) of a store whose suffix is 'txt'
    md5_dir = os.path.join(store.source, "md5")
    # compressed members (a store whose suffix has a compression part); text that a latin-1 / universal-newline reader changes
    circumstances = ["compressed-suffix"] if is_compressed(case["suffix"]) and C else []
    tags = {c for txt in list(C.values()) + list(N.values()) + list(L.values()) for c in text_circumstances(txt)}
    circumstances += [c for c in ("cr-in-text", "non-ascii-text", "leading-bom") if c in tags]
    if case["suffix"] == "txt" and os.path.isdir(md5_dir) and os.listdir(md5_dir):
        circumstances.append("txt-suffix")
    if circumstances:
        s.cls(*("zip-" + c for c in circumstances))
        t = Soft(s.prefix)
        _zipped_clauses(t, case, z, zs, C, N, L)
        if t.failures:
            f = t.failures[0]
            c = circumstances[0]
            s.fail(f"{pre}{c}/{ZIP_TAILS[c]}", f"first shown by {f.signature}: {f.message}")
        return
    _zipped_clauses(s, case, z, zs, C, N, L)


def _zipped_clauses(s: Soft, case, z, zs, C, N, L):
    pre = "dir/zip/"
    what = f"zipped store after {len(case['steps'])} steps (model C={sorted(C)} N={sorted(N)} L={sorted(L)})"
    snap = snapshot(s, z, zs, pre[:-1])
    if snap is None:
        return
    _compare(s, pre[:-1], snap, C, N, (C, N), {}, what)
    if snap["L"] is not None:
        _compare_logs(s, pre[:-1], snap["L"], L, {}, set(), what)
    ok, n = s.call(pre + "len", len, zs)
    if ok:
        s.eq(n, len(C) + len(N), pre + "len", what)
    for k in sorted(C):
        ident = f"{k}.{case['suffix']}"
        ok, got = s.call(pre + "contains", lambda: ident in zs)
        if ok:
            s.eq(bool(got), True, pre + "contains", f"{what}: {ident!r} in zipped store")


SUBS = [
    Sub("histories", exec_history, strategy=histories(), quick=1200, thorough=96_000, shards_quick=16),
]


def _kp_nc_over_completed(case, sig, msg):
    """the history writes a not-completed record for an id that is completed at that moment, in overwrite mode"""
    done = set()
    mode = case["mode"]
    kind, suffix = case["kind"], case["suffix"]
    for st_ in case["steps"]:
        op = st_["op"]
        if op == "reopen":
            mode = st_["mode"]
        elif op == "write" and mode != "r":
            done.add(model_key(kind, suffix, st_["id"], st_["sfx"]))
        elif op == "write_nc" and mode == "w":
            if model_key(kind, suffix, st_["id"], st_["sfx"]) in done:
                return True
    return False


KNOWN_PREDICATES = {"nc_over_completed": _kp_nc_over_completed}

# thorough tier: coverage-guided campaigns (atheris/libFuzzer mutating the bytes Hypothesis draws from)
FUZZ = {
    "subs": ['histories'],
    "targets": ['cogent3.app.data_store', 'cogent3.app.sqlite_data_store'],
    "execs_thorough": 40_000, "jobs_thorough": 4, "execs_quick": 1000, "jobs_quick": 2,
}

META = {
    "technique": "Hypothesis-generated operation histories over related identifiers against a dictionary model, with a live-vs-reopened differential after every step and a zipped read-back at the end",
    "level_text": "Each run drives about a thousand histories of up to 25 store operations (both store kinds, all modes, close/reopen) over identifier pools built so that ids are suffixes/prefixes of each other, contain the suffix text or carry interior dots (a quarter of the directory stores hold gzip-compressed members), with record texts that vary line ends, encoding width, blanks and emptiness, and after every single step compares membership, content and checksum of every record and the log records with a plain dictionary model, on the live object and on a freshly opened read-only store; the final directory is also read back through the zipped read-only store.",
    "level_note": "Outcomes the documentation leaves open are checked only for policy-free invariants (see assumptions): overwrite-mode rewrites, a second log name within one sqlite session. In-memory sqlite, bz2 / zip member compression, bytes records, text that UTF-8 cannot encode and log names re-used across sessions are not driven.",
    "design_ref": "DESIGN.md section 1, C13",
}
