"""C01 — sequence views obey the slice / reverse-complement algebra.

Oracle: the same chain of operations applied to a Python ``str`` (with an
IUPAC complement table written here), carrying the list of parent indices on
display; plus a method differential between a view and a sequence freshly
built from the view's string.
"""

from __future__ import annotations

import inspect
import math

import numpy
from hypothesis import strategies as st

from vlib.core import Soft, Sub

PROPERTY_ID = "C01"
LEVEL = "exploration"
RULE = (
    "A case is (implementation old/new, moltype, parent string, annotation offset, chain of 1-7 operations drawn from "
    "slice(start,stop,step) with bounds relative to the current length incl. out-of-range and negative values and steps "
    "in +-1,2,3,7, integer index, rc, to_rna/to_dna, copy). After every step str/len/iteration/indexing and "
    "parent_coordinates are compared with the string model. The method differential calls every public read-only method "
    "on the final view and on make_seq(str(view)). Non-trivial = chain depth >= 2 containing a negative step or rc with a "
    "non-empty result; distinct = distinct case encodings."
)
ASSUMPTIONS = [
    "parent_coordinates of a strided view: reading parent[start-offset:stop-offset] on the reported strand with the view's stride must reproduce the displayed index list (the interval may extend to the clamp)",
    "after to_rna/to_dna the result may either be its own parent (coordinates 0..len, strand +) or keep the original coordinates; whichever the implementation chooses must then stay consistent",
    "step 0 is excluded (documented ValueError); integer indices out of range must raise IndexError",
    "methods that are random, plotting, annotation-related (C04) or serialising (C10) are excluded from the method differential; the list is in the evidence classes",
]

DNA_COMP = dict(zip("ACGTRYMKWSBDHVN-?", "TGCAYRKMWSVHDBN-?"))
RNA_COMP = dict(zip("ACGURYMKWSBDHVN-?", "UGCAYRKMWSVHDBN-?"))
ALPHABETS = {
    "dna": ("ACGT", "ACGTRYMKWSBDHVN-?"),
    "rna": ("ACGU", "ACGURYMKWSBDHVN-?"),
    "protein": ("ACDEFGHIKLMNPQRSTVWY", "ACDEFGHIKLMNPQRSTVWYBXZ-?"),
    "text": ("abcXYZ", "abcXYZqrs-"),
}


def complement(s: str, mt: str) -> str:
    if mt == "dna":
        return "".join(DNA_COMP[c] for c in s)
    if mt == "rna":
        return "".join(RNA_COMP[c] for c in s)
    return s


# ------------------------------------------------------------------ model
class Model:
    """string model of a view: parent string, displayed parent indices, strand"""

    def __init__(self, parent, mt, offset, name):
        self.parent, self.mt, self.offset, self.name = parent, mt, offset, name
        self.idx = list(range(len(parent)))
        self.strand = 1
        self.stride = 1

    def clone(self):
        m = Model(self.parent, self.mt, self.offset, self.name)
        m.idx, m.strand, m.stride = list(self.idx), self.strand, self.stride
        return m

    def string(self):
        s = "".join(self.parent[i] for i in self.idx)
        return complement(s, self.mt) if self.strand == -1 else s

    def slice(self, a, b, step):
        self.idx = self.idx[slice(a, b, step)]
        if step is not None and step < 0:
            self.strand = -self.strand
        self.stride *= abs(step or 1)

    def index(self, i):
        self.idx = [self.idx[i]]  # IndexError as python

    def rc(self):
        self.idx = self.idx[::-1]
        self.strand = -self.strand

    def convert(self, to):
        """model A: the converted sequence is its own parent"""
        s = self.string()
        s = s.replace("T", "U") if to == "rna" else s.replace("U", "T")
        m = Model(s, to, 0, self.name)
        return m

    def convert_keep(self, to):
        """model B: coordinates retained on the T/U-exchanged parent"""
        m = self.clone()
        m.parent = self.parent.replace("T", "U") if to == "rna" else self.parent.replace("U", "T")
        m.mt = to
        return m

    def coords_ok(self, seqid, start, stop, strand):
        if not self.idx:
            # an empty view displays no segment: any empty interval names it
            return None if start == stop else f"empty view reports non-empty interval [{start},{stop})"
        if seqid != self.name:
            return f"seqid {seqid!r} != {self.name!r}"
        a, b = start - self.offset, stop - self.offset
        if not (0 <= a <= b <= len(self.parent)):
            return f"interval [{a},{b}) outside parent of length {len(self.parent)} (offset {self.offset})"
        if not self.idx:
            return None if a == b else f"empty view reports non-empty interval [{a},{b})"
        if strand != self.strand:
            return f"strand {strand} != {self.strand}"
        k = abs(self.idx[1] - self.idx[0]) if len(self.idx) > 1 else self.stride
        seg = list(range(a, b))
        if strand == -1:
            seg = seg[::-1]
        read = seg[::k]
        if len(self.idx) == 1:
            ok = bool(read) and read[0] == self.idx[0] and len(read) == 1
        else:
            ok = read == self.idx
        return None if ok else f"reading parent[{a}:{b}] on strand {strand} with stride {k} gives {read}, view displays {self.idx}"


# -------------------------------------------------------------- generator
STEPS = [None, 1, -1, None, 1, -1, -1, 2, -2, 2, -2, 3, -3, 7, -7]


@st.composite
def chain_cases(draw, max_len=40, max_depth=7, methods=False):
    mt = draw(st.sampled_from(["dna", "dna", "dna", "rna", "protein", "text"]))
    canon, full = ALPHABETS[mt]
    alpha = draw(st.sampled_from([canon, full]))
    L = draw(st.one_of(st.integers(0, 6), st.integers(4, max_len), st.integers(4, max_len)))
    parent = "".join(draw(st.lists(st.sampled_from(alpha), min_size=L, max_size=L)))
    impl = draw(st.sampled_from(["old", "new"]))
    offset = draw(st.sampled_from([0, 0, 1, 5, 17, 50]))
    depth = draw(st.integers(1, max_depth))
    ops = []
    m = Model(parent, mt, offset, "s1")
    cur_mt = mt
    empties = 0
    for _ in range(depth):
        n = len(m.idx)
        if n == 0:
            empties += 1
            if empties > 1:
                break
        kinds = ["slice"] * 6 + ["index"]
        if cur_mt in ("dna", "rna"):
            kinds += ["rc", "rc", "to_rna" if cur_mt == "dna" else "to_dna", "to_" + cur_mt]
        kinds += ["copy"]
        kind = draw(st.sampled_from(kinds))
        if kind == "slice":

            def bound():
                mode = draw(st.sampled_from(["none", "in", "in", "in", "edge", "out"]))
                if mode == "none" or n == 0:
                    return draw(st.sampled_from([None, 0, 1, -1]))
                if mode == "in":
                    return draw(st.integers(-n, n))
                if mode == "edge":
                    return draw(st.sampled_from([0, n, -n, n - 1, -1, 1, n + 1, -n - 1]))
                return draw(st.integers(-n - 3, n + 3))

            s = draw(st.sampled_from(STEPS))
            if n >= 1 and draw(st.integers(0, 9)) < 8:
                # constructed non-empty selection p < q, spelled for the step's direction
                p_ = draw(st.integers(0, n - 1))
                q_ = draw(st.integers(p_ + 1, n))

                def spell(x):
                    # python spelling of position x (0..n-1) as a slice bound
                    return x - n if draw(st.booleans()) else x

                if s is None or s > 0:
                    a = None if (p_ == 0 and draw(st.booleans())) else spell(p_)
                    b = None if (q_ == n and draw(st.booleans())) else (spell(q_) if q_ < n else q_ + draw(st.integers(0, 2)))
                else:
                    a = None if (q_ == n and draw(st.booleans())) else (spell(q_ - 1))
                    b = None if p_ == 0 else spell(p_ - 1)
            else:
                a, b = bound(), bound()
            ops.append(["slice", a, b, s])
            m.slice(a, b, s)
        elif kind == "index":
            i = draw(st.integers(-n - 1, n)) if draw(st.integers(0, 9)) == 0 else draw(st.integers(-n, max(n - 1, 0)))
            ops.append(["index", i])
            if -n <= i < n:
                m.index(i)
            else:
                break  # an IndexError ends the chain
        elif kind == "rc":
            ops.append(["rc"])
            m.rc()
        elif kind in ("to_rna", "to_dna"):
            ops.append([kind])
            to = kind[3:]
            if to != cur_mt:
                m = m.convert(to)
                cur_mt = to
        else:
            ops.append(["copy"])
    case = {"impl": impl, "mt": mt, "parent": parent, "offset": offset, "ops": ops}
    if methods:
        canon2, full2 = ALPHABETS[cur_mt]
        k = draw(st.sampled_from([len(m.idx), len(m.idx), draw(st.integers(0, 12))]))
        case["other"] = "".join(draw(st.lists(st.sampled_from(full2), min_size=k, max_size=k)))
    return case


# ---------------------------------------------------------------- execute
def build(case):
    from cogent3 import make_seq

    kw = {}
    if case["mt"] == "text" and case["impl"] == "old":
        kw["preserve_case"] = True
    return make_seq(
        case["parent"],
        name="s1",
        moltype=case["mt"],
        new_type=case["impl"] == "new",
        annotation_offset=case["offset"],
        **kw,
    )


def observe(s: Soft, v, models, tag, impl):
    """compare the view with the (candidate) models; returns surviving models"""
    want = models[0].string()
    ok, got = s.call(f"{tag}/str", str, v)
    if ok:
        s.eq(got, want, f"{tag}/str", "str(view)")
    ok, n = s.call(f"{tag}/len", len, v)
    if ok:
        s.eq(n, len(want), f"{tag}/len", "len(view)")
    ok, it = s.call(f"{tag}/iter", lambda: "".join(list(v)))
    if ok:
        s.eq(it, want, f"{tag}/iter", "iteration")
    if want and ok:
        for i in sorted({0, len(want) - 1, len(want) // 2, -1, -len(want)}):
            ok2, ch = s.call(f"{tag}/getitem-int", lambda: str(v[i]))
            if ok2:
                s.eq(ch, want[i], f"{tag}/getitem-int", f"view[{i}]")
    if impl == "new":
        ok, b = s.call(f"{tag}/bytes", lambda: bytes(v).decode("utf8"))
        if ok:
            s.eq(b, want, f"{tag}/bytes", "bytes(view)")
    ok, pc = s.call(f"{tag}/parent_coordinates", v.parent_coordinates)
    if ok:
        seqid, start, stop, strand = pc
        errs = [m.coords_ok(seqid, int(start), int(stop), int(strand)) for m in models]
        alive = [m for m, e in zip(models, errs) if e is None]
        if not alive:
            s.fail(f"{tag}/parent_coordinates", f"{pc}: {errs[0]}")
        else:
            models = alive
        ok, off = s.call(f"{tag}/annotation_offset", lambda: int(v.annotation_offset))
        if ok and alive and alive[0].idx:
            s.check(off == int(start), f"{tag}/annotation_offset", f"annotation_offset {off} != parent start {start}")
    return models


def run_chain(s: Soft, case):
    """returns (view, models) or (None, None) when the chain ended in a
    documented exception"""
    impl, mt = case["impl"], case["mt"]
    pre = f"{impl}/"
    ok, v = s.call(pre + "construct", build, case)
    if not ok:
        return None, None
    models = [Model(case["parent"], mt, case["offset"], "s1")]
    models = observe(s, v, models, pre + "fresh", impl)
    cur_mt = mt
    negs = 0
    history = []
    for op in case["ops"]:
        kind = op[0]
        if kind == "slice":
            a, b, st_ = op[1], op[2], op[3]
            ok, v2 = s.call(pre + "slice", lambda: v[a:b:st_])
            if not ok:
                return None, None
            for m in models:
                m.slice(a, b, st_)
            rev = st_ is not None and st_ < 0
            negs += rev
            history.append(("r" if rev else "f") + ("s" if abs(st_ or 1) > 1 else ""))
            tag = "slice-rev" if rev else "slice-fwd"
        elif kind == "index":
            i = op[1]
            n = len(models[0].idx)
            if -n <= i < n:
                ok, v2 = s.call(pre + "index", lambda: v[i])
                if not ok:
                    return None, None
                for m in models:
                    m.index(i)
                tag = "index"
                history.append("i")
            else:
                try:
                    v[i]
                    s.fail(pre + "index/out-of-range-accepted", f"view of length {n} accepted index {i}")
                except IndexError:
                    s.cls("index-out-of-range")
                except Exception as e:  # noqa: BLE001
                    s.fail(pre + f"index/out-of-range-raises:{type(e).__name__}", str(e))
                return None, None
        elif kind == "rc":
            ok, v2 = s.call(pre + "rc", v.rc)
            if not ok:
                return None, None
            for m in models:
                m.rc()
            negs += 1
            tag = "rc"
            history.append("r")
        elif kind in ("to_rna", "to_dna"):
            to = kind[3:]
            ok, v2 = s.call(pre + kind, getattr(v, kind))
            if not ok:
                return None, None
            if to != cur_mt:
                models = [m.convert(to) for m in models[:1]] + [m.convert_keep(to) for m in models]
                cur_mt = to
                s.cls("convert-after-rev" if negs else "convert")
            tag = kind
            history.append("c")
        else:
            ok, v2 = s.call(pre + "copy", v.copy)
            if not ok:
                return None, None
            tag = "copy"
            history.append("p")
        v = v2
        models = observe(s, v, models, pre + tag, impl)
    # coverage classes
    dirs = [h[0] for h in history if h[0] in "fr"]
    for x, y in zip(dirs, dirs[1:]):
        s.cls(f"compose:{x}{y}")
    if any(h.endswith("s") for h in history):
        s.cls("strided")
    if case["offset"]:
        s.cls("offset")
    s.cls(impl, mt)
    s.nontrivial = len(case["ops"]) >= 2 and negs > 0 and len(models[0].idx) > 0
    return v, models


def exec_chain(case) -> Soft:
    s = Soft("C01/")
    run_chain(s, case)
    return s


# --------------------------------------------------- method differential
EXCLUDE = {
    # random
    "shuffle",
    # plotting / display
    "to_html", "get_drawable", "get_drawables", "set_repr_policy",
    # annotations: C04
    "get_features", "add_feature", "make_feature", "annotate_from_gff", "annotate_matches_to", "copy_annotations",
    "with_masked_annotations", "replace_annotation_db", "is_annotated", "annotation_db", "annotation_offset",
    # serialisation: C10 (exports view coordinates, which legitimately differ from a fresh object)
    "to_rich_dict", "to_json", "from_rich_dict",
    # coordinates themselves are checked against the model
    "parent_coordinates",
    # need a map argument (C08/C03)
    "gapped_by_map", "gapped_by_map_motif_iter", "gapped_by_map_segment_iter",
    # returns a statistical test object
    "strand_symmetry",
    # attributes
    "info", "name", "moltype", "codon_alphabet", "line_wrap",
}


def norm(x, depth=0):
    from cogent3.core import new_sequence, sequence

    if depth > 6:
        return repr(x)
    if isinstance(x, (sequence.Sequence, new_sequence.Sequence)):
        return ("seq", str(x), x.moltype.label, x.name)
    if isinstance(x, (str, bytes, int, bool, type(None))):
        return x
    if isinstance(x, float):
        return "nan" if math.isnan(x) else x
    if isinstance(x, numpy.generic):
        return norm(x.item(), depth + 1)
    if isinstance(x, numpy.ndarray):
        return ("array", norm(x.tolist(), depth + 1))
    if isinstance(x, dict):
        return ("dict", sorted((repr(norm(k, depth + 1)), norm(v, depth + 1)) for k, v in x.items()))
    if isinstance(x, (list, tuple)):
        return [norm(y, depth + 1) for y in x]
    if isinstance(x, (set, frozenset)):
        return ("set", sorted(repr(norm(y, depth + 1)) for y in x))
    if inspect.isgenerator(x) or hasattr(x, "__next__"):
        return [norm(y, depth + 1) for y in x]
    if hasattr(x, "to_dict"):
        try:
            return ("to_dict", norm(x.to_dict(), depth + 1))
        except Exception:  # noqa: BLE001
            pass
    if hasattr(x, "gap_pos") and hasattr(x, "cum_gap_lengths"):
        return ("indelmap", x.gap_pos.tolist(), x.cum_gap_lengths.tolist(), int(x.parent_length))
    return ("repr", type(x).__name__, repr(x))


def method_table(v, other_str, mt):
    """name -> list of (args, kwargs) to call with"""
    n = len(v)
    other_mk = lambda: type(v)  # noqa: E731
    del other_mk
    first = str(v)[0] if n else "A"
    t = {
        "count": [((first,), {})],
        "counts": [((), {}), ((), {"motif_length": 2}), ((), {"include_ambiguity": True, "allow_gap": True})],
        "iter_kmers": [((2,), {"strict": False}), ((3,), {})],
        "get_kmers": [((2,), {"strict": False}), ((1,), {})],
        "sliding_windows": [((3, 2), {})],
        "get_in_motif_size": [((), {"motif_length": 3}), ((), {"motif_length": 2})],
        "disambiguate": [((), {"method": "strip"})],
        "mw": [((), {"method": "strip"}), ((), {"method": "first"})],
        "replace": [((first, "-"), {})] if mt != "text" else [((first, "b"), {})],
        "to_moltype": [(({"dna": "rna", "rna": "dna"}.get(mt, mt),), {})],
        "to_fasta": [((), {}), ((), {"block_size": 7})],
        "to_phylip": [((), {})],
        "is_gap": [((), {}), ((first,), {})],
        "get_translation": [((), {"incomplete_ok": True}), ((), {"incomplete_ok": True, "include_stop": True})],
        "trim_stop_codon": [((), {}), ((), {"strict": True})],
        "has_terminal_stop": [((), {}), ((), {"strict": True})],
        "possibilities": [((), {})],
    }
    for name in (
        "can_match", "can_mismatch", "must_match", "can_pair", "can_mispair", "must_pair", "diff", "distance",
        "frac_same", "frac_diff", "frac_same_gaps", "frac_diff_gaps", "frac_same_non_gaps", "frac_diff_non_gaps",
    ):
        t[name] = [(("OTHER",), {})]
    return t


def exec_methods(case) -> Soft:
    from cogent3 import make_seq

    s = Soft("C01/")
    v, models = run_chain(s, case)
    if v is None:
        return s
    impl = case["impl"]
    cur_mt = v.moltype.label if hasattr(v.moltype, "label") else str(v.moltype)
    want = models[0].string()
    kw = {"preserve_case": True} if (cur_mt == "text" and impl == "old") else {}
    ok, fresh = s.call(impl + "/methods/fresh", lambda: make_seq(want, name="s1", moltype=cur_mt, new_type=impl == "new", **kw))
    if not ok:
        return s
    ok, other_v = s.call(impl + "/methods/other", lambda: make_seq(case.get("other", ""), name="o", moltype=cur_mt, new_type=impl == "new", **kw))
    if not ok:
        return s
    table = method_table(v, case.get("other", ""), cur_mt)
    names = [n for n in dir(type(v)) if not n.startswith("_") and n not in EXCLUDE]
    called = 0
    for name in names:
        attr = inspect.getattr_static(type(v), name, None)
        if isinstance(attr, property) or not callable(getattr(v, name, None)):
            continue
        if name in table:
            calls = table[name]
        else:
            try:
                sig = inspect.signature(getattr(v, name))
                required = [p for p in sig.parameters.values() if p.default is p.empty and p.kind in (p.POSITIONAL_ONLY, p.POSITIONAL_OR_KEYWORD)]
            except (TypeError, ValueError):
                required = [1]
            if required:
                s.cls(f"uncovered-method:{name}")
                continue
            calls = [((), {})]
        for args, kwargs in calls:
            res = []
            for obj in (v, fresh):
                a2 = tuple(other_v if a == "OTHER" else a for a in args)
                try:
                    r = getattr(obj, name)(*a2, **kwargs)
                    res.append(("ok", norm(r)))
                except Exception as e:  # noqa: BLE001
                    res.append(("raises", type(e).__name__))
            called += 1
            if res[0] != res[1]:
                s.fail(
                    f"{impl}/method:{name}",
                    f"{name}{args}{kwargs} on view {str(v)!r} (history {case['ops']}, parent {case['parent']!r}): view -> {res[0]!r}; fresh -> {res[1]!r}",
                )
    s.evals = max(1, called)
    s.cls("methods")
    return s


SUBS = [
    Sub("chains", exec_chain, strategy=chain_cases(), quick=12000, thorough=1_280_000, shards_quick=16),
    Sub("chains_long", exec_chain, strategy=chain_cases(max_len=200, max_depth=9), quick=1600, thorough=160_000, shards_quick=16),
    Sub("methods", exec_methods, strategy=chain_cases(max_len=24, max_depth=4, methods=True), quick=1600, thorough=160_000, shards_quick=16),
]

KNOWN_PREDICATES = {}

# thorough tier: coverage-guided campaigns (atheris/libFuzzer mutating the bytes Hypothesis draws from)
FUZZ = {
    "subs": ['chains', 'chains_long', 'methods'],
    "targets": ['cogent3.core.sequence', 'cogent3.core.new_sequence'],
    "execs_thorough": 40_000, "jobs_thorough": 4, "execs_quick": 1000, "jobs_quick": 2,
}

META = {
    "technique": "Hypothesis-generated operation chains against a Python-string model carrying displayed parent indices; method differential view vs fresh sequence",
    "level_text": "Thousands of generated slice/rc/convert/copy chains per run on both sequence implementations, all five observers compared with a string model after every step, parent coordinates checked by re-reading the parent, and every public read-only method compared between the view and a freshly built sequence. Exploration: chain depth and lengths are bounded (7 ops/40 symbols quick, 9/200 for the long sub-check).",
    "level_note": "Trusts the harness' string model and IUPAC complement table. Excluded methods (random, plotting, annotation, serialisation) are listed in EXCLUDE and covered by C04/C10.",
    "design_ref": "DESIGN.md section 1, C01",
}
