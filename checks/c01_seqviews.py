"""C01 — sequence views obey the slice / reverse-complement algebra.

Oracle: the same chain of operations applied to a Python ``str`` (with an
IUPAC complement table written here), carrying the list of parent indices on
display; plus a method differential between a view and a sequence freshly
built from the view's string.
"""

from __future__ import annotations

import inspect
import math

import numpy
from hypothesis import strategies as st

from vlib.core import Soft, Sub

PROPERTY_ID = "C01"
LEVEL = "exploration"
RULE = (
    "A case is (implementation old / new / new-coll, moltype dna/rna/protein/protein_with_stop/text/bytes, parent string, "
    "annotation offset, chain of 1-7 operations drawn from slice(start,stop,step) with bounds relative to the current "
    "length incl. out-of-range and negative values and steps in +-1,2,3,7, integer index, rc, to_rna/to_dna, copy). "
    "old/new sequences come from make_seq(str) or, in a fifth of the cases, from SeqView(seq=,start=,stop=,step=,offset=,seqid=) "
    "with arbitrary (negative, out-of-range) arguments wrapped by make_seq; the offset is given at construction or assigned to "
    "annotation_offset. new-coll sequences are make_unaligned_seqs({...}, new_type=True) followed by a route of 0-3 collection "
    "operations (rc, take_seqs, take_seqs(negate), rename_seqs, add_seqs, to_rna/to_dna) and get_seq(name), optionally with "
    "annotation_offset assigned. After every step str/len/iteration/indexing(/bytes) and parent_coordinates are compared with the "
    "string model, and the receiver of the step must read as before. The method differential calls every public read-only "
    "method on the final view and on make_seq(str(view)); two-sequence methods get a second sequence that is itself a view; "
    "frac_same/frac_diff/diff/distance/frac_similar/matrix_distance are also compared with their documented value computed on "
    "strings. The dunder sub-check compares ==, !=, <, hash, in, +, numpy.array, bytes and repr with the string model or the "
    "fresh sequence. Non-trivial = chain depth >= 2 containing a negative step or rc with a non-empty result; distinct = distinct "
    "case encodings."
)
ASSUMPTIONS = [
    "parent_coordinates of a strided view: reading parent[start-offset:stop-offset] on the reported strand with the view's stride must reproduce the displayed index list (the interval may extend to the clamp)",
    "after to_rna/to_dna the result may either be its own parent (coordinates 0..len, strand +) or keep the original coordinates; whichever the implementation chooses must then stay consistent",
    "step 0 is excluded (documented ValueError); integer indices out of range must raise IndexError",
    "methods that are random, plotting, annotation-related (C04) or serialising (C10) are excluded from the method differential; the list is in the evidence classes",
    "SeqView(seq=, start=, stop=, step=) accepts any integers or None with step != 0 and displays seq[start:stop:step] (pinned by tests/test_core/test_new_sequence.py::test_seqview_initialisation / test_seqview_init_with_negatives); a negative step makes the wrapping nucleic sequence complement, exactly as a slice with that step",
    "collection routes: coll.rc() reverse-complements every member (nucleic moltypes only are generated), take_seqs / rename_seqs / add_seqs / to_rna / to_dna leave the displayed sequence of the retained member unchanged apart from the T/U exchange; the member name after rename_seqs is the renamed one and is what parent_coordinates must report",
    "an annotation offset reaches a collection-backed sequence only through the annotation_offset setter (what annotate_from_gff(offset=) does); it is assigned to the fresh, unsliced sequence only, where its meaning is unambiguous",
    "a step (or a method call) must not change what its receiver displays: sequences are documented immutable",
    "agreement of the method differential where both the view and the fresh sequence raise the same exception type proves nothing about the view; such calls are counted in coverage classes both-raise:<method> next to answered:<method>",
    "dunder semantics asserted are the documented ones: ==, !=, < compare the sequence strings, hash is that of the string, `x in seq` tests the string (str operands only), seq + other concatenates the strings (old-style text sequences excepted: their constructor upper-cases, so + is only compared with the fresh sequence); numpy.array()/repr() have no documented value and are compared with the fresh sequence only",
    "once a step of a chain has failed the chain stops: later steps would only repeat the first root cause under other signatures",
    "circumstance tags keep confirmed defects apart from the rest of the search: new-coll@offset (annotation_offset assigned to a collection-backed sequence), copy@coll-slice (copy() of a collection-backed view that does not start at 0), new-coll@bytes (bytes moltype in a new-style collection)",
]

DNA_COMP = dict(zip("ACGTRYMKWSBDHVN-?", "TGCAYRKMWSVHDBN-?"))
RNA_COMP = dict(zip("ACGURYMKWSBDHVN-?", "UGCAYRKMWSVHDBN-?"))
ALPHABETS = {
    "dna": ("ACGT", "ACGTRYMKWSBDHVN-?"),
    "rna": ("ACGU", "ACGURYMKWSBDHVN-?"),
    "protein": ("ACDEFGHIKLMNPQRSTVWY", "ACDEFGHIKLMNPQRSTVWYBXZ-?"),
    "text": ("abcXYZ", "abcXYZqrs-"),
    "protein_with_stop": ("ACDEFGHIKLMNPQRSTVWY*", "ACDEFGHIKLMNPQRSTVWY*BXZ-?"),
    "bytes": ("aAbB01", "aAbB01 *-?~"),
}
NUCLEIC = ("dna", "rna")
MOLTYPES = ["dna"] * 4 + ["rna"] * 2 + ["protein", "text", "protein_with_stop", "bytes"]
IMPLS = ["old", "new", "new-coll"]


def complement(s: str, mt: str) -> str:
    if mt == "dna":
        return "".join(DNA_COMP[c] for c in s)
    if mt == "rna":
        return "".join(RNA_COMP[c] for c in s)
    return s


# ------------------------------------------------------------------ model
class Model:
    """string model of a view: parent string, displayed parent indices, strand"""

    def __init__(self, parent, mt, offset, name):
        self.parent, self.mt, self.offset, self.name = parent, mt, offset, name
        self.idx = list(range(len(parent)))
        self.strand = 1
        self.stride = 1

    def clone(self):
        m = Model(self.parent, self.mt, self.offset, self.name)
        m.idx, m.strand, m.stride = list(self.idx), self.strand, self.stride
        return m

    def string(self):
        s = "".join(self.parent[i] for i in self.idx)
        return complement(s, self.mt) if self.strand == -1 else s

    def slice(self, a, b, step):
        self.idx = self.idx[slice(a, b, step)]
        if step is not None and step < 0:
            self.strand = -self.strand
        self.stride *= abs(step or 1)

    def index(self, i):
        self.idx = [self.idx[i]]  # IndexError as python

    def rc(self):
        self.idx = self.idx[::-1]
        self.strand = -self.strand

    def convert(self, to):
        """model A: the converted sequence is its own parent"""
        s = self.string()
        s = s.replace("T", "U") if to == "rna" else s.replace("U", "T")
        m = Model(s, to, 0, self.name)
        return m

    def convert_keep(self, to):
        """model B: coordinates retained on the T/U-exchanged parent"""
        m = self.clone()
        m.parent = self.parent.replace("T", "U") if to == "rna" else self.parent.replace("U", "T")
        m.mt = to
        return m

    def coords_ok(self, seqid, start, stop, strand):
        if not self.idx:
            # an empty view displays no segment: any empty interval names it
            return None if start == stop else f"empty view reports non-empty interval [{start},{stop})"
        if seqid != self.name:
            return f"seqid {seqid!r} != {self.name!r}"
        a, b = start - self.offset, stop - self.offset
        if not (0 <= a <= b <= len(self.parent)):
            return f"interval [{a},{b}) outside parent of length {len(self.parent)} (offset {self.offset})"
        if not self.idx:
            return None if a == b else f"empty view reports non-empty interval [{a},{b})"
        if strand != self.strand:
            return f"strand {strand} != {self.strand}"
        k = abs(self.idx[1] - self.idx[0]) if len(self.idx) > 1 else self.stride
        seg = list(range(a, b))
        if strand == -1:
            seg = seg[::-1]
        read = seg[::k]
        if len(self.idx) == 1:
            ok = bool(read) and read[0] == self.idx[0] and len(read) == 1
        else:
            ok = read == self.idx
        return None if ok else f"reading parent[{a}:{b}] on strand {strand} with stride {k} gives {read}, view displays {self.idx}"


# -------------------------------------------------------------- generator
STEPS = [None, 1, -1, None, 1, -1, -1, 2, -2, 2, -2, 3, -3, 7, -7]


def convert_str(s: str, to: str) -> str:
    return s.replace("T", "U") if to == "rna" else s.replace("U", "T")


def setup_models(case):
    """models of the sequence a case starts from, i.e. after the constructor
    route (SeqView arguments) or the collection route; shared by the
    generator and by execute so that both agree on the starting point"""
    m = Model(case["parent"], case["mt"], case["offset"], "s1")
    models = [m]
    if "ctor" in case:
        a, b, step = case["ctor"]
        m.slice(a, b, step)
    for r in (case.get("coll") or {}).get("route", []):
        if r == "rc":
            for x in models:
                x.rc()
        elif r == "rename":
            for x in models:
                x.name += "x"
        elif r in ("to_rna", "to_dna"):
            to = r[3:]
            if to != models[0].mt:
                models = [x.convert(to) for x in models[:1]] + [x.convert_keep(to) for x in models]
    return models


@st.composite
def other_seq(draw, mt, n):
    """second sequence for two-sequence methods: parent string + a short
    chain, so that the argument is itself a view"""
    _, full = ALPHABETS[mt]
    k = draw(st.sampled_from([n, n, n + 2, draw(st.integers(0, 12))]))
    parent = "".join(draw(st.lists(st.sampled_from(full), min_size=k, max_size=k)))
    ops = []
    for _ in range(draw(st.sampled_from([0, 1, 1, 2]))):
        kinds = ["rev", "slice"] + (["rc"] if mt in NUCLEIC else [])
        kind = draw(st.sampled_from(kinds))
        if kind == "rev":
            ops.append(["slice", None, None, -1])
        elif kind == "rc":
            ops.append(["rc"])
        else:
            a = draw(st.sampled_from([None, 0, 1, -1, 2]))
            b = draw(st.sampled_from([None, k, k + 1, -1, k - 1]))
            ops.append(["slice", a, b, draw(st.sampled_from([None, 1, -1, 2, -2]))])
    return parent, ops


@st.composite
def chain_cases(draw, max_len=40, max_depth=7, methods=False, dunders=False):
    mt = draw(st.sampled_from(MOLTYPES))
    canon, full = ALPHABETS[mt]
    alpha = draw(st.sampled_from([canon, full]))
    L = draw(st.one_of(st.integers(0, 6), st.integers(4, max_len), st.integers(4, max_len)))
    parent = "".join(draw(st.lists(st.sampled_from(alpha), min_size=L, max_size=L)))
    impl = draw(st.sampled_from(IMPLS))
    offset = draw(st.sampled_from([0, 0, 1, 5, 17, 50]))
    depth = draw(st.integers(1, max_depth))
    ops = []
    case = {"impl": impl, "mt": mt, "parent": parent, "offset": offset, "ops": ops}
    if impl == "new-coll":
        # offsets reach a collection member through the setter only
        case["offset"] = offset = draw(st.sampled_from([0, 0, 0, 0, offset]))

        def small():
            k = draw(st.integers(0, 6))
            return "".join(draw(st.lists(st.sampled_from(alpha), min_size=k, max_size=k)))

        before = [small() for _ in range(draw(st.integers(0, 2)))]
        after = [small() for _ in range(draw(st.integers(0, 2)))]
        kinds = ["take", "rename", "add", "take_neg"]
        if mt in NUCLEIC:
            kinds += ["rc", "rc", "rc", "to_rna", "to_dna"]
        route = draw(st.lists(st.sampled_from(kinds), min_size=0, max_size=3))
        case["coll"] = {"before": before, "after": after, "route": route}
    else:
        if draw(st.integers(0, 4)) == 0:
            # constructor route: any integers, as python slicing accepts
            def arg():
                return draw(st.one_of(st.none(), st.integers(-L - 3, L + 3), st.integers(-L - 3, L + 3)))

            case["ctor"] = [arg(), arg(), draw(st.sampled_from(STEPS))]
        elif offset and draw(st.booleans()):
            case["set_offset"] = True
    m = setup_models(case)[0]
    cur_mt = m.mt
    empties = 0
    for _ in range(depth):
        n = len(m.idx)
        if n == 0:
            empties += 1
            if empties > 1:
                break
        kinds = ["slice"] * 6 + ["index"]
        if cur_mt in NUCLEIC:
            kinds += ["rc", "rc", "to_rna" if cur_mt == "dna" else "to_dna", "to_" + cur_mt]
        kinds += ["copy"]
        kind = draw(st.sampled_from(kinds))
        if kind == "slice":

            def bound():
                mode = draw(st.sampled_from(["none", "in", "in", "in", "edge", "out"]))
                if mode == "none" or n == 0:
                    return draw(st.sampled_from([None, 0, 1, -1]))
                if mode == "in":
                    return draw(st.integers(-n, n))
                if mode == "edge":
                    return draw(st.sampled_from([0, n, -n, n - 1, -1, 1, n + 1, -n - 1]))
                return draw(st.integers(-n - 3, n + 3))

            s = draw(st.sampled_from(STEPS))
            if n >= 1 and draw(st.integers(0, 9)) < 8:
                # constructed non-empty selection p < q, spelled for the step's direction
                p_ = draw(st.integers(0, n - 1))
                q_ = draw(st.integers(p_ + 1, n))

                def spell(x):
                    # python spelling of position x (0..n-1) as a slice bound
                    return x - n if draw(st.booleans()) else x

                if s is None or s > 0:
                    a = None if (p_ == 0 and draw(st.booleans())) else spell(p_)
                    b = None if (q_ == n and draw(st.booleans())) else (spell(q_) if q_ < n else q_ + draw(st.integers(0, 2)))
                else:
                    a = None if (q_ == n and draw(st.booleans())) else (spell(q_ - 1))
                    b = None if p_ == 0 else spell(p_ - 1)
            else:
                a, b = bound(), bound()
            ops.append(["slice", a, b, s])
            m.slice(a, b, s)
        elif kind == "index":
            i = draw(st.integers(-n - 1, n)) if draw(st.integers(0, 9)) == 0 else draw(st.integers(-n, max(n - 1, 0)))
            ops.append(["index", i])
            if -n <= i < n:
                m.index(i)
            else:
                break  # an IndexError ends the chain
        elif kind == "rc":
            ops.append(["rc"])
            m.rc()
        elif kind in ("to_rna", "to_dna"):
            ops.append([kind])
            to = kind[3:]
            if to != cur_mt:
                m = m.convert(to)
                cur_mt = to
        else:
            ops.append(["copy"])
    if methods or dunders:
        if len(m.idx) and draw(st.integers(0, 5)) == 0:
            # a second sequence displaying the same string, as a plain sequence or as a twice reversed view
            rev = ["slice", None, None, -1]
            case["other"], case["other_ops"] = m.string(), draw(st.sampled_from([[], [rev, rev]]))
        else:
            case["other"], case["other_ops"] = draw(other_seq(cur_mt, len(m.idx)))
    if dunders:
        n = len(m.idx)
        i = draw(st.integers(0, n))
        j = draw(st.integers(i, min(n, i + 4)))
        _, full2 = ALPHABETS[cur_mt]
        case["sub"] = [i, j]
        case["probe"] = "".join(draw(st.lists(st.sampled_from(full2), min_size=0, max_size=3)))
        case["other_same_name"] = draw(st.booleans())
    return case


# ---------------------------------------------------------------- execute
def _kw(mt, impl):
    return {"preserve_case": True} if (mt == "text" and impl == "old") else {}


def build(case):
    """returns (sequence, collection or None)"""
    from cogent3 import make_seq, make_unaligned_seqs

    impl, mt, parent = case["impl"], case["mt"], case["parent"]
    if impl == "new-coll":
        spec = case["coll"]
        data = {f"b{i}": x for i, x in enumerate(spec["before"])}
        data["s1"] = parent
        data.update({f"a{i}": x for i, x in enumerate(spec["after"])})
        coll = make_unaligned_seqs(data, moltype=mt, new_type=True)
        name, cur, cur_mt = "s1", parent, mt
        for k, r in enumerate(spec["route"]):
            if r == "rc":
                coll = coll.rc()
                cur = complement(cur[::-1], cur_mt)
            elif r == "take":
                coll = coll.take_seqs([name])
            elif r == "take_neg":
                others = [x for x in coll.names if x != name]
                if others:
                    coll = coll.take_seqs(others[:1], negate=True)
            elif r == "rename":
                coll = coll.rename_seqs(lambda x: x + "x")
                name += "x"
            elif r == "add":
                coll = coll.add_seqs({f"z{k}": cur})
            elif r in ("to_rna", "to_dna"):
                coll = getattr(coll, r)()
                cur_mt = r[3:]
                cur = convert_str(cur, cur_mt)
        v = coll.get_seq(name)
        if case["offset"]:
            v.annotation_offset = case["offset"]
        return v, (coll, name, cur)
    kw = _kw(mt, impl)
    new_type = impl == "new"
    if "ctor" in case:
        a, b, step = case["ctor"]
        if new_type:
            from cogent3.core import new_moltype, new_sequence

            alpha = new_moltype.get_moltype(mt).most_degen_alphabet()
            sv = new_sequence.SeqView(seq=parent, alphabet=alpha, start=a, stop=b, step=step, offset=case["offset"], seqid="s1")
        else:
            from cogent3.core import sequence

            sv = sequence.SeqView(seq=parent, start=a, stop=b, step=step, offset=case["offset"], seqid="s1")
        return make_seq(sv, name="s1", moltype=mt, new_type=new_type, **kw), None
    if case.get("set_offset"):
        v = make_seq(parent, name="s1", moltype=mt, new_type=new_type, **kw)
        v.annotation_offset = case["offset"]
        return v, None
    return make_seq(parent, name="s1", moltype=mt, new_type=new_type, annotation_offset=case["offset"], **kw), None


def observe(s: Soft, v, models, tag, impl):
    """compare the view with the (candidate) models; returns (surviving
    models, snapshot of what the view displays)"""
    want = models[0].string()
    snap = [None, None]
    ok, got = s.call(f"{tag}/str", str, v)
    if ok:
        snap[0] = got
        s.eq(got, want, f"{tag}/str", "str(view)")
    ok, n = s.call(f"{tag}/len", len, v)
    if ok:
        s.eq(n, len(want), f"{tag}/len", "len(view)")
    ok, it = s.call(f"{tag}/iter", lambda: "".join(list(v)))
    if ok:
        s.eq(it, want, f"{tag}/iter", "iteration")
    if want and ok:
        for i in sorted({0, len(want) - 1, len(want) // 2, -1, -len(want)}):
            ok2, ch = s.call(f"{tag}/getitem-int", lambda: str(v[i]))
            if ok2:
                s.eq(ch, want[i], f"{tag}/getitem-int", f"view[{i}]")
    if impl != "old":
        ok, b = s.call(f"{tag}/bytes", lambda: bytes(v).decode("utf8"))
        if ok:
            s.eq(b, want, f"{tag}/bytes", "bytes(view)")
    ok, pc = s.call(f"{tag}/parent_coordinates", v.parent_coordinates)
    if ok:
        seqid, start, stop, strand = pc
        snap[1] = (seqid, int(start), int(stop), int(strand))
        errs = [m.coords_ok(seqid, int(start), int(stop), int(strand)) for m in models]
        alive = [m for m, e in zip(models, errs) if e is None]
        if not alive:
            s.fail(f"{tag}/parent_coordinates", f"{pc}: {errs[0]}")
        else:
            models = alive
        ok, off = s.call(f"{tag}/annotation_offset", lambda: int(v.annotation_offset))
        if ok and alive and alive[0].idx:
            s.check(off == int(start), f"{tag}/annotation_offset", f"annotation_offset {off} != parent start {start}")
    return models, snap


def unchanged(s: Soft, v, snap, sig):
    """the receiver of an operation must display what it displayed before"""
    if snap[0] is not None:
        ok, now = s.call(sig, str, v)
        if ok:
            s.eq(now, snap[0], sig, "str(receiver) after the operation")
    if snap[1] is not None:
        ok, pc = s.call(sig, v.parent_coordinates)
        if ok:
            seqid, start, stop, strand = pc
            s.eq((seqid, int(start), int(stop), int(strand)), snap[1], sig, "receiver.parent_coordinates() after the operation")


def impl_prefix(case):
    impl = case["impl"]
    if impl == "new-coll":
        # circumstance tags of confirmed defects (see ASSUMPTIONS)
        if case["mt"] == "bytes":
            return "new-coll@bytes/"
        if case["offset"]:
            return "new-coll@offset/"
    return impl + "/"


def run_chain(s: Soft, case):
    """returns (view, models) or (None, None) when the chain ended in a
    documented exception or in a failed step"""
    impl, mt = case["impl"], case["mt"]
    pre = impl_prefix(case)
    ok, built = s.call(pre + "construct", build, case)
    if not ok:
        return None, None
    v, ctx = built
    models = setup_models(case)
    first = "fresh"
    if "ctor" in case:
        first = "ctor"
        s.cls("route:SeqView-constructor")
        step = case["ctor"][2]
        if step is not None and step < 0:
            s.cls("route:SeqView-constructor-reversed")
    elif case.get("set_offset"):
        first = "set-offset"
        s.cls("route:offset-setter")
    elif impl == "new-coll":
        route = case["coll"]["route"]
        first = "get_seq-routed" if route else "get_seq"
        for r in route:
            s.cls(f"route:coll-{r}")
        if case["offset"]:
            s.cls("route:offset-setter")
    models, snap = observe(s, v, models, pre + first, impl)
    if s.failures:
        return None, None
    cur_mt = models[0].mt
    negs = 0
    history = []
    for op in case["ops"]:
        kind = op[0]
        if kind == "slice":
            a, b, st_ = op[1], op[2], op[3]
            ok, v2 = s.call(pre + "slice", lambda: v[a:b:st_])
            if not ok:
                return None, None
            for m in models:
                m.slice(a, b, st_)
            rev = st_ is not None and st_ < 0
            negs += rev
            history.append(("r" if rev else "f") + ("s" if abs(st_ or 1) > 1 else ""))
            tag = "slice-rev" if rev else "slice-fwd"
        elif kind == "index":
            i = op[1]
            n = len(models[0].idx)
            if -n <= i < n:
                ok, v2 = s.call(pre + "index", lambda: v[i])
                if not ok:
                    return None, None
                for m in models:
                    m.index(i)
                tag = "index"
                history.append("i")
            else:
                try:
                    v[i]
                    s.fail(pre + "index/out-of-range-accepted", f"view of length {n} accepted index {i}")
                except IndexError:
                    s.cls("index-out-of-range")
                except Exception as e:  # noqa: BLE001
                    s.fail(pre + f"index/out-of-range-raises:{type(e).__name__}", str(e))
                return None, None
        elif kind == "rc":
            ok, v2 = s.call(pre + "rc", v.rc)
            if not ok:
                return None, None
            for m in models:
                m.rc()
            negs += 1
            tag = "rc"
            history.append("r")
        elif kind in ("to_rna", "to_dna"):
            to = kind[3:]
            ok, v2 = s.call(pre + kind, getattr(v, kind))
            if not ok:
                return None, None
            if to != cur_mt:
                models = [m.convert(to) for m in models[:1]] + [m.convert_keep(to) for m in models]
                cur_mt = to
                s.cls("convert-after-rev" if negs else "convert")
            tag = kind
            history.append("c")
        else:
            tag = "copy"
            if impl == "new-coll" and snap[1] is not None and snap[1][1] != 0 and pre == "new-coll/":
                tag = "copy@coll-slice"  # circumstance of a confirmed defect
            ok, v2 = s.call(pre + tag, v.copy)
            if not ok:
                return None, None
            history.append("p")
        unchanged(s, v, snap, pre + tag + "/receiver-changed")
        v = v2
        models, snap = observe(s, v, models, pre + tag, impl)
        if s.failures:
            return None, None
    if ctx is not None:
        coll, name, cur = ctx
        ok, again = s.call(pre + "collection-changed", lambda: str(coll.get_seq(name)))
        if ok:
            s.eq(again, cur, pre + "collection-changed", "str(coll.get_seq(name)) after the chain")
    # coverage classes
    dirs = [h[0] for h in history if h[0] in "fr"]
    for x, y in zip(dirs, dirs[1:]):
        s.cls(f"compose:{x}{y}")
    if any(h.endswith("s") for h in history):
        s.cls("strided")
    if case["offset"]:
        s.cls("offset")
    s.cls(impl, mt)
    s.nontrivial = len(case["ops"]) >= 2 and negs > 0 and len(models[0].idx) > 0
    if s.failures:
        return None, None
    return v, models


def exec_chain(case) -> Soft:
    s = Soft("C01/")
    run_chain(s, case)
    return s


def make_other(s: Soft, case, cur_mt, impl, pre, name="o"):
    """second sequence (a view when other_ops is non-empty) with its model
    string and a fresh sequence built from that string"""
    from cogent3 import make_seq

    kw = _kw(cur_mt, impl)
    new_type = impl != "old"
    parent = case.get("other", "")
    m = Model(parent, cur_mt, 0, name)

    def mk():
        o = make_seq(parent, name=name, moltype=cur_mt, new_type=new_type, **kw)
        for op in case.get("other_ops", []):
            if op[0] == "rc":
                o = o.rc()
            else:
                o = o[op[1] : op[2] : op[3]]
        return o

    for op in case.get("other_ops", []):
        if op[0] == "rc":
            m.rc()
        else:
            m.slice(op[1], op[2], op[3])
    want = m.string()
    ok, other_v = s.call(pre + "other", mk)
    if not ok:
        return None
    ok, got = s.call(pre + "other/str", str, other_v)
    if not ok or not s.eq(got, want, pre + "other/str", "str(second sequence)"):
        return None
    ok, other_fresh = s.call(pre + "other-fresh", lambda: make_seq(want, name=name, moltype=cur_mt, new_type=new_type, **kw))
    if not ok:
        return None
    if case.get("other_ops"):
        s.cls("other-is-view")
    return other_v, other_fresh, want


# --------------------------------------------------- method differential
EXCLUDE = {
    # random
    "shuffle",
    # plotting / display
    "to_html", "get_drawable", "get_drawables", "set_repr_policy",
    # annotations: C04
    "get_features", "add_feature", "make_feature", "annotate_from_gff", "annotate_matches_to", "copy_annotations",
    "with_masked_annotations", "replace_annotation_db", "is_annotated", "annotation_db", "annotation_offset",
    # serialisation: C10 (exports view coordinates, which legitimately differ from a fresh object)
    "to_rich_dict", "to_json", "from_rich_dict",
    # coordinates themselves are checked against the model
    "parent_coordinates",
    # need a map argument (C08/C03)
    "gapped_by_map", "gapped_by_map_motif_iter", "gapped_by_map_segment_iter",
    # returns a statistical test object
    "strand_symmetry",
    # attributes
    "info", "name", "moltype", "codon_alphabet", "line_wrap",
}


def norm(x, depth=0):
    from cogent3.core import new_sequence, sequence

    if depth > 6:
        return repr(x)
    if isinstance(x, (sequence.Sequence, new_sequence.Sequence)):
        return ("seq", str(x), x.moltype.label, x.name)
    if isinstance(x, (str, bytes, int, bool, type(None))):
        return x
    if isinstance(x, float):
        return "nan" if math.isnan(x) else x
    if isinstance(x, numpy.generic):
        return norm(x.item(), depth + 1)
    if isinstance(x, numpy.ndarray):
        return ("array", norm(x.tolist(), depth + 1))
    if isinstance(x, dict):
        return ("dict", sorted((repr(norm(k, depth + 1)), norm(v, depth + 1)) for k, v in x.items()))
    if isinstance(x, (list, tuple)):
        return [norm(y, depth + 1) for y in x]
    if isinstance(x, (set, frozenset)):
        return ("set", sorted(repr(norm(y, depth + 1)) for y in x))
    if inspect.isgenerator(x) or hasattr(x, "__next__"):
        return [norm(y, depth + 1) for y in x]
    if hasattr(x, "to_dict"):
        try:
            return ("to_dict", norm(x.to_dict(), depth + 1))
        except Exception:  # noqa: BLE001
            pass
    if hasattr(x, "gap_pos") and hasattr(x, "cum_gap_lengths"):
        return ("indelmap", x.gap_pos.tolist(), x.cum_gap_lengths.tolist(), int(x.parent_length))
    return ("repr", type(x).__name__, repr(x))


def pair_tables(a: str, b: str):
    """deterministic similar_pairs dict and score matrix over the symbols of
    the two strings"""
    chars = sorted(set(a) | set(b))
    pairs = {(x, y): 1 for x in chars for y in chars if (ord(x) * 3 + ord(y)) % 4 < 2}
    matrix = {x: {y: (ord(x) * 7 + ord(y) * 13) % 11 for y in chars} for x in chars}
    return pairs, matrix


def documented_values(a: str, b: str, pairs, matrix):
    """documented value of the two-sequence methods on plain strings
    (truncation at the shorter sequence, 0 when one is empty)"""
    z = list(zip(a, b))
    k = min(len(a), len(b))
    return {
        "frac_same": sum(x == y for x, y in z) / k if k else 0,
        "frac_diff": sum(x != y for x, y in z) / k if k else 0,
        "diff": sum(x != y for x, y in z),
        "distance": sum(x != y for x, y in z),
        "frac_similar": sum((x, y) in pairs for x, y in z) / k if k else 0,
        "matrix_distance": sum(matrix[x][y] for x, y in z),
    }


def method_table(v, mt):
    """name -> list of (args, kwargs) to call with"""
    n = len(v)
    first = str(v)[0] if n else "A"
    t = {
        "count": [((first,), {})],
        "counts": [((), {}), ((), {"motif_length": 2}), ((), {"include_ambiguity": True, "allow_gap": True})],
        "iter_kmers": [((2,), {"strict": False}), ((3,), {})],
        "get_kmers": [((2,), {"strict": False}), ((1,), {})],
        "sliding_windows": [((3, 2), {})],
        "get_in_motif_size": [((), {"motif_length": 3}), ((), {"motif_length": 2})],
        "disambiguate": [((), {"method": "strip"})],
        "mw": [((), {"method": "strip"}), ((), {"method": "first"})],
        "replace": [((first, "-"), {})] if mt not in ("text", "bytes") else [((first, "b"), {})],
        "to_moltype": [(({"dna": "rna", "rna": "dna"}.get(mt, mt),), {})],
        "to_fasta": [((), {}), ((), {"block_size": 7})],
        "to_phylip": [((), {})],
        "is_gap": [((), {}), ((first,), {})],
        "get_translation": [((), {"incomplete_ok": True}), ((), {"incomplete_ok": True, "include_stop": True})],
        "trim_stop_codon": [((), {}), ((), {"strict": True})],
        "has_terminal_stop": [((), {}), ((), {"strict": True})],
        "possibilities": [((), {})],
        "frac_similar": [(("OTHER", "PAIRS"), {})],
        "matrix_distance": [(("OTHER", "MATRIX"), {})],
    }
    for name in (
        "can_match", "can_mismatch", "must_match", "can_pair", "can_mispair", "must_pair", "diff", "distance",
        "frac_same", "frac_diff", "frac_same_gaps", "frac_diff_gaps", "frac_same_non_gaps", "frac_diff_non_gaps",
    ):
        t[name] = [(("OTHER",), {})]
    return t


def exec_methods(case) -> Soft:
    from cogent3 import make_seq

    s = Soft("C01/")
    v, models = run_chain(s, case)
    if v is None:
        return s
    impl = case["impl"]
    pre = impl_prefix(case)
    cur_mt = models[0].mt
    want = models[0].string()
    kw = _kw(cur_mt, impl)
    ok, fresh = s.call(pre + "methods/fresh", lambda: make_seq(want, name=models[0].name, moltype=cur_mt, new_type=impl != "old", **kw))
    if not ok:
        return s
    made = make_other(s, case, cur_mt, impl, pre + "methods/")
    if made is None:
        return s
    other_v, other_fresh, other_want = made
    pairs, matrix = pair_tables(want, other_want)
    documented = documented_values(want, other_want, pairs, matrix)
    table = method_table(v, cur_mt)
    names = [n for n in dir(type(v)) if not n.startswith("_") and n not in EXCLUDE]
    if impl == "new-coll" and v.parent_coordinates()[1] != 0:
        # circumstance of a confirmed defect, reported by the chains under copy@coll-slice: copy() would
        # change the view and every later method would repeat that root cause under its own signature
        names.remove("copy")
        s.cls("skipped:copy@coll-slice")
    called = 0
    for name in names:
        attr = inspect.getattr_static(type(v), name, None)
        if isinstance(attr, property) or not callable(getattr(v, name, None)):
            continue
        if name in table:
            calls = table[name]
        else:
            try:
                sig = inspect.signature(getattr(v, name))
                required = [p for p in sig.parameters.values() if p.default is p.empty and p.kind in (p.POSITIONAL_ONLY, p.POSITIONAL_OR_KEYWORD)]
            except (TypeError, ValueError):
                required = [1]
            if required:
                s.cls(f"uncovered-method:{name}")
                continue
            calls = [((), {})]
        for args, kwargs in calls:
            res = []
            raw = None
            for obj, oth in ((v, other_v), (fresh, other_fresh)):
                a2 = tuple({"OTHER": oth, "PAIRS": pairs, "MATRIX": matrix}.get(a, a) if isinstance(a, str) else a for a in args)
                try:
                    r = getattr(obj, name)(*a2, **kwargs)
                    if obj is v:
                        raw = r
                    res.append(("ok", norm(r)))
                except Exception as e:  # noqa: BLE001
                    res.append(("raises", type(e).__name__))
            called += 1
            if res[0] != res[1]:
                s.fail(
                    f"{pre}method:{name}",
                    f"{name}{args}{kwargs} on view {str(v)!r} (history {case['ops']}, parent {case['parent']!r}, other {other_want!r}): view -> {res[0]!r}; fresh -> {res[1]!r}",
                )
            elif res[0][0] == "raises":
                # agreement that says nothing about the view
                s.cls(f"both-raise:{name}")
            else:
                s.cls(f"answered:{name}")
                if name in documented and "OTHER" in args:
                    s.close(raw, documented[name], f"{pre}method-documented:{name}", f"{name} of {want!r} and {other_want!r}", rtol=1e-12)
        # a read-only method leaves the receiver as it was
        ok, now = s.call(f"{pre}method-changes-receiver:{name}", str, v)
        if not ok or not s.eq(now, want, f"{pre}method-changes-receiver:{name}", f"str(view) after {name}"):
            break
    s.evals = max(1, called)
    s.cls("methods")
    return s


# ------------------------------------------------------------ dunder probes
def exec_dunders(case) -> Soft:
    from cogent3 import make_seq

    s = Soft("C01/")
    v, models = run_chain(s, case)
    if v is None:
        return s
    impl = case["impl"]
    pre = impl_prefix(case) + "dunder/"
    cur_mt = models[0].mt
    want = models[0].string()
    kw = _kw(cur_mt, impl)
    ok, fresh = s.call(pre + "fresh", lambda: make_seq(want, name=models[0].name, moltype=cur_mt, new_type=impl != "old", **kw))
    if not ok:
        return s
    oname = models[0].name if case.get("other_same_name") else "o"
    made = make_other(s, case, cur_mt, impl, pre, name=oname)
    if made is None:
        return s
    other_v, other_fresh, other_want = made
    probes = 0
    # circumstance of a confirmed defect: new-style Sequence.to_moltype keeps the class of its receiver
    # (DnaSequence with an RNA moltype), which repr() and the name given by + expose
    conv = "@converted" if (impl != "old" and ("convert" in s.classes or "convert-after-rev" in s.classes)) else ""

    def probe(sig, fn, expect, what):
        nonlocal probes
        probes += 1
        ok, got = s.call(pre + sig, fn)
        if ok:
            s.eq(got, expect, pre + sig, what)

    # comparisons: "compares based on the sequence string"
    probe("eq", lambda: v == other_v, want == other_want, f"{want!r} == {other_want!r}")
    probe("ne", lambda: v != other_v, want != other_want, f"{want!r} != {other_want!r}")
    probe("eq", lambda: other_v == v, want == other_want, f"{other_want!r} == {want!r}")
    probe("eq-fresh", lambda: v == fresh, True, f"view {want!r} == fresh sequence")
    probe("ne-fresh", lambda: v != fresh, False, f"view {want!r} != fresh sequence")
    probe("eq-str", lambda: v == want, True, f"view == its own string {want!r}")
    probe("eq-str", lambda: v == other_want, want == other_want, f"view {want!r} == str {other_want!r}")
    probe("lt", lambda: v < other_v, want < other_want, f"{want!r} < {other_want!r}")
    probe("lt", lambda: other_v < v, other_want < want, f"{other_want!r} < {want!r}")
    s.cls("dunder:equal-pair" if want == other_want else "dunder:unequal-pair")
    # hash: "behaves like the sequence string for dict lookup", consistent with ==
    probe("hash", lambda: hash(v) == hash(want), True, f"hash(view) == hash({want!r})")
    probe("hash-eq-consistent", lambda: hash(v) == hash(fresh), True, "view == fresh but their hashes differ")
    probe("hash-lookup", lambda: {want: 1}.get(v), 1, "dict lookup of a string key with the view")
    # containment: "checks whether other is in the sequence string"
    i, j = case.get("sub", [0, 0])
    for sub in (want[i:j], case.get("probe", ""), other_want[:2]):
        probe("contains", lambda: sub in v, sub in want, f"{sub!r} in {want!r}")
        s.cls("dunder:contains-true" if sub in want else "dunder:contains-false")
    # concatenation: "Adds two sequences (other can be a string as well)"
    for tag, oth, oth_fresh, oth_want in (("add-seq", other_v, other_fresh, other_want), ("add-str", other_want, other_want, other_want)):
        ok, got = s.call(pre + tag, lambda: v + oth)
        ok2, ref = s.call(pre + tag + "-fresh", lambda: fresh + oth_fresh)
        probes += 1
        if ok and ok2:
            if not (impl == "old" and cur_mt == "text"):
                s.eq(str(got), want + oth_want, pre + tag, f"{want!r} + {oth_want!r}")
            s.eq(norm(got), norm(ref), pre + tag + "-vs-fresh" + conv, f"view + other vs fresh + other ({want!r} + {oth_want!r})")
    ok, got = s.call(pre + "radd-view", lambda: other_fresh + v)
    if ok and not (impl == "old" and cur_mt == "text"):
        probes += 1
        s.eq(str(got), other_want + want, pre + "radd-view", f"fresh {other_want!r} + view {want!r}")
    # array / bytes / repr: no documented value, compared with the fresh sequence
    for tag, fn in (("array", lambda x: numpy.array(x).tolist()), ("repr", repr)) + ((("bytes", bytes),) if impl != "old" else ()):
        res = []
        for obj in (v, fresh):
            try:
                res.append(("ok", fn(obj)))
            except Exception as e:  # noqa: BLE001
                res.append(("raises", type(e).__name__))
        probes += 1
        if res[0] != res[1]:
            s.fail(pre + tag + (conv if tag == "repr" else ""), f"{tag} of view {want!r}: {res[0]!r}; of fresh: {res[1]!r}")
        elif res[0][0] == "raises":
            s.cls(f"both-raise:__{tag}__")
        else:
            s.cls(f"answered:__{tag}__")
    ok, now = s.call(pre + "changes-receiver", str, v)
    if ok:
        s.eq(now, want, pre + "changes-receiver", "str(view) after the dunder probes")
    s.evals = max(1, probes)
    s.cls("dunders")
    return s


SUBS = [
    Sub("chains", exec_chain, strategy=chain_cases(), quick=12000, thorough=1_280_000, shards_quick=16),
    Sub("chains_long", exec_chain, strategy=chain_cases(max_len=200, max_depth=9), quick=1600, thorough=160_000, shards_quick=16),
    Sub("methods", exec_methods, strategy=chain_cases(max_len=24, max_depth=4, methods=True), quick=1600, thorough=160_000, shards_quick=16),
    Sub("dunders", exec_dunders, strategy=chain_cases(max_len=24, max_depth=4, dunders=True), quick=2400, thorough=240_000, shards_quick=16),
]

KNOWN_PREDICATES = {}

# thorough tier: coverage-guided campaigns (atheris/libFuzzer mutating the bytes Hypothesis draws from)
FUZZ = {
    "subs": ['chains', 'chains_long', 'methods', 'dunders'],
    "targets": ['cogent3.core.sequence', 'cogent3.core.new_sequence', 'cogent3.core.new_alignment'],
    "execs_thorough": 40_000, "jobs_thorough": 4, "execs_quick": 1000, "jobs_quick": 2,
}

META = {
    "technique": "Hypothesis-generated operation chains against a Python-string model carrying displayed parent indices; method differential view vs fresh sequence; documented-value and dunder probes on strings",
    "level_text": "Thousands of generated slice/rc/convert/copy chains per run on three sequence implementations (old-style, new-style, new-style backed by a collection's SeqDataView after rc/take_seqs/rename_seqs/add_seqs/to_rna routes), six moltypes, construction by string, by SeqView(seq,start,stop,step,offset,seqid) with arbitrary arguments or with the offset assigned afterwards; all observers compared with a string model after every step, parent coordinates checked by re-reading the parent, the receiver of every step re-read, every public read-only method compared between the view and a freshly built sequence (second argument itself a view), two-sequence methods and dunders compared with their documented value on strings. Exploration: chain depth and lengths are bounded (7 ops/40 symbols quick, 9/200 for the long sub-check).",
    "level_note": "Trusts the harness' string model and IUPAC complement table. Excluded methods (random, plotting, annotation, serialisation) are listed in EXCLUDE and covered by C04/C10. Calls on which view and fresh sequence both raise are reported as coverage classes both-raise:<method>, not as evidence for the view.",
    "design_ref": "DESIGN.md section 1, C01",
}
