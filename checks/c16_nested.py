"""C16 — nested-model initialisation and optimisation never lose likelihood.

Oracles
-------
* ``init`` / ``init-codon``: the property's own relation (``alt.lnL`` right after
  ``alt.initialise_from_nested(null)`` equals ``null.lnL``; motif probabilities and
  branch lengths are carried over) **and**, for nucleotide models, an independent
  reference: the null's rate matrices are rebuilt here from a table of rate-matrix
  cells written in this module (not read from cogent3), exponentiated with
  ``scipy.linalg.expm`` and pushed through a plain Felsenstein pruning loop.
  ``alt.lnL`` must equal that number too.
* ``optimise``: ``lnL`` after ``lf.optimise(...)`` is not below ``lnL`` before, every
  reported parameter lies inside the bounds the *case* declared, and ``lf.lnL``
  equals the reference likelihood evaluated at the reported parameter values (so a
  stale calculator / parameter-controller mismatch shows).
* ``app``: ``hypothesis`` / ``model_collection`` apps, null -> alt (-> alt2), every
  model with its own evaluation limit and optimiser (Powell, annealing, both): LR >= 0,
  lnL non-decreasing along the chain, fitted values inside the declared box.
* ``init-dinuc``: dinucleotide word models with ``mprob_model`` monomer / tuple / conditional inside the general
  non-reversible dinucleotide model (or a richer reversible one): same relation, plus an independent 16-state reference
  likelihood written here (motif-probability term of a cell per ``mprob_model``, expm, pruning).
* ``app-codon``: ``hypothesis`` / ``model_collection`` over MG94HKY (-> MG94GTR) -> GNC with small evaluation limits: LR >= 0,
  lnL non-decreasing, bounds, and the fitted GNC re-initialised from the fitted reversible model by a direct call.
* ``natsel``: the library's own nested-hypothesis apps (``natsel_neutral``,
  ``natsel_timehet``, ``natsel_sitehet``, ``natsel_zhang``) on small codon alignments:
  hypothesis_result returned, degrees of freedom as documented, LR >= 0, fitted values
  inside the bounds the app declares, and (neutral / timehet) the app's alt
  re-initialised from the app's fitted null by a direct, unguarded
  ``initialise_from_nested`` call reproduces the null's likelihood.
"""

from __future__ import annotations

import math
import warnings

from hypothesis import strategies as st

from vlib.core import HarnessError, Soft, Sub

PROPERTY_ID = "C16"
LEVEL = "exploration"
RULE = (
    "init: a case is a nested pair (null, alt) of nucleotide models on a 3-5 tip tree with a generated DNA alignment "
    "(12-120 columns, skewed composition, gaps and N). Pairs are nested by rate-matrix structure (chains among JC69, K80, "
    "F81, HKY85, TN93, GTR, ssGN, GN; user predicate models whose alt predicates refine the null's partition of the six "
    "exchangeabilities; alt = null + one extra predicate), by scoping or both. Scoping of the null: one parameter with a second value on "
    "an edge subset S, or every (not excluded) parameter through set_time_heterogeneity(edge_sets=[S]); lengths all equal, or 1-2 groups of "
    "edges sharing a length (set_local_clock on sibling tips, or any edge group). Scoping of the alt: a parameter independent per edge / shared on an edge "
    "subset / independent on a subset / a strict refinement of the null's partition {S, rest} into up to 4 groups (each shared or independent, the last one "
    "possibly left implicit), the same through set_time_heterogeneity(edge_sets=...) for all parameters (with exclude_params), or the maximally heterogeneous form; "
    "length groups that refine the null's. About 30 % of the nulls with rate parameters hold one or more of them constant (unscoped rule, value at least a factor 2 from 1). "
    "Null parameters are random inside their bounds (rates 0.05-20, lengths 1e-3-2, random or data motif probs). "
    "Non-trivial = alt has at least 2 more free parameters than the null and the null's motif probabilities are unequal. "
    "init-codon: the same relation on codon pairs (MG94HKY/MG94GTR, CNFHKY/CNFGTR, GY94 or Y98 / H04G, Y98 / H04GK, H04G / H04GGK, or one of 9 codon models, GNC included, against itself) "
    "on 3-5 tip trees, 8-16 codons, random or data motif probabilities; the null's omega is free, constant at 1.0 (the canonical neutral null), constant at another value, "
    "two-valued on an edge subset or constant 1.0 on an edge subset; the alt's omega or kappa is global, per edge, shared on a subset or refines the null's partition. "
    "Reversible codon nulls inside the non-reversible GNC: MG94HKY / MG94GTR (any monomer probabilities, random or from the data) and Y98 / GY94 (61 equal probabilities) -> GNC with free codon probabilities, "
    "GNC's omega or a directed rate (A>G, C>A) global, per edge, shared on a subset or refining the null's omega partition; GNC against itself. "
    "init-dinuc: TimeReversibleDinucleotide nulls (no predicate, kappa, or the five GTR exchangeabilities; mprob_model monomer / tuple / conditional) on 3-5 tip trees, 6-20 dinucleotide columns of A C G T, "
    "random rates and lengths, inside NonReversibleDinucleotide with the 11 directed rates (monomer: random or data probabilities; tuple / conditional: 16 equal probabilities; alt mprob_model tuple or default) "
    "or inside the reversible GTR-like dinucleotide model with the same mprob_model (random probabilities), one alt rate optionally per edge or shared on a subset; null and alt likelihood also compared with a 16-state reference. "
    "app-codon: chains MG94HKY -> GNC, MG94GTR -> GNC, MG94HKY -> MG94GTR (-> GNC) through hypothesis / model_collection on 8-16 codons, per-model max_evaluations 1 / 5 / 25, the null's omega free or constant 1.0. "
    "optimise: a case is a nucleotide model (optionally with a per-edge parameter), tree, alignment, start values inside "
    "case-declared bounds (default or tight) and optimiser settings (local Powell / global annealing then local / global only, "
    "max_evaluations 1-30, 50, 100, 400 or 3000, tolerance, global_tolerance, max_restarts, limit_action, annealer seed). Non-trivial = the run "
    "reached its evaluation limit. app: a chain of 2-3 nested models fitted through the hypothesis / model_collection apps "
    "with per-model max_evaluations 1-100 and optimiser (Powell / annealing+Powell / annealing), the null optionally with constant rate parameters (param_rules), the last model optionally "
    "time-heterogeneous ('max' or one edge set, shared or independent); non-trivial = at least 2 degrees of freedom. "
    "natsel: one of natsel_neutral / natsel_timehet / natsel_sitehet / natsel_zhang with one of 6 codon models on a 3-5 tip tree (or no tree for 3 taxa), "
    "8-20 codons (sense codons and '---'), foreground = one tip, a sibling pair, its stem or both, is_independent, upper_omega 2-50, data or free motif probabilities, "
    "max_evaluations 1-30 with limit_action='ignore', Powell mostly, annealing sometimes; non-trivial = alt richer and more than one evaluation allowed. Distinct = distinct case encodings."
)
ASSUMPTIONS = [
    "pairs are nested for every motif-probability vector of the null: GTR (or any reversible model with unequal pi) inside ssGN is excluded; JC69/K80 (uniform pi) inside ssGN is included",
    "the alt has strictly more free parameters than the null (the API asserts it): the alt's motif probabilities are free whenever the null's are free or the null is a uniform-pi model and the alt is not; cases that are not richer by get_num_free_params() are classed 'not-richer' and not compared",
    "alt likelihood functions are freshly constructed (rate parameters at their default 1.0) before initialise_from_nested",
    "user predicate models: the alt's reference (parameter-free) exchangeabilities are a subset of the null's reference exchangeabilities",
    "when the null carries parameters with two values (edge subset S vs rest; one parameter, or all through set_time_heterogeneity), the alt is scoped either not at all, fully independent per edge, shared on the same edge subset, "
    "or by groups that refine {S, rest}: every explicit group and the implicit remainder lie inside S or inside the rest (a group across the two is not nested; the library rejects it with 'too many mappings')",
    "values of a scoped null are set with set_param_rule(p, edges=..., is_independent=False, init=v): without is_independent=False the call unties the edges again (observed, by design of set_param_rule)",
    "set_local_clock only for sibling tips below a named internal edge (its docstring: 'only valid for tips connected to the same node'; with the root as that node the clade is the whole tree); "
    "alt length groups are the null's groups, subsets of them, or anything when all null lengths are equal; none when the null's lengths are free",
    "constant null rate parameters are set through one unscoped rule (is_constant=True, value v with |log10 v| >= 0.3) and are never the null's two-valued parameter; in the app sub-check only the first model of a chain holds constants (param_rules), values 0.12-11 inside the default box",
    "one bin, one locus (initialise_from_nested raises NotImplementedError otherwise, as its source states)",
    "alignment symbols are A C G T, '-' and N only (gap and N fully ambiguous); codon alignments hold sense codons and '---'",
    "|alt.lnL - null.lnL| <= 1e-6 (absolute) after initialisation; motif probs / lengths equal to 1e-9; reference lnL agrees to 1e-7 * max(1,|lnL|)",
    "optimise: lnL_after >= lnL_before - 1e-9*max(1,|lnL|); values within declared bounds with slack 1e-9*max(1,|bound|); start values lie inside the bounds; the annealer always gets an explicit seed",
    "optimise: max_evaluations is always given (<= 3000); limit_action='raise' may raise the documented ArithmeticError, after which the same clauses are checked",
    "app: limit_action='ignore'; Powell, annealing + Powell or annealing alone (explicit seed); fitted rates and lengths must lie in the box the model app was given, constants at their value; app default bounds 1e-6..50; from the first reversible -> non-reversible step of a chain on, the models get lower=1e-12, upper=1e9 "
    "(with equal boxes the projected null value * pi_j / pi_ref can fall outside the alt's box, where it is clipped: the bounded alt then does not contain the null, so the pair is not nested); LR >= -1e-6",
    "optimise: the reported parameters are compared with the reference likelihood only when every reported motif probability exceeds 1e-5 (get_motif_probs lifts smaller values to its 1e-6 floor by design)",
    "the codon sub-check has no independent reference likelihood (relation between null and alt only); a null omega constant at 1.0 equals the fresh alt's default, so dropping it would go unseen: constants 0.2 / 0.5 / 3.0 and edge-subset constants are generated as well",
    "reversible codon models inside GNC: MG94HKY / MG94GTR have rate = pi(new nucleotide) x exchangeability x omega, contained in GNC's directed rates x omega for every monomer vector, provided GNC's 61 codon probabilities "
    "(used at the root only) are free so that they can take the products of the monomer probabilities (every codon model of this check is built with optimise_motif_probs=True); Y98 / GY94 have rate = pi(new codon) x kappa x omega, "
    "contained in GNC only when the 61 probabilities are equal (the generator sets them equal; with data or random probabilities the pair is out of the domain); CNFHKY / CNFGTR are never inside GNC "
    "(pi(codon) / pi(context) differs between contexts next to stop codons even for equal probabilities)",
    "motif probabilities carried over: when the null's are monomer probabilities and the alt's are word probabilities, the alt must hold their products normalised over the alt's motifs",
    "dinucleotide models: same containment argument without stop codons: monomer nulls lie inside the general non-reversible model for every monomer vector, tuple and conditional nulls only for 16 equal probabilities "
    "(conditional then has the constant term 1/4); mprob_model='monomers' (position-specific) is not nested in a model with position-independent directed rates and is not generated; dinucleotide alignments hold A C G T only and an even number of columns",
    "the 16-state reference normalises Q by sum_i wordprob_i * rowsum_i and takes the word probabilities as root distribution (as the library documents for word models); null.lnL must agree with it to 1e-7 relative, otherwise the harness model is wrong",
    "app-codon: from GNC on the model apps get lower=1e-12, upper=1e9 (same reason as for nucleotide chains); LR >= -1e-6; the direct initialise_from_nested call is made on the fitted GNC only for the step reversible -> GNC, "
    "where every GNC rate (from a null parameter or from the null's reference cells) and the codon probabilities get a value from the null; for MG94HKY -> MG94GTR the exchangeabilities on the null's reference cells would keep their fitted values, so no direct call there; its lnL clause is skipped when a fitted monomer probability of the null is reported at the 1e-6 floor",
    "init-codon / init-dinuc: motif probabilities are compared (and the dinucleotide reference computed) only when every probability the null reports exceeds 1e-5 (a nucleotide or codon absent from the data is reported at get_motif_probs' 1e-6 floor, not at the value in use); the lnL relation is checked regardless",
    "codon substitution models are built once per process and deep-copied per case (construction takes 1-2.5 s)",
    "natsel: alignments hold sense codons of the standard code and '---' only and tip names come from the tree, so no documented NotCompleted reason applies: any NotCompleted is reported",
    "natsel: degrees of freedom as the app docstrings describe the alternates and tests/test_app/test_evo.py pins: neutral 1, sitehet 2, zhang 3, timehet 1 or (is_independent) the number of foreground edges; "
    "foreground = tip1 alone, or for sibling tips below a named internal edge the two tips (clade), that edge (stem) or both; without a tree the two named tips",
    "natsel bounds are those the app source declares: box 1e-6..50 for rates and lengths; neutral null omega = 1; timehet foreground omega <= upper_omega; sitehet / zhang class omegas <= 1-1e-6, = 1, "
    "in [1, upper_omega] on the foreground, and zhang's 2a / 2b background omegas equal to those of classes 0 / 1",
    "natsel_neutral / natsel_timehet: LR >= -1e-6. natsel_sitehet / natsel_zhang start the alt next to the null, not on it (every class probability lowered by epsilon = 1e-6, new classes with probability epsilon "
    "and omega 1 + epsilon; initialise_from_nested is not used, it raises NotImplementedError for more than one bin): LR >= -(1e-6 + 4 * codons * epsilon * sum_b 1/p_b) with p_b the null's fitted class probabilities",
    "natsel: the direct initialise_from_nested call is made on the app's fitted alt (every parameter of these alternates has a source in the null, so stale values cannot survive); |alt.lnL - null.lnL| <= 1e-6",
    "natsel_timehet with the null's fitted omega above upper_omega gets its own signature suffix (null-omega-above-upper_omega): the app bounds omega by upper_omega on the foreground of the alt only, "
    "so that null lies outside the alt (confirmed defect, see C16_ext_findings.md)",
]

BASES = "TCAG"  # cogent3's DNA order; the reference only needs a fixed order
IDX = {b: i for i, b in enumerate(BASES)}
PAIRS6 = ["AC", "AG", "AT", "CG", "CT", "GT"]
# get_motif_probs() lifts probabilities to just above 1e-6 on the way out (a comment in its source says so), so below this
# value the reported vector is not the one the likelihood was computed with
PI_FLOOR = 1e-5
# the app's default box (1e-6..50) is kept while parameter values are copied verbatim; from the first reversible ->
# non-reversible step on the box is widened so that the projected null (value * pi_j / pi_ref) lies inside it
WIDE_BOUNDS = (1e-12, 1e9)

# ----------------------------------------------------------------------- trees
# newick with explicit internal names (cogent3 would assign the same ones), nested model [name, children]
TREES = {
    "t3": ("(a,b,c)root;", ["root", [["a", []], ["b", []], ["c", []]]]),
    "t4": ("((a,b)edge.0,c,d)root;", ["root", [["edge.0", [["a", []], ["b", []]]], ["c", []], ["d", []]]]),
    "t4r": ("((a,b)edge.0,(c,d)edge.1)root;", ["root", [["edge.0", [["a", []], ["b", []]]], ["edge.1", [["c", []], ["d", []]]]]]),
    "t5": ("((a,b)edge.0,c,(d,e)edge.1)root;", ["root", [["edge.0", [["a", []], ["b", []]]], ["c", []], ["edge.1", [["d", []], ["e", []]]]]]),
    "t5c": ("(((a,b)edge.0,c)edge.1,d,e)root;", ["root", [["edge.1", [["edge.0", [["a", []], ["b", []]]], ["c", []]]], ["d", []], ["e", []]]]),
}


def tree_edges(node):
    out = []
    for k in node[1]:
        out.append(k[0])
        out.extend(tree_edges(k))
    return out


def tree_tips(node):
    if not node[1]:
        return [node[0]]
    out = []
    for k in node[1]:
        out.extend(tree_tips(k))
    return out


# ---------------------------------------------------------- model cell tables
def _both(*pairs):
    out = set()
    for p in pairs:
        out.add((p[0], p[1]))
        out.add((p[1], p[0]))
    return out


def _cells_for(par: str):
    """directed cells (from, to) multiplied by the parameter; written from the published model definitions"""
    if par == "kappa":
        return _both("AG", "CT")
    if par == "kappa_r":
        return _both("AG")
    if par == "kappa_y":
        return _both("CT")
    if len(par) == 3 and par[1] == "/":
        return _both(par[0] + par[2])
    if len(par) == 3 and par[1] == ">":
        return {(par[0], par[2])}
    if par.startswith("(") and par.endswith(")"):
        out = set()
        for term in par[1:-1].split(" | "):
            out.add((term[0], term[2]))
        return out
    raise HarnessError(f"no cell table for parameter {par!r}")


NUC = {
    # name: (family, uniform motif probs, parameters)
    "JC69": ("tr", True, []),
    "K80": ("tr", True, ["kappa"]),
    "F81": ("tr", False, []),
    "HKY85": ("tr", False, ["kappa"]),
    "TN93": ("tr", False, ["kappa_r", "kappa_y"]),
    "GTR": ("tr", False, ["A/C", "A/G", "A/T", "C/G", "C/T"]),
    "ssGN": ("ns", False, ["(A>G | T>C)", "(A>T | T>A)", "(C>G | G>C)", "(C>T | G>A)", "(G>T | C>A)"]),
    "GN": ("ns", False, ["A>C", "A>G", "A>T", "C>A", "C>G", "C>T", "G>A", "G>C", "G>T", "T>A", "T>C"]),
}
TR_CHAIN = ["JC69", "K80", "F81", "HKY85", "TN93", "GTR"]
STRUCT_PAIRS = [
    ("JC69", "K80"), ("JC69", "F81"), ("JC69", "HKY85"), ("JC69", "TN93"), ("JC69", "GTR"),
    ("K80", "HKY85"), ("K80", "TN93"), ("K80", "GTR"),
    ("F81", "HKY85"), ("F81", "TN93"), ("F81", "GTR"),
    ("HKY85", "TN93"), ("HKY85", "GTR"), ("TN93", "GTR"),
    ("JC69", "GN"), ("K80", "GN"), ("F81", "GN"), ("HKY85", "GN"), ("TN93", "GN"), ("GTR", "GN"),
    ("JC69", "ssGN"), ("K80", "ssGN"), ("ssGN", "GN"),
]  # fmt: skip
# reversible null with rate parameters inside a non-reversible alt: projected values differ from the null's raw values
CROSS_PAIRS = [("HKY85", "GN"), ("TN93", "GN"), ("GTR", "GN"), ("K80", "GN"), ("K80", "ssGN"), ("HKY85", "GN"), ("GTR", "GN")]
SAME_PAIRS = [(m, m) for m in ["K80", "HKY85", "TN93", "GTR", "ssGN", "GN"]]
CHAINS3 = [
    ("JC69", "K80", "HKY85"), ("K80", "HKY85", "GTR"), ("F81", "HKY85", "TN93"), ("HKY85", "TN93", "GTR"),
    ("HKY85", "GTR", "GN"), ("JC69", "F81", "GTR"), ("K80", "ssGN", "GN"), ("F81", "GTR", "GN"), ("JC69", "HKY85", "GN"),
]  # fmt: skip


def model_params(mspec):
    if mspec["kind"] == "named":
        return list(NUC[mspec["name"]][2])
    return sorted(mspec["preds"])


def model_cells(mspec):
    """{parameter: set of directed cells}"""
    if mspec["kind"] == "named":
        return {p: _cells_for(p) for p in NUC[mspec["name"]][2]}
    return {p: _both(*pairs) for p, pairs in mspec["preds"].items()}


def model_family(mspec):
    return NUC[mspec["name"]][0] if mspec["kind"] == "named" else "tr"


def model_uniform(mspec):
    return NUC[mspec["name"]][1] if mspec["kind"] == "named" else False


# ------------------------------------------------------- reference likelihood
def ref_q(family, cells, rates, pi):
    import numpy

    q = numpy.zeros((4, 4))
    for a in BASES:
        for b in BASES:
            if a == b:
                continue
            r = 1.0
            for p, cs in cells.items():
                if (a, b) in cs:
                    r *= rates[p]
            q[IDX[a], IDX[b]] = r * (pi[IDX[b]] if family == "tr" else 1.0)
    for i in range(4):
        q[i, i] = -q[i].sum()
    scale = -sum(pi[i] * q[i, i] for i in range(4))
    return q / scale


def ref_lnl(tree_model, rows, family, cells, edge_rates, lengths, pi):
    """Felsenstein pruning; edge_rates {edge: {par: value}}, lengths {edge: value}, pi list in BASES order"""
    import numpy
    from scipy.linalg import expm

    psub = {}
    for e in lengths:
        psub[e] = expm(ref_q(family, cells, edge_rates[e], pi) * lengths[e])
    L = len(next(iter(rows.values())))
    cols = {}
    for k in range(L):
        col = tuple(rows[t][k] for t in sorted(rows))
        cols[col] = cols.get(col, 0) + 1
    tips = sorted(rows)
    pi_v = numpy.array(pi)
    total = 0.0
    for col, cnt in sorted(cols.items()):
        sym = dict(zip(tips, col))

        def partial(node):
            name, kids = node
            if not kids:
                ch = sym[name]
                v = numpy.zeros(4)
                if ch in IDX:
                    v[IDX[ch]] = 1.0
                else:
                    v[:] = 1.0
                return v
            v = numpy.ones(4)
            for k in kids:
                v = v * (psub[k[0]] @ partial(k))
            return v

        lk = float(pi_v @ partial(tree_model))
        if lk <= 0:
            return -math.inf
        total += cnt * math.log(lk)
    return total


# ------------------------------------------------------------ building the LF
def _norm_pi(w):
    tot = sum(w)
    return [x / tot for x in w]


def make_sm(mspec, free_mprobs):
    if mspec["kind"] == "named":
        from cogent3 import get_model

        return get_model(mspec["name"], optimise_motif_probs=bool(free_mprobs))
    from cogent3.evolve.predicate import MotifChange
    from cogent3.evolve.substitution_model import TimeReversibleNucleotide

    preds = {}
    for p in sorted(mspec["preds"]):
        pred = None
        for pair in mspec["preds"][p]:
            mc = MotifChange(pair[0], pair[1])
            pred = mc if pred is None else (pred | mc)
        preds[p] = pred
    # recode_gaps=True as for every registered nucleotide model (gaps count as N)
    return TimeReversibleNucleotide(predicates=preds, optimise_motif_probs=bool(free_mprobs), recode_gaps=True, name="user-" + "-".join(sorted(preds)))


def make_lf(mspec, free_mprobs, newick, rows):
    from cogent3 import make_aligned_seqs, make_tree

    tree = make_tree(newick)
    aln = make_aligned_seqs({k: rows[k] for k in sorted(rows)}, moltype="dna", info={"source": "c16"})
    lf = make_sm(mspec, free_mprobs).make_likelihood_function(tree)
    lf.set_alignment(aln)
    return lf


def apply_null_settings(lf, spec, edges):
    """random-in-bounds parameter values of the null"""
    if spec.get("pi") is not None:
        lf.set_motif_probs(dict(zip(BASES, _norm_pi(spec["pi"]))))
    th = spec.get("timehet")
    if th:
        # every (not excluded) rate parameter gets one value on the edge set and another on the remaining edges
        lf.set_time_heterogeneity(edge_sets=[dict(edges=list(th["edges"]))], is_independent=False, exclude_params=list(th["exclude"]) or None)
    for p, v in sorted(spec["rates"].items()):
        if p in (spec.get("const") or []):
            lf.set_param_rule(p, is_constant=True, value=float(v))
        elif th and p in th["values"]:
            rest = [e for e in edges if e not in th["edges"]]
            lf.set_param_rule(p, edges=rest, is_independent=False, init=float(v))
            lf.set_param_rule(p, edges=list(th["edges"]), is_independent=False, init=float(th["values"][p]))
        else:
            lf.set_param_rule(p, init=float(v))
    sc = spec.get("scoped")
    if sc:
        lf.set_param_rule(sc["par"], edges=list(sc["edges"]), init=float(sc["value"]), is_independent=False)
    if spec["len_mode"] == "equal":
        lf.set_param_rule("length", is_independent=False, init=float(spec["lengths"]))
    else:
        for e in edges:
            lf.set_param_rule("length", edge=e, init=float(spec["lengths"][e]))
        for g in spec.get("len_groups") or []:
            if g.get("clock"):
                lf.set_local_clock(g["edges"][0], g["edges"][1])
            lf.set_param_rule("length", edges=list(g["edges"]), is_independent=False, init=float(g["value"]))


def null_lengths(spec, edges):
    """{edge: length} the null settings amount to"""
    if spec["len_mode"] == "equal":
        return {e: float(spec["lengths"]) for e in edges}
    out = {e: float(spec["lengths"][e]) for e in edges}
    for g in spec.get("len_groups") or []:
        for e in g["edges"]:
            out[e] = float(g["value"])
    return out


def apply_alt_scope(lf, scope):
    if not scope:
        return
    if scope["mode"] == "indep":
        lf.set_param_rule(scope["par"], is_independent=True)
    elif scope["mode"] == "shared":
        lf.set_param_rule(scope["par"], edges=list(scope["edges"]), is_independent=False)
    elif scope["mode"] == "split":
        for g, ind in zip(scope["groups"], scope["indep"]):
            lf.set_param_rule(scope["par"], edges=list(g), is_independent=bool(ind))
    elif scope["mode"] == "timehet":
        sets = [dict(edges=list(g), is_independent=bool(ind)) for g, ind in zip(scope["groups"], scope["indep"])]
        lf.set_time_heterogeneity(edge_sets=sets, is_independent=False, exclude_params=list(scope["exclude"]) or None)
    elif scope["mode"] == "timehet-max":
        lf.set_time_heterogeneity(is_independent=True, exclude_params=list(scope["exclude"]) or None)
    else:
        lf.set_param_rule(scope["par"], edges=list(scope["edges"]), is_independent=True)


def apply_alt_lengths(lf, groups):
    """length constraints of the alt: groups of edges sharing one length (a refinement of the null's constraints)"""
    for g in groups or []:
        if g.get("clock"):
            lf.set_local_clock(g["edges"][0], g["edges"][1])
        else:
            lf.set_param_rule("length", edges=list(g["edges"]), is_independent=False)


def read_state(lf, params, edges):
    """reported values, read one by one through the public accessors"""
    mp = lf.get_motif_probs()
    pi = [float(mp[b]) for b in BASES]
    rates = {e: {p: float(lf.get_param_value(p, edge=e)) for p in params} for e in edges}
    lengths = {e: float(lf.get_param_value("length", edge=e)) for e in edges}
    return pi, rates, lengths


def rel_ok(got, want, tol):
    return abs(got - want) <= tol * max(1.0, abs(want))


# ----------------------------------------------------------------- generators
BASE_ALPHABETS = ["ACGT", "AAAACCGT", "ACCCGGGGTT", "AACGGGGTTTTT", "ACGTTTTT", "AACCCGT"]
MASKS = ["." * 12 + "sv", "." * 6 + "ssv", "." * 6 + "ssv-N", "." * 3 + "ssvv", "." * 8 + "sv--N"]
TS = {"A": "G", "G": "A", "C": "T", "T": "C"}
TV = {"A": "C", "C": "A", "G": "T", "T": "G"}


def _text(draw, alphabet, n):
    """n symbols drawn with the multiplicities of ``alphabet`` as weights"""
    return "".join(draw(st.lists(st.sampled_from(list(alphabet)), min_size=n, max_size=n)))


@st.composite
def alignments(draw, tips, lengths=(12, 20, 40, 60, 120)):
    L = draw(st.sampled_from(list(lengths)))
    base = _text(draw, draw(st.sampled_from(BASE_ALPHABETS)), L)
    mask_alpha = draw(st.sampled_from(MASKS))
    rows = {}
    for t in tips:
        mask = _text(draw, mask_alpha, L)
        seq = []
        for ch, m in zip(base, mask):
            seq.append(ch if m == "." else TS[ch] if m == "s" else TV[ch] if m == "v" else m)
        rows[t] = "".join(seq)
    return rows


def _rate(draw):
    if draw(st.integers(0, 9)) == 0:
        return draw(st.sampled_from([1.0, 0.05, 20.0, 2.0]))
    return round(10 ** draw(st.floats(-1.3, 1.3, allow_nan=False, allow_infinity=False)), 6)


def _length(draw):
    if draw(st.integers(0, 11)) == 0:
        return draw(st.sampled_from([0.001, 1.0, 2.0]))
    return round(10 ** draw(st.floats(-3.0, 0.3, allow_nan=False, allow_infinity=False)), 6)


def _pi(draw):
    return [round(draw(st.floats(0.05, 1.0, allow_nan=False, allow_infinity=False)), 4) for _ in range(4)]


def _subset(draw, items, lo, hi):
    hi = min(hi, len(items))
    lo = min(lo, hi)
    k = draw(st.integers(lo, hi))
    idx = draw(st.lists(st.integers(0, len(items) - 1), min_size=k, max_size=k, unique=True))
    return [items[i] for i in sorted(idx)]


def _redundant(groups, x):
    """True when the indicator vectors of the (disjoint) groups, of x and of all six exchangeabilities are linearly dependent"""
    import numpy

    vecs = [[1.0 if p in g else 0.0 for p in PAIRS6] for g in groups] + [[1.0 if p in x else 0.0 for p in PAIRS6], [1.0] * 6]
    return int(numpy.linalg.matrix_rank(numpy.array(vecs))) < len(vecs)


@st.composite
def pred_pair(draw):
    """user predicate models: (null, alt, kind) with alt a refinement of null, or null + one extra predicate"""
    # null partition of the six exchangeabilities: group 0 is the reference (no parameter)
    ngroups = draw(st.integers(1, 3))
    assign = [draw(st.integers(0, ngroups)) for _ in PAIRS6]
    if all(g != 0 for g in assign):
        assign[5] = 0  # a reference must exist
    null_preds = {}
    for g in range(1, ngroups + 1):
        members = [PAIRS6[i] for i in range(6) if assign[i] == g]
        if members:
            null_preds[f"n{g}"] = members
    kind = draw(st.sampled_from(["refine", "refine", "extra"]))
    if kind == "extra" and null_preds:
        alt_preds = {k: list(v) for k, v in null_preds.items()}
        x = _subset(draw, PAIRS6, 1, 3)
        groups = [set(v) for v in null_preds.values()]
        if _redundant(groups, set(x)):
            # cogent3 documents these as errors ("Redundancy in predicates", "equivalent to the overall rate parameter"):
            # take part of a null group (or of the reference) instead
            big = [sorted(g) for g in groups if len(g) >= 2]
            ref = [PAIRS6[i] for i in range(6) if assign[i] == 0]
            x = big[0][:1] if big else ref[:1]
        alt_preds["x"] = x
        return {"kind": "pred", "preds": null_preds}, {"kind": "pred", "preds": alt_preds}, "extra"
    # refinement: every null group (and the reference) is split into 1-2 alt groups; one part of the reference stays reference
    alt_preds = {}
    for g in range(0, ngroups + 1):
        members = [PAIRS6[i] for i in range(6) if assign[i] == g]
        if not members:
            continue
        side = [draw(st.booleans()) for _ in members]
        first = [m for m, sd in zip(members, side) if not sd]
        second = [m for m, sd in zip(members, side) if sd]
        if g == 0:
            if not first:  # keep at least one reference exchangeability
                first, second = second[:1], second[1:]
            if second:
                alt_preds["r0b"] = second
        else:
            if first:
                alt_preds[f"n{g}a"] = first
            if second:
                alt_preds[f"n{g}b"] = second
    if len(alt_preds) <= len(null_preds):  # nothing was split: add a parameter on part of the reference if possible
        ref = [PAIRS6[i] for i in range(6) if assign[i] == 0]
        if len(ref) >= 2:
            alt_preds["r0b"] = ref[1:2]
    return {"kind": "pred", "preds": null_preds}, {"kind": "pred", "preds": alt_preds}, "refine"


# sibling tips below an internal node (set_local_clock: "only valid for tips connected to the same node"; with the root as
# that node the clade would be the whole tree)
CLOCK_PAIRS = {"t3": [], "t4": [("a", "b")], "t4r": [("a", "b"), ("c", "d")], "t5": [("a", "b"), ("d", "e")], "t5c": [("a", "b")]}


def _len_groups(draw, edges, tkey):
    """1-2 disjoint groups of edges sharing one length; a group is a local clock (sibling tips) or any >= 2 edges"""
    groups, used = [], set()
    for _ in range(draw(st.integers(1, 2))):
        avail = [e for e in edges if e not in used]
        pairs = [pr for pr in CLOCK_PAIRS[tkey] if pr[0] not in used and pr[1] not in used]
        if pairs and draw(st.booleans()):
            a, b = draw(st.sampled_from(pairs))
            g = {"edges": [a, b], "clock": True, "value": _length(draw)}
        elif len(avail) >= 2:
            g = {"edges": _subset(draw, avail, 2, len(avail)), "clock": False, "value": _length(draw)}
        else:
            break
        groups.append(g)
        used.update(g["edges"])
    return groups


def _alt_len_groups(draw, null, edges, tkey):
    """length constraints of the alt that the null's constraints imply (so the null stays inside the alt)"""
    if null["len_mode"] == "free" or draw(st.integers(0, 2)) != 0:
        return []
    if null["len_mode"] == "equal":
        return [{"edges": g["edges"], "clock": g["clock"]} for g in _len_groups(draw, edges, tkey)]
    out = []
    for g in null.get("len_groups") or []:
        k = draw(st.integers(0, 2))
        if k == 0:
            continue
        if k == 1 or len(g["edges"]) < 3:
            out.append({"edges": list(g["edges"]), "clock": bool(g.get("clock"))})
        else:
            out.append({"edges": _subset(draw, list(g["edges"]), 2, len(g["edges"]) - 1), "clock": False})
    return out


def _refine(draw, edges, S):
    """groups of edges refining the partition {S, edges - S}: each part is kept or cut in two; the last cell may be left
    implicit (the edges no rule names keep sharing the original parameter). Returns (groups, independent-flags)"""
    cells = []
    for part in ([e for e in edges if e in S], [e for e in edges if e not in S]):
        if len(part) >= 2 and draw(st.integers(0, 2)) != 0:
            g1 = _subset(draw, part, 1, len(part) - 1)
            cells += [g1, [e for e in part if e not in g1]]
        elif part:
            cells.append(list(part))
    groups = cells[:-1] if len(cells) > 1 and draw(st.booleans()) else cells
    indep = [len(g) >= 2 and draw(st.integers(0, 3)) == 0 for g in groups]
    return groups, indep


def _null_settings(draw, mspec, edges, free_pi, allow_scoped=True, tkey="t3"):
    params = model_params(mspec)
    spec = {"rates": {p: _rate(draw) for p in params}, "pi": _pi(draw) if free_pi else None, "scoped": None, "timehet": None}
    if allow_scoped and params and len(edges) >= 2:
        k = draw(st.integers(0, 9))
        if k <= 1:
            spec["scoped"] = {"par": draw(st.sampled_from(params)), "edges": _subset(draw, edges, 1, len(edges) - 1), "value": _rate(draw)}
        elif k == 2:
            excl = _subset(draw, params, 0, len(params) - 1) if len(params) >= 2 and draw(st.booleans()) else []
            spec["timehet"] = {"edges": _subset(draw, edges, 1, len(edges) - 1), "exclude": excl, "values": {p: _rate(draw) for p in params if p not in excl}}
    spec["const"] = _const_rates(draw, spec, params)
    k = draw(st.integers(0, 7))
    if k <= 1:
        spec["len_mode"] = "equal"
        spec["lengths"] = _length(draw)
    else:
        spec["len_mode"] = "free"
        spec["lengths"] = {e: _length(draw) for e in edges}
        if k == 2 and len(edges) >= 3:
            spec["len_mode"] = "groups"
            spec["len_groups"] = _len_groups(draw, edges, tkey)
    return spec


CONST_VALUES = [3.7, 0.2, 6.0, 0.12, 2.5, 0.35, 11.0]


def _const_rates(draw, spec, params):
    """names of null rate parameters held constant through an unscoped rule (about 30 % of the nulls that have rate
    parameters); their values are moved well away from the default 1.0"""
    free = [p for p in params if not (spec["scoped"] and spec["scoped"]["par"] == p) and not (spec.get("timehet") and p in spec["timehet"]["values"])]
    if not free or draw(st.integers(0, 9)) >= 4:
        return []
    chosen = _subset(draw, free, 1, len(free) if draw(st.booleans()) else 1)
    for p in chosen:
        if abs(math.log10(spec["rates"][p])) < 0.3:
            spec["rates"][p] = draw(st.sampled_from(CONST_VALUES))
    return chosen


@st.composite
def init_cases(draw):
    tkey = draw(st.sampled_from(["t3", "t4", "t4", "t4r", "t5", "t5c"]))
    model = TREES[tkey][1]
    edges = tree_edges(model)
    rows = draw(alignments(tree_tips(model)))
    fam = draw(st.sampled_from(["struct"] * 5 + ["cross"] * 2 + ["same"] * 2 + ["pred"] * 3))
    if fam == "pred":
        null_m, alt_m, pkind = draw(pred_pair())
    else:
        n, a = draw(st.sampled_from(STRUCT_PAIRS if fam == "struct" else CROSS_PAIRS if fam == "cross" else SAME_PAIRS))
        fam = "struct" if fam == "cross" else fam
        null_m, alt_m, pkind = {"kind": "named", "name": n}, {"kind": "named", "name": a}, fam
    null_uniform, alt_uniform = model_uniform(null_m), model_uniform(alt_m)
    # motif probability treatment
    if null_uniform:
        null_free, alt_free = False, not alt_uniform
    else:
        null_free = draw(st.booleans())
        alt_free = True if null_free else draw(st.booleans())
    null = {"model": null_m, "free_pi": null_free}
    null.update(_null_settings(draw, null_m, edges, null_free and not null_uniform, tkey=tkey))
    aparams = model_params(alt_m)
    scope = None
    want_scope = fam == "same" or draw(st.integers(0, 2)) == 0
    # the edge set on which the null holds second values (one parameter, or every parameter of a time-heterogeneous null)
    S = (null["scoped"] or null["timehet"] or {}).get("edges")
    if want_scope and aparams and len(edges) >= 2:
        par = draw(st.sampled_from(aparams))
        mode = draw(st.sampled_from(["indep", "same-as-null", "split", "split", "timehet", "timehet-max"] if S else ["indep", "shared", "subset-indep", "split", "split", "timehet", "timehet-max"]))
        if mode == "indep":
            scope = {"par": par, "mode": "indep", "edges": edges}
        elif mode == "same-as-null":
            # shared on the null's own edge subset, for a parameter that covers the null's scoped parameter
            scope = {"par": par, "mode": "shared", "edges": list(S), "same_as_null": True}
        elif mode == "shared":
            scope = {"par": par, "mode": "shared", "edges": _subset(draw, edges, 1, len(edges) - 1)}
        elif mode == "subset-indep":
            scope = {"par": par, "mode": "subset-indep", "edges": _subset(draw, edges, 2, len(edges) - 1)}
        elif mode == "split":
            groups, indep = _refine(draw, edges, S or edges)
            scope = {"par": par, "mode": "split", "groups": groups, "indep": indep}
        else:
            excl = _subset(draw, aparams, 0, len(aparams) - 1) if len(aparams) >= 2 and draw(st.integers(0, 2)) == 0 else []
            if mode == "timehet":
                groups, indep = _refine(draw, edges, S or edges)
                scope = {"par": None, "mode": "timehet", "groups": groups, "indep": indep, "exclude": excl}
            else:
                scope = {"par": None, "mode": "timehet-max", "exclude": excl}
    if fam == "same" and scope is None and null["len_mode"] != "equal":
        null["len_mode"] = "equal"
        null["lengths"] = _length(draw)
        null.pop("len_groups", None)
    alt = {"model": alt_m, "free_pi": alt_free, "scope": scope, "len_groups": _alt_len_groups(draw, null, edges, tkey)}
    return {"tree": tkey, "rows": rows, "family": pkind, "null": null, "alt": alt}


# --------------------------------------------------------------- init execute
def _check_tree(lf, tkey):
    names = sorted(n for n in lf.tree.get_node_names() if n != "root")
    want = sorted(tree_edges(TREES[tkey][1]))
    if names != want:
        raise HarnessError(f"tree table {tkey} out of step with cogent3 node names: {names} vs {want}")


def null_edge_rates(spec, params, edges):
    out = {}
    sc = spec.get("scoped")
    th = spec.get("timehet")
    for e in edges:
        r = {p: float(spec["rates"][p]) for p in params}
        if sc and e in sc["edges"]:
            r[sc["par"]] = float(sc["value"])
        if th and e in th["edges"]:
            for p, v in th["values"].items():
                if p not in (spec.get("const") or []):
                    r[p] = float(v)
        out[e] = r
    return out


def exec_init(case) -> Soft:
    s = Soft("C16/init/")
    tkey = case["tree"]
    newick, tmodel = TREES[tkey]
    edges = tree_edges(tmodel)
    rows = {str(k): str(v) for k, v in case["rows"].items()}
    null_c, alt_c = case["null"], case["alt"]
    null_m, alt_m = null_c["model"], alt_c["model"]
    nparams, aparams = model_params(null_m), model_params(alt_m)
    ncells, acells = model_cells(null_m), model_cells(alt_m)
    family = case["family"]
    scope = alt_c["scope"]

    # circumstance of the pair (from its structure, not from the outcome)
    extra_inside = False
    if family == "extra":
        x = acells["x"]
        extra_inside = any(x <= cs for cs in ncells.values())
    circ = "extra-predicate-inside-null-parameter" if extra_inside else {"extra": "extra-predicate", "refine": "refined-predicates", "struct": "named", "same": "named"}[family]
    # a scoped alt parameter whose cells do not lie inside one null parameter's cells, so no null value is its source
    # (structure and scoping change together)
    if scope and scope["par"] is None:  # time-heterogeneous alt: every rate parameter outside exclude is scoped
        scoped_pars = [p for p in aparams if p not in scope["exclude"]]
    else:
        scoped_pars = [scope["par"]] if scope else []
    unsourced = any(not any(acells[p] <= cs for cs in ncells.values()) for p in scoped_pars)
    scirc = "scoped-parameter-absent-from-null" if unsourced else "scoped" if scope else "global"

    ok, null = s.call("null/build", make_lf, null_m, null_c["free_pi"], newick, rows)
    if not ok:
        return s
    _check_tree(null, tkey)
    ok, _ = s.call("null/settings", apply_null_settings, null, null_c, edges)
    if not ok:
        return s
    ok, alt = s.call("alt/build", make_lf, alt_m, alt_c["free_pi"], newick, rows)
    if not ok:
        return s
    ok, _ = s.call(f"alt/scope:{scope['mode'] if scope else 'none'}", apply_alt_scope, alt, scope)
    if not ok:
        return s
    ok, _ = s.call("alt/length-groups", apply_alt_lengths, alt, alt_c.get("len_groups"))
    if not ok:
        return s
    ok, nfp = s.call("nfp", lambda: (null.get_num_free_params(), alt.get_num_free_params()))
    if not ok:
        return s
    pair_name = (null_m.get("name", "user"), alt_m.get("name", "user"))
    s.cls(f"family:{family}", f"tree:{tkey}", f"alt-scope:{scope['mode'] if scope else 'none'}", f"null-lengths:{null_c['len_mode']}")
    if null_c.get("timehet"):
        s.cls("null:time-heterogeneous", "null:time-heterogeneous/" + ("exclude_params" if null_c["timehet"]["exclude"] else "all-parameters"))
    if scope and scope["mode"] in ("split", "timehet"):
        s.cls("alt-scope:refines-" + ("partitioned-null" if (null_c.get("scoped") or null_c.get("timehet")) else "global-null"))
        if any(scope["indep"]):
            s.cls("alt-scope:group-independent")
    if any(g.get("clock") for g in null_c.get("len_groups") or []):
        s.cls("null-lengths:local-clock")
    if alt_c.get("len_groups"):
        s.cls("alt-lengths:grouped", "alt-lengths:grouped/null-" + null_c["len_mode"])
    if family in ("struct", "same"):
        s.cls(f"pair:{pair_name[0]}<{pair_name[1]}")
    if null_c.get("scoped"):
        s.cls("null:two-valued-parameter")
    if null_c.get("const"):
        cross = model_family(null_m) != model_family(alt_m)
        s.cls("null:constant-rate-parameter", "null:constant-rate-parameter/" + ("reversible->non-reversible" if cross else "same-class"))
        s.cls("null:all-rates-constant" if len(null_c["const"]) == len(nparams) else "null:some-rates-constant")
    if unsourced:
        s.cls("alt:scoped-parameter-absent-from-null")
    if extra_inside:
        s.cls("alt:extra-predicate-inside-null-parameter")
    s.cls("null-pi:free-random" if null_c.get("pi") is not None else "null-pi:uniform" if model_uniform(null_m) else "null-pi:data")
    s.cls("alt-pi:free" if alt_c["free_pi"] else "alt-pi:const")
    if nfp[1] <= nfp[0]:
        s.cls("not-richer")
        return s

    ok, lnl0 = s.call("null/lnL", lambda: float(null.lnL))
    if not ok:
        return s
    if not math.isfinite(lnl0):
        s.cls("null-lnL-not-finite")
        return s
    # independent reference for the null
    ok, state = s.call("null/read", read_state, null, nparams, edges)
    if not ok:
        return s
    pi0, _, _ = state
    want_rates = null_edge_rates(null_c, nparams, edges)
    want_len = null_lengths(null_c, edges)
    if null_c.get("pi") is not None:
        want_pi = _norm_pi([float(x) for x in null_c["pi"]])
    elif model_uniform(null_m):
        want_pi = [0.25] * 4
    else:
        want_pi = pi0  # data frequencies: taken as reported (how they are counted is not this property)
    ref = ref_lnl(tmodel, rows, model_family(null_m), ncells, want_rates, want_len, want_pi)
    s.check(rel_ok(lnl0, ref, 1e-7), "null-lnL-vs-reference", f"null {null_m} settings {null_c}: lf.lnL {lnl0!r} reference {ref!r}")

    ok, _ = s.call(f"initialise_from_nested/{scirc}", alt.initialise_from_nested, null)
    if not ok:
        s.cls("init:raised")
        return s
    ok, lnl1 = s.call("alt/lnL", lambda: float(alt.lnL))
    if not ok:
        return s
    what = f"null {null_m} {({k: v for k, v in null_c.items() if k != 'model'})} alt {alt_m} scope {scope} tree {tkey}: null.lnL {lnl0!r} alt.lnL {lnl1!r} diff {lnl1 - lnl0:.3e}"
    if s.check(abs(lnl1 - lnl0) <= 1e-6, f"lnL/{circ}/{scirc}", what):
        s.check(rel_ok(lnl1, ref, 1e-7), f"lnL-vs-reference/{circ}/{scirc}", what + f" reference {ref!r}")
    ok, st1 = s.call("alt/read", read_state, alt, [], edges)
    if ok:
        pi1, _, len1 = st1
        s.check(all(abs(a - b) <= 1e-9 for a, b in zip(pi1, pi0)), "motif-probs", f"{what}: null {pi0} alt {pi1}")
        s.check(all(abs(len1[e] - want_len[e]) <= 1e-9 * max(1.0, want_len[e]) for e in edges), "lengths", f"{what}: null {want_len} alt {len1}")
    ok, nfp2 = s.call("nfp-after", alt.get_num_free_params)
    if ok:
        s.check(nfp2 >= nfp[1], "nfp-reduced", f"{what}: alt had {nfp[1]} free parameters, {nfp2} after initialise_from_nested")
    unequal = max(want_pi) - min(want_pi) > 1e-3
    s.nontrivial = nfp[1] - nfp[0] >= 2 and unequal
    s.cls(f"extra-free-params:{min(nfp[1] - nfp[0], 10)}" if nfp[1] - nfp[0] < 10 else "extra-free-params:10+")
    s.evals = 2
    return s


# ---------------------------------------------------------------- codon pairs
CODON_PAIRS = [
    ("MG94HKY", "MG94GTR", "named"),
    ("CNFHKY", "CNFGTR", "named"),
    ("GY94", "H04G", "named"),
    ("Y98", "H04G", "named"),
    ("Y98", "H04GK", "extra-predicate-inside-null-parameter"),  # G.K: CpG transitions, a subset of kappa's cells
    ("H04G", "H04GGK", "extra-predicate-inside-null-parameter"),  # G.K inside G
    ("Y98", "Y98", "named"),
    ("MG94HKY", "MG94HKY", "named"),
    ("CNFGTR", "CNFGTR", "named"),
]
# reversible codon null inside the non-reversible GNC (rate = directed nucleotide rate x omega, the 61 codon probabilities
# only at the root). MG94*: rate = pi(new nucleotide) x exchangeability x omega, nested for every monomer vector (GNC's
# A>G = kappa * pi_G / pi_ref ...) once GNC's codon probabilities take the products of the monomer probabilities.
# Y98 / GY94: rate = pi(new codon) x kappa x omega, a function of the nucleotide change only when all 61 are equal.
# CNF* (pi(codon) / pi(context)) is not nested even then: contexts next to stop codons hold 2 or 3 sense codons.
CODON_NS_PAIRS = [
    ("MG94HKY", "GNC", "reversible-to-GNC/monomer-motif-probs"),
    ("MG94GTR", "GNC", "reversible-to-GNC/monomer-motif-probs"),
    ("Y98", "GNC", "reversible-to-GNC/equal-motif-probs"),
    ("GY94", "GNC", "reversible-to-GNC/equal-motif-probs"),
    ("MG94HKY", "GNC", "reversible-to-GNC/monomer-motif-probs"),
]
CODON_MONOMER = ("MG94HKY", "MG94GTR")
SENSE = [a + b + c for a in "TCAG" for b in "TCAG" for c in "TCAG" if a + b + c not in ("TAA", "TAG", "TGA")]
SENSE_SET = frozenset(SENSE)
# models whose omega = 1 sub-model is the canonical neutral null (the same model with omega held constant)
CODON_NEUTRAL = ["MG94HKY", "GY94", "Y98", "CNFGTR", "H04GK", "MG94GTR", "CNFHKY", "H04G", "GNC"]

_PRISTINE = {}  # per process: model name -> substitution model never handed to a likelihood function


def codon_sm(name):
    """codon models take 1-2.5 s to construct: one pristine instance per process, every case works on its own deep copy
    (execution stays a function of the case)"""
    import copy

    from cogent3 import get_model

    if name not in _PRISTINE:
        _PRISTINE[name] = get_model(name, optimise_motif_probs=True)
    return copy.deepcopy(_PRISTINE[name])


@st.composite
def codon_rows(draw, tips, lengths=(8, 12, 16, 20)):
    """sense codons and '---': each tip keeps the base codon, changes one position (kept only when the result is a sense
    codon), takes another codon or a gap"""
    L = draw(st.sampled_from(list(lengths)))
    base = draw(st.lists(st.sampled_from(SENSE), min_size=L, max_size=L))
    rows = {}
    for t in tips:
        seq = []
        for cod in base:
            m = draw(st.integers(0, 11))
            if m < 6:
                seq.append(cod)
            elif m == 11:
                seq.append("---")
            elif m >= 9:
                seq.append(draw(st.sampled_from(SENSE)))
            else:
                pos, nb = draw(st.integers(0, 2)), draw(st.sampled_from("TCAG"))
                c2 = cod[:pos] + nb + cod[pos + 1 :]
                seq.append(c2 if c2 in SENSE_SET else cod)
        rows[t] = "".join(seq)
    return rows


@st.composite
def codon_cases(draw):
    tkey = draw(st.sampled_from(["t3", "t3", "t4", "t4", "t4r", "t5", "t5c"]))
    tmodel = TREES[tkey][1]
    edges = tree_edges(tmodel)
    rows = draw(codon_rows(tree_tips(tmodel), lengths=(8, 12, 16)))
    # what the null does with omega: free and global / the canonical neutral null (constant 1.0) / another constant /
    # a second (free or constant) value on an edge subset
    nk = draw(st.sampled_from(["free", "free", "const1", "const1", "const", "scoped", "scoped", "scoped-const1"]))
    null_omega = None
    if nk == "const1":
        null_omega = {"mode": "const", "value": 1.0}
    elif nk == "const":
        null_omega = {"mode": "const", "value": draw(st.sampled_from([0.2, 0.5, 3.0]))}
    elif nk.startswith("scoped"):
        null_omega = {"mode": "scoped", "edges": _subset(draw, edges, 1, len(edges) - 1), "value": 1.0 if nk == "scoped-const1" else _rate(draw), "const": nk == "scoped-const1"}
    if null_omega and draw(st.booleans()):
        nm = draw(st.sampled_from(CODON_NEUTRAL))
        null_n, alt_n, circ = nm, nm, "named"
    elif draw(st.integers(0, 2)) == 0:
        null_n, alt_n, circ = draw(st.sampled_from(CODON_NS_PAIRS))
    else:
        null_n, alt_n, circ = draw(st.sampled_from(CODON_PAIRS))
    S = null_omega["edges"] if null_omega and null_omega["mode"] == "scoped" else None
    scope = None
    must = null_n == alt_n and not (null_omega and null_omega["mode"] == "const")
    if must or draw(st.integers(0, 2)) == 0:
        pars = ["omega", "omega", "kappa"] if ("HKY" in alt_n or alt_n[0] in "YH" or alt_n == "GY94") and not S else ["omega"]
        if alt_n == "GNC" and not S:
            # a directed rate whose source is the null's kappa or A/G (A>G), one whose source is the null's reference cells
            # under MG94HKY / Y98 (C>A), omega
            pars = ["omega", "A>G", "C>A"]
        par = draw(st.sampled_from(pars))
        mode = draw(st.sampled_from(["indep", "split", "split"] if S else ["indep", "shared", "split"]))
        if mode == "indep":
            scope = {"par": par, "mode": "indep", "edges": edges}
        elif mode == "shared":
            scope = {"par": par, "mode": "shared", "edges": _subset(draw, edges, 1, len(edges) - 1)}
        else:
            groups, indep = _refine(draw, edges, S or edges)
            scope = {"par": par, "mode": "split", "groups": groups, "indep": indep}
    return {
        "tree": tkey,
        "null": null_n,
        "alt": alt_n,
        "circ": circ,
        "rows": rows,
        "scope": scope,
        "null_omega": null_omega,
        # weights of the null's motif probabilities (4 for the nucleotide-frequency models, 61 otherwise), None: from the data
        "pi": [1] * 61 if circ.endswith("equal-motif-probs") else [draw(st.integers(1, 20)) for _ in range(61)] if draw(st.booleans()) else None,
        "rates": [_rate(draw) for _ in range(8)],
        "lengths": {e: _length(draw) for e in edges},
    }


def exec_codon(case) -> Soft:
    from cogent3 import make_aligned_seqs, make_tree

    s = Soft("C16/init-codon/")
    rows = {str(k): str(v) for k, v in case["rows"].items()}
    scope = case["scope"]
    circ = str(case["circ"])
    tkey = case.get("tree", "t3")
    newick, tmodel = TREES[tkey]
    edges = tree_edges(tmodel)
    null_omega = case.get("null_omega")

    def build(name):
        lf = codon_sm(name).make_likelihood_function(make_tree(newick))
        lf.set_alignment(make_aligned_seqs(rows, moltype="dna", info={"source": "c16"}))
        return lf

    ok, null = s.call("null/build", build, case["null"])
    if not ok:
        return s
    ok, alt = s.call("alt/build", build, case["alt"])
    if not ok:
        return s
    _check_tree(null, tkey)
    to_gnc = case["alt"] == "GNC" and case["null"] != "GNC"
    if to_gnc and case["null"] not in CODON_MONOMER and len(set(case.get("pi") or [1, 2])) != 1:
        raise HarnessError(f"{case['null']} lies inside GNC only with equal codon probabilities: case not in the domain")

    def settings():
        if case.get("pi") is not None:
            keys = list(null.get_motif_probs().keys())
            w = [float(x) for x in case["pi"][: len(keys)]]
            null.set_motif_probs(dict(zip(keys, [x / sum(w) for x in w])))
        pars = sorted(p for p in null.get_param_names() if p not in ("mprobs", "length"))
        for p, v in zip(pars, case["rates"]):
            null.set_param_rule(p, init=float(v))
        for e in edges:
            null.set_param_rule("length", edge=e, init=float(case["lengths"][e]))
        if null_omega and null_omega["mode"] == "const":
            null.set_param_rule("omega", is_constant=True, value=float(null_omega["value"]))
        elif null_omega and null_omega.get("const"):
            null.set_param_rule("omega", edges=list(null_omega["edges"]), is_constant=True, value=float(null_omega["value"]))
        elif null_omega:
            null.set_param_rule("omega", edges=list(null_omega["edges"]), is_independent=False, init=float(null_omega["value"]))
        return pars

    ok, pars = s.call("null/settings", settings)
    if not ok:
        return s
    ok, _ = s.call(f"alt/scope:{scope['mode'] if scope else 'none'}", apply_alt_scope, alt, scope)
    if not ok:
        return s
    s.cls(f"pair:{case['null']}<{case['alt']}", f"alt-scope:{scope['mode'] if scope else 'none'}", "circ:" + circ, f"tree:{tkey}")
    s.cls("null-pi:random" if case.get("pi") is not None else "null-pi:data")
    if not null_omega:
        s.cls("null-omega:free")
    elif null_omega["mode"] == "const":
        s.cls("null-omega:constant-1.0" if float(null_omega["value"]) == 1.0 else "null-omega:constant-other")
    else:
        s.cls("null-omega:constant-1.0-on-edge-subset" if null_omega.get("const") else "null-omega:two-valued")
    if scope and scope["mode"] == "split":
        s.cls("alt-scope:refines-" + ("partitioned-null" if null_omega and null_omega["mode"] == "scoped" else "global-null"))
    ok, nfp = s.call("nfp", lambda: (null.get_num_free_params(), alt.get_num_free_params()))
    if not ok:
        return s
    if nfp[1] <= nfp[0]:
        s.cls("not-richer")
        return s
    ok, lnl0 = s.call("null/lnL", lambda: float(null.lnL))
    if not ok or not math.isfinite(lnl0):
        return s
    scirc = "scoped" if scope else "global"
    # reversible -> GNC has its own signatures (another code path: rates are projected through the null's motif probabilities)
    ok, _ = s.call(f"initialise_from_nested/{circ}/{scirc}" if to_gnc else f"initialise_from_nested/{scirc}", alt.initialise_from_nested, null)
    if not ok:
        return s
    ok, lnl1 = s.call("alt/lnL", lambda: float(alt.lnL))
    if not ok:
        return s
    what = f"{case['null']} -> {case['alt']} tree {tkey} null omega {null_omega} scope {scope} rates {dict(zip(pars, case['rates']))} lengths {case['lengths']}: null.lnL {lnl0!r} alt.lnL {lnl1!r} diff {lnl1 - lnl0:.3e}"
    s.check(abs(lnl1 - lnl0) <= 1e-6, f"lnL/{circ}/{scirc}", what)

    def carried():
        a, b = null.get_motif_probs(), alt.get_motif_probs()
        if len(list(a.keys())) == 4 and len(list(b.keys())) == 61:
            # monomer probabilities of the null: the alt's codon probabilities are their products over the sense codons
            w = {k: float(a[k[0]]) * float(a[k[1]]) * float(a[k[2]]) for k in b.keys()}
            tot = sum(w.values())
            a = {k: v / tot for k, v in w.items()}
        floor = min(min(float(a[k]), float(b[k])) for k in a.keys()) <= PI_FLOOR
        dpi = max(abs(float(a[k]) - float(b[k])) for k in a.keys())
        dlen = max(abs(float(alt.get_param_value("length", edge=e)) - float(case["lengths"][e])) / max(1.0, float(case["lengths"][e])) for e in edges)
        return dpi, dlen, floor

    ok, d = s.call("alt/read", carried)
    if ok:
        if d[2]:
            # a codon (or product of monomer probabilities) near get_motif_probs' 1e-6 floor: reported lifted, not as in use
            s.cls("motif-prob-at-floor:not-compared")
        else:
            s.check(d[0] <= 1e-9, "motif-probs", f"{what}: largest motif-probability difference {d[0]:.3e}")
        s.check(d[1] <= 1e-9, "lengths", f"{what}: largest relative length difference {d[1]:.3e}")
    s.nontrivial = nfp[1] - nfp[0] >= 2 or bool(null_omega)
    s.evals = 2
    return s


# ------------------------------------------------------------------- optimise
OPT_MODELS = ["JC69", "K80", "F81", "HKY85", "HKY85", "TN93", "GTR", "GTR", "ssGN", "GN"]
RATE_BOUNDS = [(1e-6, 1e6), (1e-6, 1e6), (1e-6, 50.0), (0.5, 2.0), (0.9, 1.1), (1.0, 5.0), (0.01, 1.0), (2.0, 100.0)]
LEN_BOUNDS = [(0.0, 10.0), (0.0, 10.0), (1e-6, 50.0), (0.01, 0.5), (0.0, 0.05), (0.2, 3.0)]


def _within(draw, lo, hi):
    u = draw(st.sampled_from([0.0, 1.0] + [None] * 8))
    if u is None:
        u = draw(st.floats(0.0, 1.0, allow_nan=False, allow_infinity=False))
    lo_ = max(lo, 1e-6) if hi / max(lo, 1e-6) > 100 else lo
    if lo_ > 0 and hi / lo_ > 100:  # wide bounds: log scale, stay in a sane region
        lo_, hi_ = max(lo_, 0.02), min(hi, 30.0)
        return round(lo_ * (hi_ / lo_) ** u, 6)
    return min(hi, max(lo, round(lo + (hi - lo) * u, 6)))


@st.composite
def opt_cases(draw):
    tkey = draw(st.sampled_from(["t3", "t4", "t4", "t4r", "t5", "t5c"]))
    tmodel = TREES[tkey][1]
    edges = tree_edges(tmodel)
    rows = draw(alignments(tree_tips(tmodel), lengths=(12, 20, 40, 60, 120)))
    name = draw(st.sampled_from(OPT_MODELS))
    params = list(NUC[name][2])
    free_pi = draw(st.booleans())
    scope_par = draw(st.sampled_from(params)) if params and draw(st.integers(0, 3)) == 0 else None
    rates = {}
    for p in params:
        lo, hi = draw(st.sampled_from(RATE_BOUNDS))
        if p == scope_par:
            rates[p] = {"lower": lo, "upper": hi, "init": {e: _within(draw, lo, hi) for e in edges}}
        else:
            rates[p] = {"lower": lo, "upper": hi, "init": _within(draw, lo, hi)}
    lo, hi = draw(st.sampled_from(LEN_BOUNDS))
    lengths = {"lower": lo, "upper": hi, "init": {e: max(_within(draw, lo, hi), min(hi, 1e-4)) for e in edges}}
    local = draw(st.sampled_from([True, True, True, True, None, None, False]))
    opt = {
        "local": local,
        "max_evaluations": draw(st.integers(1, 30)) if draw(st.booleans()) else draw(st.sampled_from([50, 100, 100, 400] + ([3000, 3000] if local else []))),
        "tolerance": draw(st.sampled_from([1e-8, 1e-6, 1e-6, 1e-3, 0.1])),
        "limit_action": draw(st.sampled_from(["ignore", "ignore", "warn", "raise"])),
    }
    if local is not False:
        opt["max_restarts"] = draw(st.sampled_from([None, 0, 1, 3]))
    if local is not True:
        opt["global_tolerance"] = draw(st.sampled_from([1e-3, 0.1, 1.0]))
        opt["seed"] = draw(st.integers(0, 10**6))
    return {
        "tree": tkey,
        "rows": rows,
        "model": name,
        "free_pi": free_pi,
        "pi": _pi(draw) if free_pi and not NUC[name][1] and draw(st.booleans()) else None,
        "scope_par": scope_par,
        "rates": rates,
        "lengths": lengths,
        "opt": opt,
    }


def exec_opt(case) -> Soft:
    s = Soft("C16/optimise/")
    tkey = case["tree"]
    newick, tmodel = TREES[tkey]
    edges = tree_edges(tmodel)
    rows = {str(k): str(v) for k, v in case["rows"].items()}
    name = case["model"]
    mspec = {"kind": "named", "name": name}
    params = model_params(mspec)
    cells = model_cells(mspec)
    opt = dict(case["opt"])
    mode = {True: "local", None: "global+local", False: "global"}[opt["local"]]

    ok, lf = s.call("build", make_lf, mspec, case["free_pi"], newick, rows)
    if not ok:
        return s
    _check_tree(lf, tkey)

    def settings():
        if case.get("pi") is not None:
            lf.set_motif_probs(dict(zip(BASES, _norm_pi([float(x) for x in case["pi"]]))))
        for p in params:
            r = case["rates"][p]
            if isinstance(r["init"], dict):
                lf.set_param_rule(p, is_independent=True, lower=float(r["lower"]), upper=float(r["upper"]), init=float(r["init"][edges[0]]))
                for e in edges:
                    lf.set_param_rule(p, edge=e, lower=float(r["lower"]), upper=float(r["upper"]), init=float(r["init"][e]))
            else:
                lf.set_param_rule(p, lower=float(r["lower"]), upper=float(r["upper"]), init=float(r["init"]))
        ln = case["lengths"]
        for e in edges:
            lf.set_param_rule("length", edge=e, lower=float(ln["lower"]), upper=float(ln["upper"]), init=float(ln["init"][e]))

    ok, _ = s.call("settings", settings)
    if not ok:
        return s
    ok, before = s.call("lnL-before", lambda: float(lf.lnL))
    if not ok:
        return s
    me = int(opt["max_evaluations"])
    s.cls(f"mode:{mode}", f"model:{name}", "max_evaluations:" + ("1" if me == 1 else "2-5" if me <= 5 else "6-30" if me <= 30 else "50-400" if me <= 400 else "3000"))
    s.cls(f"limit_action:{opt['limit_action']}", f"tree:{tkey}")
    s.cls("scoped-parameter" if case["scope_par"] else "global-parameters", "pi:free" if case["free_pi"] else "pi:const")
    if not math.isfinite(before):
        s.cls("start-not-finite")
        return s
    ok, nfp = s.call("nfp", lf.get_num_free_params)
    if not ok:
        return s

    kw = {k: v for k, v in opt.items()}
    kw["show_progress"] = False
    kw["return_calculator"] = True
    allowed = (ArithmeticError,) if opt["limit_action"] == "raise" else ()
    with warnings.catch_warnings(record=True) as wlist:
        warnings.simplefilter("always")
        ok, lc = s.call(f"optimise/{mode}", lambda: lf.optimise(**kw), allowed=allowed)
    forced = any("FORCED EXIT" in str(w.message) for w in wlist)
    if not ok:
        if not isinstance(lc, ArithmeticError):
            return s
        s.cls("raised-ArithmeticError")
        forced = True
        lc = None
    elif lc is not None and getattr(lc, "evaluations", 0) > int(opt["max_evaluations"]):
        forced = True
    s.cls("hit-evaluation-limit" if forced else "finished-within-limit")
    s.nontrivial = forced and nfp > 0

    ok, after = s.call("lnL-after", lambda: float(lf.lnL))
    if not ok:
        return s
    what = f"{name} tree {tkey} free_pi {case['free_pi']} rates {case['rates']} lengths {case['lengths']} optimise({opt}): lnL before {before!r} after {after!r}"
    s.check(after >= before - 1e-9 * max(1.0, abs(before)), f"lost-likelihood/{mode}/{'limit' if forced else 'finished'}", what + f" (loss {before - after:.3e})")
    if after > before + 1e-9:
        s.cls("improved")
    else:
        s.cls("unchanged")

    ok, state = s.call("read", read_state, lf, params, edges)
    if not ok:
        return s
    pi, rates, lengths = state

    def inb(v, lo, hi):
        return lo - 1e-9 * max(1.0, abs(lo)) <= v <= hi + 1e-9 * max(1.0, abs(hi))

    for p in params:
        r = case["rates"][p]
        bad = [(e, rates[e][p]) for e in edges if not inb(rates[e][p], float(r["lower"]), float(r["upper"]))]
        s.check(not bad, f"bounds/rate/{mode}", f"{what}: {p} declared [{r['lower']}, {r['upper']}] reported {bad[:3]}")
        if float(r["upper"]) / float(r["lower"]) <= 10:
            s.cls("tight-rate-bounds")
            if any(min(abs(rates[e][p] - float(r["lower"])), abs(rates[e][p] - float(r["upper"]))) <= 1e-6 for e in edges):
                s.cls("rate-at-bound")
    ln = case["lengths"]
    bad = [(e, lengths[e]) for e in edges if not inb(lengths[e], float(ln["lower"]), float(ln["upper"]))]
    s.check(not bad, f"bounds/length/{mode}", f"{what}: length declared [{ln['lower']}, {ln['upper']}] reported {bad[:3]}")
    if any(min(abs(lengths[e] - float(ln["lower"])), abs(lengths[e] - float(ln["upper"]))) <= 1e-6 for e in edges):
        s.cls("length-at-bound")
    s.check(all(-1e-12 <= x <= 1 + 1e-12 for x in pi) and abs(sum(pi) - 1) <= 1e-9, f"bounds/motif-probs/{mode}", f"{what}: motif probs {pi}")
    if not case["free_pi"] and case.get("pi") is None and NUC[name][1]:
        s.check(all(abs(x - 0.25) <= 1e-12 for x in pi), "constant-motif-probs-changed", f"{what}: {pi}")
    # the reported parameters reproduce the reported likelihood (independent evaluation)
    if min(pi) > PI_FLOOR:
        ref = ref_lnl(tmodel, rows, model_family(mspec), cells, rates, lengths, pi)
        s.check(rel_ok(after, ref, 1e-7), f"lnL-vs-reference-at-reported-values/{mode}", f"{what}: reference at reported values {ref!r}")
    else:
        s.cls("motif-prob-at-floor:reference-not-compared")
    if lc is not None:
        s.evals = max(1, int(getattr(lc, "evaluations", 1)))
    return s


# ------------------------------------------------------------------------ app
APP_BOX = (1e-6, 50.0)  # lower / upper defaults of the model app
NATSEL_EPS = 1e-6  # "epsilon" in natsel_zhang / natsel_sitehet


@st.composite
def _opt_args(draw, evals=(1, 3, 10, 30)):
    """optimiser settings of the apps: evaluation limit never fatal; local Powell mostly, sometimes annealing (+ Powell)"""
    opt = {
        "max_evaluations": draw(st.sampled_from(list(evals))),
        "max_restarts": draw(st.sampled_from([0, 1, 5])),
        "tolerance": draw(st.sampled_from([1e-6, 1e-3])),
        "local": draw(st.sampled_from([True, True, True, True, None, False])),
    }
    if opt["local"] is not True:
        opt["global_tolerance"] = draw(st.sampled_from([1e-3, 0.1, 1.0]))
        opt["seed"] = draw(st.integers(0, 10**6))
    return opt


def _opt_kwargs(opt):
    kw = dict(max_evaluations=int(opt["max_evaluations"]), limit_action="ignore", max_restarts=int(opt["max_restarts"]), tolerance=float(opt["tolerance"]))
    if opt.get("local", True) is not True:
        kw.update(local=opt["local"], global_tolerance=float(opt["global_tolerance"]), seed=int(opt["seed"]))
    return kw


def _inside(v, lo, hi):
    return lo - 1e-9 * max(1.0, abs(lo)) <= v <= hi + 1e-9 * max(1.0, abs(hi))


@st.composite
def app_cases(draw):
    tkey = draw(st.sampled_from(["t3", "t4", "t4", "t5", "t5c"]))
    tmodel = TREES[tkey][1]
    rows = draw(alignments(tree_tips(tmodel), lengths=(20, 40, 60, 120)))
    pick = draw(st.integers(0, 5))
    if pick <= 1:
        chain = list(draw(st.sampled_from(CHAINS3)))
    elif pick == 2:
        chain = list(draw(st.sampled_from(CROSS_PAIRS)))
    else:
        chain = list(draw(st.sampled_from(STRUCT_PAIRS)))
    models = []
    for i, m in enumerate(chain):
        uniform = NUC[m][1]
        models.append(
            {
                "sm": m,
                "free_pi": (not uniform) and (i > 0 or draw(st.booleans())),
                "max_evaluations": draw(st.sampled_from([1, 5, 25, 100])),
                "max_restarts": draw(st.sampled_from([0, 1, 5])),
                "tolerance": draw(st.sampled_from([1e-6, 1e-3])),
                # Powell / annealing then Powell / annealing only (the annealer always with an explicit seed)
                "local": draw(st.sampled_from([True, True, True, True, None, None, False])),
            }
        )
        if models[-1]["local"] is not True:
            models[-1]["global_tolerance"] = draw(st.sampled_from([1e-3, 0.1, 1.0]))
            models[-1]["seed"] = draw(st.integers(0, 10**6))
    # the null may hold some of its rate parameters constant (param_rules of the model app)
    nullpars = list(NUC[chain[0]][2])
    if nullpars and draw(st.booleans()):
        models[0]["const"] = {p: draw(st.sampled_from(CONST_VALUES)) for p in _subset(draw, nullpars, 1, len(nullpars) if draw(st.booleans()) else 1)}
    # once motif probs are free they stay free along the chain
    seen = False
    for m in models:
        if seen and not NUC[m["sm"]][1]:
            m["free_pi"] = True
        seen = seen or m["free_pi"]
    time_het = None
    last = chain[-1]
    if NUC[last][2] and draw(st.integers(0, 2)) == 0:
        time_het = "max"
        if draw(st.booleans()):  # the documented list-of-edge-sets form
            edges = tree_edges(tmodel)
            time_het = {"edges": _subset(draw, edges, 1, len(edges) - 1), "is_independent": draw(st.booleans())}
    return {"tree": tkey, "rows": rows, "models": models, "time_het_last": time_het}


def exec_app(case) -> Soft:
    from cogent3 import get_app, make_aligned_seqs

    s = Soft("C16/app/")
    tkey = case["tree"]
    newick = TREES[tkey][0]
    rows = {str(k): str(v) for k, v in case["rows"].items()}
    specs = case["models"]
    kind = "hypothesis" if len(specs) == 2 else "model_collection"

    def build():
        apps = []
        for i, m in enumerate(specs):
            kw = {}
            if any(NUC[x["sm"]][0] == "ns" for x in specs[: i + 1]) and NUC[specs[0]["sm"]][0] == "tr":
                kw["lower"], kw["upper"] = WIDE_BOUNDS
            if i == len(specs) - 1 and case.get("time_het_last"):
                th_ = case["time_het_last"]
                kw["time_het"] = th_ if isinstance(th_, str) else [dict(edges=list(th_["edges"]), is_independent=bool(th_["is_independent"]))]
            if m.get("const"):
                kw["param_rules"] = [dict(par_name=p, is_constant=True, value=float(v)) for p, v in sorted(m["const"].items())]
            apps.append(
                get_app(
                    "model",
                    m["sm"],
                    tree=newick,
                    name=f"m{i}-{m['sm']}",
                    optimise_motif_probs=bool(m["free_pi"]),
                    opt_args=_opt_kwargs(m),
                    **kw,
                )
            )
        return get_app(kind, *apps)

    ok, app = s.call("build", build)
    if not ok:
        return s
    aln = make_aligned_seqs(rows, moltype="dna", info={"source": "c16"})
    with warnings.catch_warnings():
        warnings.simplefilter("ignore")
        ok, res = s.call(kind, lambda: app(aln))
    if not ok:
        return s
    s.cls(f"app:{kind}", f"tree:{tkey}", "chain:" + "<".join(m["sm"] for m in specs), "time-het-alt" if case.get("time_het_last") else "homogeneous")
    for m in specs:
        s.cls(f"max_evaluations:{m['max_evaluations']}", "optimiser:" + {True: "local", None: "global+local", False: "global"}[m.get("local", True)])
    if isinstance(case.get("time_het_last"), dict):
        s.cls("time-het-alt:edge-set", "time-het-alt:edge-set/" + ("independent" if case["time_het_last"]["is_independent"] else "shared"))
    if specs[0].get("const"):
        cross = NUC[specs[0]["sm"]][0] != NUC[specs[1]["sm"]][0]
        s.cls("null:constant-rate-parameter", "null:constant-rate-parameter/" + ("reversible->non-reversible" if cross else "same-class"))
    what = f"{kind} {[{k: v for k, v in m.items()} for m in specs]} time_het_last={case.get('time_het_last')} tree {tkey}"
    if type(res).__name__ == "NotCompleted":
        s.fail(f"{kind}/not-completed", f"{what}: {str(res)[:300]}")
        return s

    def stats():
        out = []
        for i, m in enumerate(specs):
            r = res[f"m{i}-{m['sm']}"]
            out.append((float(r.lnL), int(r.nfp)))
        return out

    ok, st_ = s.call("read", stats)
    if not ok:
        return s
    th = "/time-het" if case.get("time_het_last") else ""
    for i in range(1, len(st_)):
        (l0, n0), (l1, n1) = st_[i - 1], st_[i]
        if n1 <= n0:
            s.cls("not-richer")
            continue
        if kind == "hypothesis":
            break  # judged through LR below
        last = th if i == len(st_) - 1 else ""
        s.check(l1 >= l0 - 5e-7, f"lnL-decreases-along-chain{last}", f"{what}: {specs[i - 1]['sm']} lnL {l0!r} nfp {n0} -> {specs[i]['sm']} lnL {l1!r} nfp {n1}")
    if kind == "hypothesis" and st_[1][1] > st_[0][1]:
        ok, lr = s.call("LR", lambda: float(res.LR))
        if ok:
            s.check(lr >= -1e-6, f"negative-LR{th}", f"{what}: LR {lr!r}")
            s.check(abs(lr - 2 * (st_[1][0] - st_[0][0])) <= 1e-9 * max(1.0, abs(lr)), "LR-definition", f"{what}: LR {lr!r} lnLs {st_}")
    # every fitted value inside the box its model app declared (constants at their declared value)
    edges = tree_edges(TREES[tkey][1])

    def fitted(i, m):
        lf = res[f"m{i}-{m['sm']}"].lf
        out = {(p, e): float(lf.get_param_value(p, edge=e)) for p in NUC[m["sm"]][2] for e in edges}
        out.update({("length", e): float(lf.get_param_value("length", edge=e)) for e in edges})
        return out

    for i, m in enumerate(specs):
        wide = any(NUC[x["sm"]][0] == "ns" for x in specs[: i + 1]) and NUC[specs[0]["sm"]][0] == "tr"
        lo, hi = WIDE_BOUNDS if wide else APP_BOX
        with warnings.catch_warnings():
            warnings.simplefilter("ignore")
            ok, vals = s.call("read-values", fitted, i, m)
        if not ok:
            continue
        const = m.get("const") or {}
        bad = [(k, v) for k, v in sorted(vals.items()) if not (_inside(v, float(const[k[0]]), float(const[k[0]])) if k[0] in const else _inside(v, lo, hi))]
        s.check(not bad, "bounds", f"{what}: model {i} ({m['sm']}) box [{lo}, {hi}] constants {const}: outside {bad[:4]}")
    s.nontrivial = st_[-1][1] - st_[0][1] >= 2
    s.evals = len(specs)
    return s


# ------------------------------------------------------------ app, codon chains
# reversible codon nulls fitted through the apps, then GNC started from them (the step the natsel apps never take)
CODON_CHAINS = [["MG94HKY", "GNC"], ["MG94HKY", "GNC"], ["MG94GTR", "GNC"], ["MG94HKY", "MG94GTR", "GNC"], ["MG94HKY", "MG94GTR"]]
CODON_RATE_PARAMS = {
    "MG94HKY": ["kappa", "omega"],
    "MG94GTR": ["A/C", "A/G", "A/T", "C/G", "C/T", "omega"],
    "GNC": list(NUC["GN"][2]) + ["omega"],
}


@st.composite
def app_codon_cases(draw):
    tkey = draw(st.sampled_from(["t3", "t3", "t4", "t4r", "t5"]))
    tmodel = TREES[tkey][1]
    chain = list(draw(st.sampled_from(CODON_CHAINS)))
    models = []
    for m in chain:
        spec = draw(_opt_args(evals=(1, 5, 25)))
        spec["sm"] = m
        models.append(spec)
    # the canonical neutral null now and then (omega constant at 1 in the first model only)
    if draw(st.integers(0, 3)) == 0:
        models[0]["const"] = {"omega": 1.0}
    return {"tree": tkey, "rows": draw(codon_rows(tree_tips(tmodel), lengths=(8, 12, 16))), "models": models}


def exec_app_codon(case) -> Soft:
    from cogent3 import get_app, make_aligned_seqs

    s = Soft("C16/app-codon/")
    tkey = case["tree"]
    newick = TREES[tkey][0]
    edges = tree_edges(TREES[tkey][1])
    rows = {str(k): str(v) for k, v in case["rows"].items()}
    specs = case["models"]
    kind = "hypothesis" if len(specs) == 2 else "model_collection"
    names = [f"m{i}-{m['sm']}" for i, m in enumerate(specs)]

    def wide(i):
        return any(x["sm"] == "GNC" for x in specs[: i + 1])

    def build():
        apps = []
        for i, m in enumerate(specs):
            kw = {}
            if wide(i):
                kw["lower"], kw["upper"] = WIDE_BOUNDS
            if m.get("const"):
                kw["param_rules"] = [dict(par_name=p, is_constant=True, value=float(v)) for p, v in sorted(m["const"].items())]
            apps.append(get_app("model", codon_sm(m["sm"]), tree=newick, name=names[i], optimise_motif_probs=True, opt_args=_opt_kwargs(m), **kw))
        return get_app(kind, *apps)

    ok, app = s.call("build", build)
    if not ok:
        return s
    aln = make_aligned_seqs(rows, moltype="dna", info={"source": "c16"})
    with warnings.catch_warnings():
        warnings.simplefilter("ignore")
        ok, res = s.call(kind, lambda: app(aln))
    if not ok:
        return s
    s.cls(f"app:{kind}", f"tree:{tkey}", "chain:" + "<".join(m["sm"] for m in specs), "null-omega:constant-1.0" if specs[0].get("const") else "null-omega:free")
    for m in specs:
        s.cls(f"max_evaluations:{m['max_evaluations']}", "optimiser:" + {True: "local", None: "global+local", False: "global"}[m.get("local", True)])
    what = f"{kind} {specs} tree {tkey} {len(rows)} taxa x {len(next(iter(rows.values()))) // 3} codons"
    if type(res).__name__ == "NotCompleted":
        s.fail(f"{kind}/not-completed", f"{what}: {str(res)[:300]}")
        return s

    def stats():
        return [(float(res[n].lnL), int(res[n].nfp)) for n in names]

    ok, st_ = s.call("read", stats)
    if not ok:
        return s
    what += f": (lnL, nfp) {st_}"

    def step_tag(i):
        return "/reversible-to-GNC" if specs[i]["sm"] == "GNC" and specs[i - 1]["sm"] != "GNC" else ""

    for i in range(1, len(st_)):
        (l0, n0), (l1, n1) = st_[i - 1], st_[i]
        if n1 <= n0:
            s.cls("not-richer")
            continue
        if kind == "hypothesis":
            ok, lr = s.call("LR", lambda: float(res.LR))
            if ok:
                s.check(lr >= -1e-6, f"negative-LR{step_tag(i)}", f"{what}: LR {lr!r}")
                s.check(abs(lr - 2 * (l1 - l0)) <= 1e-9 * max(1.0, abs(lr)), "LR-definition", f"{what}: LR {lr!r}")
        else:
            s.check(l1 >= l0 - 5e-7, f"lnL-decreases-along-chain{step_tag(i)}", f"{what}: step {i}")
    for i, m in enumerate(specs):
        lo, hi = WIDE_BOUNDS if wide(i) else APP_BOX
        lf = res[names[i]].lf

        def fitted():
            out = {(p, e): float(lf.get_param_value(p, edge=e)) for p in CODON_RATE_PARAMS[m["sm"]] for e in edges}
            out.update({("length", e): float(lf.get_param_value("length", edge=e)) for e in edges})
            return out

        with warnings.catch_warnings():
            warnings.simplefilter("ignore")
            ok, vals = s.call("read-values", fitted)
        if not ok:
            continue
        const = m.get("const") or {}
        bad = [(k, v) for k, v in sorted(vals.items()) if not (_inside(v, float(const[k[0]]), float(const[k[0]])) if k[0] in const else _inside(v, lo, hi))]
        s.check(not bad, "bounds", f"{what}: model {i} ({m['sm']}) box [{lo}, {hi}] constants {const}: outside {bad[:4]}")
    # the property's core without _InitFrom's "except Exception: pass": the fitted GNC re-initialised from the fitted
    # reversible model before it. Every rate of GNC gets a value from the null (from a parameter or from its reference
    # cells) and so do its codon probabilities, so no fitted value survives the call.
    last = len(specs) - 1
    if step_tag(last) and st_[last][1] > st_[last - 1][1]:
        nlf, alf = res[names[last - 1]].lf, res[names[last]].lf
        with warnings.catch_warnings():
            warnings.simplefilter("ignore")
            ok, _ = s.call("initialise_from_nested/reversible-to-GNC", alf.initialise_from_nested, nlf)
            if ok:
                ok, l2 = s.call("alt-lnL", lambda: float(alf.lnL))
            if ok:
                ok, pmin = s.call("null-motif-probs", lambda: min(float(x) for x in nlf.get_motif_probs().array))
            if ok and pmin <= PI_FLOOR:
                # a fitted monomer probability at get_motif_probs' 1e-6 floor is reported lifted: the projection cannot be exact
                s.cls("motif-prob-at-floor:init-lnL-not-compared")
            elif ok:
                l0 = st_[last - 1][0]
                s.check(abs(l2 - l0) <= 1e-6, "init-lnL/reversible-to-GNC", f"{what}: GNC.lnL right after initialise_from_nested(fitted {specs[last - 1]['sm']}) {l2!r} (diff {l2 - l0:.3e})")
    s.nontrivial = st_[-1][1] - st_[0][1] >= 2 and max(int(m["max_evaluations"]) for m in specs[1:]) > 1
    s.evals = len(specs) + 1
    return s


# ---------------------------------------------------------- dinucleotide pairs
# word models over the 16 dinucleotides, one nucleotide changing at a time; the motif-probability term of a cell is
#   monomer:      pi(new nucleotide)                      (4 probabilities; word probability = product)
#   tuple:        pi(new dinucleotide)                    (16 probabilities)
#   conditional:  pi(new dinucleotide) / sum of pi over the 4 dinucleotides sharing the unchanged position
# null: TimeReversibleDinucleotide with F81- / HKY- / GTR-like predicates; alt: the general non-reversible model with 11
# directed rates (nested for every monomer vector, for tuple / conditional only with 16 equal probabilities) or the
# GTR-like reversible model with the same motif-probability model (nested for every vector)
DINUC_STATES = [a + b for a in BASES for b in BASES]
DINUC_PREDS = {
    "none": {},
    "kappa": {"kappa": ["AG", "CT"]},
    "gtr": {"A/C": ["AC"], "A/G": ["AG"], "A/T": ["AT"], "C/G": ["CG"], "C/T": ["CT"]},
}
DINUC_MASKS = ["." * 12 + "sv", "." * 6 + "ssv", "." * 3 + "ssvv"]


def dinuc_sm(kind, mprob_model):
    """kind: 'none' / 'kappa' / 'gtr' (reversible) or 'general' (non-reversible); one pristine instance per process"""
    import copy

    key = ("dinuc", kind, mprob_model)
    if key not in _PRISTINE:
        from cogent3.evolve.ns_substitution_model import NonReversibleDinucleotide
        from cogent3.evolve.predicate import MotifChange
        from cogent3.evolve.substitution_model import TimeReversibleDinucleotide

        if kind == "general":
            preds = [MotifChange(p[0], p[2], forward_only=True) for p in NUC["GN"][2]]
            _PRISTINE[key] = NonReversibleDinucleotide(predicates=preds, mprob_model=mprob_model, optimise_motif_probs=True, recode_gaps=True, name="dinuc-general")
        else:
            preds = {}
            for p, pairs in sorted(DINUC_PREDS[kind].items()):
                pred = None
                for pair in pairs:
                    mc = MotifChange(pair[0], pair[1])
                    pred = mc if pred is None else (pred | mc)
                preds[p] = pred
            _PRISTINE[key] = TimeReversibleDinucleotide(predicates=preds, mprob_model=mprob_model, optimise_motif_probs=True, recode_gaps=True, name=f"dinuc-{kind}-{mprob_model}")
    return copy.deepcopy(_PRISTINE[key])


def dinuc_word_probs(mprob_model, pi):
    """{dinucleotide: probability}; pi: 4 monomer values (BASES order) or 16 word values (DINUC_STATES order)"""
    if mprob_model == "monomer":
        w = {ab: pi[IDX[ab[0]]] * pi[IDX[ab[1]]] for ab in DINUC_STATES}
    else:
        w = dict(zip(DINUC_STATES, pi))
    tot = sum(w.values())
    return {k: v / tot for k, v in w.items()}


def ref_lnl_dinuc(tree_model, rows, mprob_model, cells, rates, lengths, pi):
    """pruning over the 16 dinucleotide states for a time-reversible word model (A C G T only in rows)"""
    import numpy
    from scipy.linalg import expm

    word = dinuc_word_probs(mprob_model, pi)
    n = len(DINUC_STATES)
    sidx = {ab: i for i, ab in enumerate(DINUC_STATES)}
    q = numpy.zeros((n, n))
    for a in DINUC_STATES:
        for b in DINUC_STATES:
            diff = [k for k in (0, 1) if a[k] != b[k]]
            if len(diff) != 1:
                continue
            k = diff[0]
            x, y = a[k], b[k]
            r = 1.0
            for p, cs in cells.items():
                if (x, y) in cs:
                    r *= rates[p]
            if mprob_model == "monomer":
                w = pi[IDX[y]]
            elif mprob_model == "tuple":
                w = word[b]
            else:
                w = word[b] / sum(word[c] for c in DINUC_STATES if c[1 - k] == b[1 - k])
            q[sidx[a], sidx[b]] = r * w
    for i in range(n):
        q[i, i] = -q[i].sum()
    root = numpy.array([word[ab] for ab in DINUC_STATES])
    q = q / -(root * numpy.diag(q)).sum()
    psub = {e: expm(q * lengths[e]) for e in lengths}
    tips = sorted(rows)
    L = len(rows[tips[0]]) // 2
    cols = {}
    for k in range(L):
        col = tuple(rows[t][2 * k : 2 * k + 2] for t in tips)
        cols[col] = cols.get(col, 0) + 1
    total = 0.0
    for col, cnt in sorted(cols.items()):
        sym = dict(zip(tips, col))

        def partial(node):
            name, kids = node
            if not kids:
                v = numpy.zeros(n)
                v[sidx[sym[name]]] = 1.0
                return v
            v = numpy.ones(n)
            for kid in kids:
                v = v * (psub[kid[0]] @ partial(kid))
            return v

        lk = float(root @ partial(tree_model))
        if lk <= 0:
            return -math.inf
        total += cnt * math.log(lk)
    return total


@st.composite
def dinuc_cases(draw):
    tkey = draw(st.sampled_from(["t3", "t3", "t4", "t4r", "t5"]))
    tmodel = TREES[tkey][1]
    edges = tree_edges(tmodel)
    L = draw(st.sampled_from([12, 20, 40]))
    base = _text(draw, draw(st.sampled_from(BASE_ALPHABETS)), L)
    mask_alpha = draw(st.sampled_from(DINUC_MASKS))
    rows = {}
    for t in tree_tips(tmodel):
        mask = _text(draw, mask_alpha, L)
        rows[t] = "".join(ch if m == "." else TS[ch] if m == "s" else TV[ch] for ch, m in zip(base, mask))
    alt_kind = draw(st.sampled_from(["general", "general", "general", "gtr"]))
    nkind = draw(st.sampled_from(["none", "kappa", "kappa", "gtr"] if alt_kind == "general" else ["none", "kappa"]))
    mpm = draw(st.sampled_from(["monomer", "monomer", "tuple", "conditional"]))
    if mpm == "monomer":
        pi = _pi(draw) if draw(st.integers(0, 3)) else None  # None: from the data
    elif alt_kind == "general":
        pi = [1.0] * 16  # pi(new dinucleotide) must not depend on the dinucleotide
    else:
        pi = [round(draw(st.floats(0.1, 1.0, allow_nan=False, allow_infinity=False)), 4) for _ in range(16)]
    scope = None
    if draw(st.integers(0, 2)) == 0 and len(edges) >= 2:
        par = draw(st.sampled_from(["A>G", "C>A", "G>T"] if alt_kind == "general" else ["A/G", "A/C", "C/G"]))
        if draw(st.booleans()):
            scope = {"par": par, "mode": "indep", "edges": edges}
        else:
            scope = {"par": par, "mode": "shared", "edges": _subset(draw, edges, 1, len(edges) - 1)}
    return {
        "tree": tkey,
        "rows": rows,
        "null": {"preds": nkind, "mprob_model": mpm, "pi": pi, "rates": {p: _rate(draw) for p in sorted(DINUC_PREDS[nkind])}, "lengths": {e: _length(draw) for e in edges}},
        "alt": {"kind": alt_kind, "mprob_model": draw(st.sampled_from(["tuple", None])) if alt_kind == "general" else mpm, "scope": scope},
    }


def exec_dinuc(case) -> Soft:
    from cogent3 import make_aligned_seqs, make_tree

    s = Soft("C16/init-dinuc/")
    tkey = case["tree"]
    newick, tmodel = TREES[tkey]
    edges = tree_edges(tmodel)
    rows = {str(k): str(v) for k, v in case["rows"].items()}
    null_c, alt_c = case["null"], case["alt"]
    mpm = str(null_c["mprob_model"])
    scope = alt_c["scope"]
    general = alt_c["kind"] == "general"
    if general and mpm != "monomer" and len(set(null_c["pi"])) != 1:
        raise HarnessError("tuple / conditional dinucleotide nulls lie inside the general model only with equal probabilities: case not in the domain")
    cells = {p: _both(*pairs) for p, pairs in DINUC_PREDS[null_c["preds"]].items()}

    def build(sm):
        lf = sm.make_likelihood_function(make_tree(newick))
        lf.set_alignment(make_aligned_seqs({k: rows[k] for k in sorted(rows)}, moltype="dna", info={"source": "c16"}))
        return lf

    ok, null = s.call("null/build", lambda: build(dinuc_sm(null_c["preds"], mpm)))
    if not ok:
        return s
    ok, alt = s.call("alt/build", lambda: build(dinuc_sm(alt_c["kind"], alt_c["mprob_model"] if general else mpm)))
    if not ok:
        return s
    _check_tree(null, tkey)

    def settings():
        if null_c["pi"] is not None:
            keys = list(BASES) if mpm == "monomer" else DINUC_STATES
            null.set_motif_probs(dict(zip(keys, _norm_pi([float(x) for x in null_c["pi"]]))))
        for p, v in sorted(null_c["rates"].items()):
            null.set_param_rule(p, init=float(v))
        for e in edges:
            null.set_param_rule("length", edge=e, init=float(null_c["lengths"][e]))

    ok, _ = s.call("null/settings", settings)
    if not ok:
        return s
    ok, _ = s.call(f"alt/scope:{scope['mode'] if scope else 'none'}", apply_alt_scope, alt, scope)
    if not ok:
        return s
    circ = ("reversible-to-general" if general else "reversible-to-reversible") + f"/{mpm}-motif-probs"
    scirc = "scoped" if scope else "global"
    s.cls(f"pair:{null_c['preds']}<{alt_c['kind']}", f"mprob_model:{mpm}", f"alt-mprob_model:{alt_c['mprob_model']}", f"alt-scope:{scope['mode'] if scope else 'none'}", f"tree:{tkey}", "circ:" + circ)
    s.cls("null-pi:data" if null_c["pi"] is None else "null-pi:equal" if len(set(null_c["pi"])) == 1 else "null-pi:random")
    ok, nfp = s.call("nfp", lambda: (null.get_num_free_params(), alt.get_num_free_params()))
    if not ok:
        return s
    if nfp[1] <= nfp[0]:
        s.cls("not-richer")
        return s
    ok, lnl0 = s.call("null/lnL", lambda: float(null.lnL))
    if not ok or not math.isfinite(lnl0):
        return s

    def reported_pi():
        mp = null.get_motif_probs()
        return [float(mp[k]) for k in (BASES if mpm == "monomer" else DINUC_STATES)]

    ok, pi0 = s.call("null/read", reported_pi)
    if not ok:
        return s
    # data frequencies are taken as reported (how they are counted is not this property)
    want_pi = _norm_pi([float(x) for x in null_c["pi"]]) if null_c["pi"] is not None else pi0
    want_len = {e: float(null_c["lengths"][e]) for e in edges}
    what = f"dinucleotide null {null_c} alt {alt_c} tree {tkey}"
    # a nucleotide absent from the data: get_motif_probs reports its 1e-6 floor, not the value in use, so neither the
    # reference nor the carried-over probabilities can be computed from the reported vector
    floor = min(pi0) <= PI_FLOOR or min(dinuc_word_probs(mpm, want_pi).values()) <= PI_FLOOR
    ref = None
    if floor:
        s.cls("motif-prob-at-floor:reference-not-compared")
    else:
        ref = ref_lnl_dinuc(tmodel, rows, mpm, cells, {p: float(v) for p, v in null_c["rates"].items()}, want_len, want_pi)
        s.check(rel_ok(lnl0, ref, 1e-7), "null-lnL-vs-reference", f"{what}: lf.lnL {lnl0!r} reference {ref!r}")
    ok, _ = s.call(f"initialise_from_nested/{circ}/{scirc}", alt.initialise_from_nested, null)
    if not ok:
        s.cls("init:raised")
        return s
    ok, lnl1 = s.call("alt/lnL", lambda: float(alt.lnL))
    if not ok:
        return s
    what += f": null.lnL {lnl0!r} alt.lnL {lnl1!r} diff {lnl1 - lnl0:.3e}"
    if s.check(abs(lnl1 - lnl0) <= 1e-6, f"lnL/{circ}/{scirc}", what) and ref is not None:
        s.check(rel_ok(lnl1, ref, 1e-7), f"lnL-vs-reference/{circ}/{scirc}", what + f" reference {ref!r}")

    def carried():
        b = alt.get_motif_probs()
        if len(list(b.keys())) == 16:
            a = dinuc_word_probs(mpm, want_pi)
        else:
            a = dict(zip(BASES, want_pi))
        dpi = max(abs(float(a[k]) - float(b[k])) for k in b.keys())
        dlen = max(abs(float(alt.get_param_value("length", edge=e)) - want_len[e]) / max(1.0, want_len[e]) for e in edges)
        return dpi, dlen

    ok, d = s.call("alt/read", carried)
    if ok:
        if not floor:
            s.check(d[0] <= 1e-9, "motif-probs", f"{what}: largest motif-probability difference {d[0]:.3e}")
        s.check(d[1] <= 1e-9, "lengths", f"{what}: largest relative length difference {d[1]:.3e}")
    s.nontrivial = nfp[1] - nfp[0] >= 2 and max(want_pi) - min(want_pi) > 1e-3
    s.evals = 2
    return s


# --------------------------------------------------------------------- natsel
# the library's own nested-hypothesis apps (cogent3/app/evo.py); foreground clades: sibling tips below a named internal edge
NATSEL_APPS = ["natsel_neutral", "natsel_timehet", "natsel_timehet", "natsel_sitehet", "natsel_zhang"]
NATSEL_MODELS = ["MG94HKY", "MG94HKY", "GY94", "Y98", "Y98", "CNFGTR", "H04GK", "GNC"]
FG_PAIRS = {
    "t3": [],
    "t4": [("a", "b", "edge.0")],
    "t4r": [("a", "b", "edge.0"), ("c", "d", "edge.1")],
    "t5": [("a", "b", "edge.0"), ("d", "e", "edge.1")],
    "t5c": [("a", "b", "edge.0")],
}
@st.composite
def natsel_cases(draw):
    app = draw(st.sampled_from(NATSEL_APPS))
    tkey = draw(st.sampled_from(["t3", "t4", "t4", "t4r", "t5", "t5c"]))
    tmodel = TREES[tkey][1]
    tips = tree_tips(tmodel)
    case = {
        "app": app,
        "sm": draw(st.sampled_from(NATSEL_MODELS if app == "natsel_neutral" else NATSEL_MODELS[:-1])),
        "tree": tkey,
        # three taxa: the apps document tree=None as the star tree
        "pass_tree": tkey != "t3" or draw(st.booleans()),
        "rows": draw(codon_rows(tips, lengths=(8, 12, 20))),
        "omp": draw(st.integers(0, 2)) == 0,
        "opt": draw(_opt_args()),
    }
    if app in ("natsel_timehet", "natsel_zhang"):
        pairs = FG_PAIRS[tkey]
        if pairs and draw(st.booleans()):
            t1, t2, stem_edge = draw(st.sampled_from(pairs))
            stem = draw(st.booleans())
            clade = True if not stem else draw(st.booleans())
            fg = ([t1, t2] if clade else []) + ([stem_edge] if stem else [])
            case.update(tip1=t1, tip2=t2, stem=stem, clade=clade, fg=fg)
        elif not case["pass_tree"] and draw(st.booleans()):
            case.update(tip1="a", tip2="b", stem=False, clade=True, fg=["a", "b"])  # no tree: the two named tips
        else:
            t1 = draw(st.sampled_from(tips))
            case.update(tip1=t1, tip2=None, stem=False, clade=True, fg=[t1])
        case["upper_omega"] = draw(st.sampled_from([20, 20, 5, 2, 50]))
        if app == "natsel_timehet":
            case["is_independent"] = draw(st.booleans())
    elif app == "natsel_sitehet":
        case["upper_omega"] = draw(st.sampled_from([20.0, 20.0, 5.0, 50.0]))
    return case


def exec_natsel(case) -> Soft:
    from cogent3 import get_app, make_aligned_seqs

    s = Soft("C16/natsel/")
    name = str(case["app"])
    short = name.split("_")[1]
    tkey = case["tree"]
    newick, tmodel = TREES[tkey]
    edges = tree_edges(tmodel)
    rows = {str(k): str(v) for k, v in case["rows"].items()}
    ncols = len(next(iter(rows.values()))) // 3
    opt = case["opt"]
    mode = {True: "local", None: "global+local", False: "global"}[opt.get("local", True)]
    upper_omega = float(case.get("upper_omega", 20))
    fg = list(case.get("fg") or [])

    def build():
        kw = dict(tree=newick if case["pass_tree"] else None, optimise_motif_probs=bool(case["omp"]), opt_args=_opt_kwargs(opt))
        if name in ("natsel_timehet", "natsel_zhang"):
            kw.update(tip1=case["tip1"], tip2=case["tip2"], stem=bool(case["stem"]), clade=bool(case["clade"]), upper_omega=case["upper_omega"])
        if name == "natsel_timehet":
            kw["is_independent"] = bool(case["is_independent"])
        if name == "natsel_sitehet":
            kw["upper_omega"] = case["upper_omega"]
        return get_app(name, codon_sm(case["sm"]), **kw)

    ok, app = s.call(f"{short}/build", build)
    if not ok:
        return s
    aln = make_aligned_seqs(rows, moltype="dna", info={"source": "c16"})
    with warnings.catch_warnings():
        warnings.simplefilter("ignore")
        ok, res = s.call(f"{short}/run", lambda: app(aln))
    if not ok:
        return s
    s.cls(f"app:{name}", f"model:{case['sm']}", f"tree:{tkey}" + ("" if case["pass_tree"] else "/not-passed"), f"optimiser:{mode}", f"max_evaluations:{opt['max_evaluations']}")
    s.cls("motif-probs:free" if case["omp"] else "motif-probs:data")
    if fg:
        s.cls(f"foreground-edges:{len(fg)}", "foreground:" + ("stem+clade" if case["stem"] and case["clade"] else "stem" if case["stem"] else "clade" if case["tip2"] else "tip"))
    what = f"{name}({ {k: v for k, v in case.items() if k != 'rows'} }) {len(rows)} taxa x {ncols} codons"
    if type(res).__name__ == "NotCompleted":
        # sense codons and '---' only, tip names from the tree: none of the documented reasons applies
        s.fail(f"{short}/not-completed", f"{what}: {str(res)[:300]}")
        return s
    s.check(type(res).__name__ == "hypothesis_result", f"{short}/result-type", f"{what}: returned {type(res).__name__}")

    def read():
        with warnings.catch_warnings():
            warnings.simplefilter("ignore")
            return res.null.lf, res.alt.lf, float(res.null.lnL), float(res.alt.lnL), int(res.null.nfp), int(res.alt.nfp), float(res.LR), int(res.df)

    ok, got = s.call(f"{short}/read", read)
    if not ok:
        return s
    nlf, alf, l0, l1, n0, n1, lr, df = got
    what += f": null lnL {l0!r} nfp {n0}, alt lnL {l1!r} nfp {n1}, LR {lr!r}"
    # degrees of freedom as the apps' docstrings describe the alternates (and tests/test_app/test_evo.py pins)
    want_df = {"natsel_neutral": 1, "natsel_sitehet": 2, "natsel_zhang": 3}.get(name)
    if name == "natsel_timehet":
        want_df = len(fg) if case["is_independent"] else 1
    s.check(n1 > n0, f"{short}/alt-not-richer", what)
    s.check(n1 - n0 == want_df and df == want_df, f"{short}/degrees-of-freedom", f"{what}: expected {want_df} extra free parameters, df {df}")
    s.check(abs(lr - 2 * (l1 - l0)) <= 1e-9 * max(1.0, abs(lr)), f"{short}/LR-definition", what)

    binned = name in ("natsel_sitehet", "natsel_zhang")

    def values(lf):
        """{(parameter, edge, bin): value} for rate parameters and lengths, bin None for one-bin functions"""
        bins = list(lf.bin_names) if len(lf.bin_names) > 1 else [None]
        out = {}
        for p in lf.get_param_names():
            if p in ("mprobs", "bprobs"):
                continue
            for e in edges:
                for b in bins if p == "omega" else [None]:
                    kw = {"edge": e}
                    if b is not None:
                        kw["bin"] = b
                    out[(p, e, b)] = float(lf.get_param_value(p, **kw))
        bp = [float(x) for x in lf.get_param_value("bprobs")] if bins != [None] else None
        return bins, out, bp

    with warnings.catch_warnings():
        warnings.simplefilter("ignore")
        ok, vn = s.call(f"{short}/values", values, nlf)
        ok2, va = s.call(f"{short}/values", values, alf)
    null_omega_over = False
    tol = 1e-6
    if ok and ok2:
        lo, hi = APP_BOX
        bad = []
        for tag, (bins, vals, bp) in (("null", vn), ("alt", va)):
            for (p, e, b), v in sorted(vals.items(), key=str):
                if p != "omega":
                    want = (lo, hi)
                elif name == "natsel_neutral":
                    want = (1.0, 1.0) if tag == "null" else (lo, hi)
                elif name == "natsel_timehet":
                    want = (lo, upper_omega) if tag == "alt" and e in fg else (lo, max(hi, upper_omega))
                elif b in ("-ve", "0"):
                    want = (lo, 1 - NATSEL_EPS)
                elif b in ("neutral", "1"):
                    want = (1.0, 1.0)
                elif b == "+ve":
                    want = (1.0, upper_omega)
                elif e in fg:  # zhang 2a / 2b on the foreground
                    want = (1.0, upper_omega)
                else:  # zhang background: 2a as class 0, 2b as class 1
                    want = (vals[(p, e, "0")],) * 2 if b == "2a" else (1.0, 1.0)
                if not _inside(v, *want):
                    bad.append((tag, p, e, b, v, want))
            if bp is not None and not (all(-1e-12 <= x <= 1 + 1e-12 for x in bp) and abs(sum(bp) - 1) <= 1e-9):
                bad.append((tag, "bprobs", None, None, bp, (0.0, 1.0)))
        s.check(not bad, f"{short}/bounds", f"{what}: outside the bounds the app declares (model, parameter, edge, bin, value, bounds): {bad[:4]}")
        if name == "natsel_timehet":
            null_omega_over = any(v > upper_omega * (1 + 1e-9) for (p, e, b), v in vn[1].items() if p == "omega")
            if null_omega_over:
                s.cls("timehet:null-omega-above-upper_omega")
        if binned and vn[2]:
            # zhang / sitehet start the alt from the null's values with every class probability lowered by epsilon and
            # new classes of probability epsilon, omega 1 + epsilon (their source says so): the start is next to the null,
            # not on it. A column's likelihood sum_b p_b L_b falls by at most epsilon * sum_b L_b <= epsilon * sum_b 1/p_b
            # times itself; doubled for LR and doubled again for slack
            tol += 4 * ncols * NATSEL_EPS * sum(1.0 / max(x, 1e-12) for x in vn[2])
            s.cls("binned:LR-tolerance<1e-3" if tol < 1e-3 else "binned:LR-tolerance>=1e-3")
    circ = "/null-omega-above-upper_omega" if null_omega_over else ""
    s.check(lr >= -tol, f"{short}/negative-LR{circ}", f"{what} (tolerance {tol:.2e})")
    if lr > 1e-6:
        s.cls("LR:positive")
    elif lr >= -1e-12:
        s.cls("LR:zero")
    else:
        s.cls("LR:within-tolerance")

    # the property's core, without the app's "except Exception: pass": the app's own alt (scoping and bounds as the app set
    # them) re-initialised from the app's fitted null must succeed and reproduce the null's likelihood. Every parameter of
    # these alternates has a source in the null, so the fitted alt is as good as a fresh one.
    if not binned and n1 > n0:
        with warnings.catch_warnings():
            warnings.simplefilter("ignore")
            ok, _ = s.call(f"{short}/initialise_from_nested", alf.initialise_from_nested, nlf)
            if ok:
                ok, l2 = s.call(f"{short}/alt-lnL", lambda: float(alf.lnL))
            if ok:
                s.check(abs(l2 - l0) <= 1e-6, f"{short}/init-lnL{circ}", f"{what}: alt.lnL right after alt.initialise_from_nested(null) {l2!r} (diff {l2 - l0:.3e})")
    s.nontrivial = n1 > n0 and int(opt["max_evaluations"]) > 1
    s.evals = 2
    return s


SUBS = [
    Sub("init", exec_init, strategy=init_cases(), quick=1200, thorough=16 * 6000, shards_quick=12, weight=1.0),
    Sub("init-codon", exec_codon, strategy=codon_cases(), quick=160, thorough=16 * 400, shards_quick=4, weight=120.0),
    Sub("optimise", exec_opt, strategy=opt_cases(), quick=640, thorough=16 * 3000, shards_quick=8, weight=2.0),
    Sub("app", exec_app, strategy=app_cases(), quick=200, thorough=16 * 800, shards_quick=8, weight=4.0),
    Sub("app-codon", exec_app_codon, strategy=app_codon_cases(), quick=32, thorough=16 * 100, shards_quick=2, weight=200.0),
    Sub("init-dinuc", exec_dinuc, strategy=dinuc_cases(), quick=240, thorough=16 * 1500, shards_quick=4, weight=20.0),
    Sub("natsel", exec_natsel, strategy=natsel_cases(), quick=96, thorough=16 * 300, shards_quick=6, weight=110.0),
]

def _kp_unobserved_state_with_data_pi(case, sig, msg):
    """the alignment lacks one of the four nucleotides altogether and the null takes its motif
    probabilities from the data (the unobserved state then sits at the library's probability floor)"""
    rows = case.get("rows") or {}
    seen = set("".join(rows.values())) & set("ACGT")
    null = case.get("null") or {}
    return bool(rows) and len(seen) < 4 and null.get("pi") is None


KNOWN_PREDICATES = {"unobserved_state_with_data_pi": _kp_unobserved_state_with_data_pi}

META = {
    "technique": "Hypothesis-generated nested model pairs and optimiser runs; metamorphic relation null.lnL == alt.lnL after initialise_from_nested and lnL_after >= lnL_before, backed by an independent reference likelihood (rate-matrix cell tables, scipy expm, Felsenstein pruning) written in the check; hypothesis / model_collection / natsel_* apps end to end",
    "level_text": "Each run builds about 1 200 nested nucleotide pairs (23 named structural pairs, user predicate refinements and extra predicates, per-edge / subset / refined-partition / time-heterogeneous scoping on either side, lengths equal, grouped or under a local clock) with random null parameters and compares the initialised alt's likelihood with the null's and with an independent pruning implementation; 160 codon pairs (omega constant at 1.0 or elsewhere, two-valued, random motif probabilities, 3-5 tips; about a quarter of them reversible MG94HKY / MG94GTR / Y98 / GY94 nulls inside the non-reversible GNC); 240 dinucleotide pairs (mprob_model monomer / tuple / conditional, reversible inside the general non-reversible model or a richer reversible one) judged against the null and a 16-state reference; 32 codon chains MG94HKY (-> MG94GTR) -> GNC through the hypothesis / model_collection apps with a direct re-initialisation of the fitted GNC; runs about 640 local / global optimisations from random starts inside case-declared bounds under evaluation limits 1-3000 checking monotonicity, bounds and that the reported parameters reproduce the reported likelihood; fits about 200 null->alt(->alt2) chains through the apps with Powell and annealing checking LR >= 0 and bounds; and runs about 100 natsel_neutral / timehet / sitehet / zhang tests checking result type, degrees of freedom, LR >= 0, declared bounds and a direct re-initialisation of the app's alt from its null.",
    "level_note": "Trusts the reference likelihoods (about 70 lines for nucleotides, 60 for dinucleotides) and the cell tables of eight nucleotide models. Codon pairs are only compared null-vs-alt (no reference). One bin and one locus for initialise_from_nested (the library supports no more); the binned natsel apps are judged through LR with a tolerance derived from their epsilon. Monotonicity is checked, not convergence; the annealer runs with at most 400 evaluations.",
    "design_ref": "DESIGN.md section 1, C16",
}
