"""C14 — composed apps account for every input exactly once, on any schedule.

Oracle: a plain fold over the generated outcome table (the *model*): for each
input the first failing step decides its fate, a not-completed value passes
through every later step unchanged.  The real composition is run (a) on every
input alone, (b) through ``as_completed`` and (c) through ``apply_to`` into a
fresh output store, serially, under an *owned schedule* (the harness replaces
``cogent3.app.composable.PAR.as_completed`` by an executor that pickles the
callable, every input and every result and yields the results in a generated
completion order) and, for a few cases, through the real loky executor.  The
store is then read back (live object and a freshly opened read-only store) and
compared with the model and with the solo results, record by record.

A record may also fail INSIDE the writer (a value of an accepted type the writer
cannot serialise): the model is a not-completed record named after the writer;
records with such a fate, and identifiers with interior dots, are judged under
circumstance-tagged signatures (``/unwritable-record``, ``/dotted-id@<store>``,
``/suffix-like-id@<store>``) with one membership clause per view.

Family ``lib`` composes the library's own filter apps (min_length,
take_named_seqs, omit_degenerates) between a loader and a writer: there the
fate of a record is decided by the content of its input file and the fold model
follows the behaviour those apps document.

The record a value was computed from is read from the CONTENT of the value
(see checks/helpers_c14_apps.py), so "written under the wrong identifier" is
observable independently of cogent3's own source bookkeeping.
"""

from __future__ import annotations

import json
import os
import pickle
import shutil
import tempfile
from pathlib import Path

from hypothesis import strategies as st

from vlib.core import Soft, Sub

PROPERTY_ID = "C14"
ISOLATION = "subprocess"  # data stores only create their directories in a master process
LEVEL = "exploration"
RULE = (
    "A case is an input set of 1-12 records with related identifiers (a, aa, ab, ba, r1, r10, ...; in a quarter of the cases "
    "also identifiers with interior dots next to their stems: g, g.1, g.2, a.b, r1.x, A.FASTA), a value family (sequence "
    "collections from fasta files via load_unaligned, as in-memory collections naming their origin in info.source, or from a "
    "sqlite store via load_db; serialisable dict records in memory, proxied or carrying their own "
    "`source` attribute, or from files via a harness loader; tables from tsv files via load_tabular), a presentation (read-only "
    "data store, list of members, list of str paths, list of Path, list of objects), a composition loader? + 1-3 harness steps (+ an optional "
    "skip_not_completed=False observer) + writer (write_seqs / write_json / write_db / write_tabular on a directory or sqlite "
    "store), an outcome per (record, step) drawn from ok / raise / None / wrong type / own NotCompleted / falsy-but-valid and, for "
    "the last step, unwritable (a value of an accepted type whose to_dict / to_string / to_rich_dict raise, so the WRITER's main "
    "raises) / unjson (a dict holding a set: write_json raises, write_db stores it); the model for a record the writer cannot "
    "write is a not-completed ERROR record named after the writer under the input's own identifier, all other records written, "
    "apply_to returning normally; "
    "malformed input files (loader failures), and an execution: serial, owned schedule (pickling executor yielding results in a "
    "generated permutation) or the real loky executor with generated per-record sleeps and max_workers. Each case runs every "
    "input alone, as_completed, apply_to and (not for loky) a second apply_to, and compares store membership, identifiers, "
    "content, origin/type/message/source of every not-completed record with the fold model and with the solo results. "
    "Entry forms of the dstore argument: besides stores and lists, ONE path given as a str or a pathlib.Path (one record; about a tenth of the "
    "owned-schedule cases), as the docstrings of apply_to and as_completed allow ('a path, list of paths, or DataStore'); a failure of "
    "as_completed on a single Path is reported under as_completed[dstore-is-one-Path]. Compositions with NO generic step (loader + writer, "
    "loader + observer + writer; an eighth of the file-based cases). Family lib: load_unaligned + min_length(8) / take_named_seqs('m', 'other') "
    "or load_aligned + omit_degenerates(moltype='dna'), then a writer; the fate of a record follows from the content of its fasta file "
    "(accepted unchanged / accepted with sequences or columns removed / rejected with the documented FALSE or FAIL NotCompleted named after the "
    "app and its documented message / unreadable for the loader), every sequence starts with three nucleotides naming the record. "
    "Non-trivial = parallel execution (owned or loky) with a non-identity completion order (owned) and at least one failing and "
    "one succeeding record; distinct = distinct case encodings."
)
ASSUMPTIONS = [
    "inputs are truthy and carry a usable source (falsy inputs are dropped by _proxy_input by design); outputs may be falsy",
    "the identifier of a record is what get_unique_id derives from its source (file name without format suffixes); identifiers may contain interior dots (g.1, a.b) provided the source ends with a format suffix: a bare dotted source (in-memory source 'g.1', a member 'g.1' of a sqlite INPUT store) is read as stem + suffix by get_unique_id by design and is not generated",
    "an identifier that ends, as written, with '.<suffix of the output directory store>' is taken as already suffixed (pinned by tests/test_app/test_data_store.py::test_write) and is not generated; A.FASTA (differs in case) is generated and reported under its own circumstance tag",
    "a record the writer cannot write: origin must be the writer; for write_db, whose default serialiser is itself a composition, to_primitive / pickle_it are accepted as origin and any non-empty message; otherwise the message must contain the exception raised by the value ('unwritable:<key>', or TypeError for json)",
    "unwritable values are subclasses of SequenceCollection / Table with the same class NAME (apps validate types by class name) and a dict subclass; they pickle by reference to checks/helpers_c14_apps.py",
    "records read from a sqlite store by load_db have two names (the member, the info.source they carry): a stored not-completed record may name either",
    "the sqlite input store holds no unreadable records (a failure inside load_db's deserialiser composition is named after its inner steps)",
    "output stores are fresh per case (mode 'w'); writing over existing completed records is C13's subject",
    "in a sqlite store the writers other than write_db name a not-completed record '<identifier>.json'; both '<identifier>' and '<identifier>.json' are accepted as the record's own identifier",
    "a value of the wrong type handed to a writer that accepts SerialisableType (write_json, write_db) is a valid value and is expected as a completed record; handed to a typed step or typed writer it must become a not-completed record naming that step",
    "message of a captured exception: only required to contain 'ValueError: boom:<key>:<step>' (model) and to be identical to the message of the solo call",
    "real-executor cases: sleeps only skew completion order, no timing or order is asserted; MPI is out of scope",
    "the second apply_to is only required not to re-run records that are completed in the store and to leave membership and content unchanged",
    "inputs exposing their own `source` attribute are handed through as_completed un-proxied: a bare wrong-type result of such an input cannot name its source and is only counted; a live NotCompleted (solo call, as_completed) is only required to name the source when the failing value carried one, the record in the store always is",
    "identifiers differing only in case (a / A) are used: a case-sensitive file system is assumed for the scratch directory",
    "a single str / pathlib.Path as the dstore argument is one input (docstrings of _apply_to and _as_completed: 'a path, list of paths, or DataStore'; _apply_to tests isinstance(dstore, (str, Path)))",
    "loader + writer without a generic step: load_tabular declares tabular return types only, so composing it directly with write_json / write_db / write_seqs is rejected by the "
    "type check of '+' by design; such cases use write_tabular (with an observer in between every writer composes)",
    "family lib models what the apps document: min_length(8) (subtract_degen=True) counts non-degenerate, non-gap characters of the shortest sequence and returns "
    "NotCompleted('FALSE', message '<n> < min_length 8'); take_named_seqs('m', 'other') returns NotCompleted('FALSE', \"named seq(s) {'other'} not in [names in file order]\") when a "
    "name is missing (one missing name only, so the set is printed deterministically); omit_degenerates(moltype='dna') drops every column holding a character outside ACGT (gaps "
    "included: gap_is_degen=True) and returns NotCompleted('FAIL', 'all columns contained degenerates') when none remains. take_n_seqs is NOT used: with fixed_choice it is documented "
    "to be stateful, so serial and parallel runs legitimately differ. An unreadable lib file: a character J (load_unaligned(moltype='dna'): AlphabetError) which also makes the "
    "sequences ragged (load_aligned: 'not all the same length'); load_aligned does not validate characters itself",
]

SCRATCH = os.path.join(os.path.dirname(os.path.dirname(os.path.abspath(__file__))), ".scratch")
KEYS = ["a", "aa", "ab", "ba", "b", "A", "r1", "r10", "r11", "x_1", "json1", "fasta", "tsv1", "nc", "s1", "k_a"]
# identifiers with interior dots (the part after the last dot is NOT a format suffix); drawn together with their stems
DOTTED_KEYS = ["g", "g.1", "g.2", "a.b", "A.FASTA", "r1.x"]
SUFFIX_LIKE = {"fasta", "json", "tsv", "txt", "gz"}
LOADED = ("store", "members", "paths", "pathobjs", "db", "onestr", "onepath")  # presentations that start the composition with a loader
SINGLE = ("onestr", "onepath")  # ONE path (str / pathlib.Path) given as the dstore argument itself, as the docstrings of apply_to / as_completed allow
SUFFIX = {"seqs": "fasta", "dict": "txt", "tab": "tsv", "lib": "fasta"}
WRITERS = {
    "seqs": ["write_seqs:dir", "write_seqs:dir", "write_seqs:sqlite", "write_json:dir", "write_db:sqlite"],
    "dict": ["write_json:dir", "write_json:dir", "write_json:sqlite", "write_db:sqlite", "write_db:sqlite"],
    "tab": ["write_tabular:dir", "write_tabular:dir", "write_tabular:sqlite", "write_json:dir", "write_db:sqlite"],
    "lib": ["write_seqs:dir", "write_seqs:dir", "write_seqs:sqlite", "write_json:dir", "write_db:sqlite"],
}
TYPED_WRITERS = {"write_seqs", "write_tabular"}
OUT_SUFFIX = {"write_seqs": "fasta", "write_json": "json", "write_tabular": "tsv"}
LOADER_NAME = {"seqs": "load_unaligned", "dict": "c14_load_rec", "tab": "load_tabular"}
# family "lib": loader + ONE app of cogent3.app.sample + writer.  The fate of a record follows from the content of its file and
# the documented behaviour of the app: (loader, type of the NotCompleted the app returns for a record it rejects)
LIB_APPS = {
    "min_length": ("load_unaligned", "FALSE"),  # min_length(8): "<shortest non-degenerate length> < min_length 8"
    "take_named_seqs": ("load_unaligned", "FALSE"),  # take_named_seqs("m", "other"): "named seq(s) {'other'} not in [names]"
    "omit_degenerates": ("load_aligned", "FAIL"),  # omit_degenerates(moltype="dna"): "all columns contained degenerates"
}
LIB_MIN_LENGTH = 8


# ================================================================ generator
@st.composite
def cases(draw, mode):
    fams = ["seqs", "seqs", "dict", "dict", "dict", "tab"]
    family = draw(st.sampled_from(fams + ["lib"] if mode == "owned" else fams[::-1]))
    lo, hi = (1, 12) if mode == "owned" else (3, 8)
    n = draw(st.integers(lo, hi))
    pool = KEYS + DOTTED_KEYS * 2 if draw(st.integers(0, 3)) == 0 else KEYS
    keys = draw(st.lists(st.sampled_from(pool), min_size=n, max_size=n, unique=True))
    if family == "dict":
        present = draw(st.sampled_from(["plain", "plain", "attr", "store", "paths"]))
    elif family == "seqs":
        # "objs": in-memory collections naming their origin in info.source; "db": a sqlite store read by load_db
        present = draw(st.sampled_from(["store", "members", "paths", "pathobjs", "objs", "db"]))
    else:
        present = draw(st.sampled_from(["store", "members", "paths", "pathobjs"]))
    if family == "lib":
        present = draw(st.sampled_from(["store", "store", "members", "paths", "paths", "pathobjs", "onestr", "onepath"]))
    elif mode == "owned" and draw(st.integers(0, 11)) == 5:
        present = draw(st.sampled_from(SINGLE))
    if present in SINGLE:
        keys, n = keys[:1], 1
    if present == "db":
        # members of a sqlite store carry no format suffix: a dotted one would be read as "stem.suffix" by get_unique_id
        keys = [k if "." not in k else KEYS[i] for i, k in enumerate(keys)]
        keys = keys if len(set(keys)) == len(keys) else KEYS[: len(keys)]
    from_files = present in LOADED
    # loader + writer with no generic step in between is a composition too
    nsteps = draw(st.sampled_from([0, 1, 1, 1, 2, 2, 3, 3])) if from_files and mode == "owned" else draw(st.integers(1, 3))
    layout = [f"step{i}" for i in range(1, nsteps + 1)]
    lib_app = None
    if family == "lib":
        lib_app = draw(st.sampled_from(sorted(LIB_APPS)))
        nsteps, layout = 0, ["lib"]
    if draw(st.integers(0, 3)) == 0:
        layout.insert(draw(st.integers(0, len(layout))), "obs")
    wrong_ok = draw(st.integers(0, 9)) < 4
    kinds = ["ok"] * 12 + ["raise"] * 3 + ["none"] * 2 + ["nc"] * 2
    if family == "dict":
        kinds += ["falsy"] * 2
    if wrong_ok:
        kinds += ["wrong"] * 2
    # a value the WRITER cannot write (it raises inside the writer's main): produced by the last step only
    last_kinds = list(kinds)
    if draw(st.integers(0, 9)) < 3:
        last_kinds += ["unwritable"] * 3 + (["unjson"] * 2 if family == "dict" else [])
    outcomes = []
    for step_no in range(nsteps):
        if step_no == nsteps - 1:
            kinds = last_kinds
        col = {}
        for i, k in enumerate(keys):
            # real-executor cases are few: rotate the list so that even Hypothesis' simplest example mixes fates
            rot = [0, 12, 3, 15][i % 4] if mode == "loky" else 0
            o = draw(st.sampled_from(kinds[rot:] + kinds[:rot]))
            if o != "ok":
                col[k] = o
        outcomes.append(col)
    if family == "lib":
        # what the library app will make of the record is decided by the content of its file
        outcomes = [{k: o for k in keys for o in [draw(st.sampled_from(["ok", "ok", "ok", "ok2", "fail", "fail2"]))] if o != "ok"}]
    bad = []
    if from_files and present != "db" and draw(st.integers(0, 2)) == 0:
        bad = sorted(draw(st.sets(st.sampled_from(keys), max_size=max(1, n // 3))))
    # loaded dict records whose "info" entry does not lead to a source (null, text, list, empty mapping): valid
    # records all the same, their origin is the member they were loaded from
    odd_info = {}
    if family == "dict" and from_files and draw(st.integers(0, 2)) == 0:
        for k in keys:
            kind = draw(st.sampled_from(["", "", "none", "str", "list", "empty"]))
            if kind:
                odd_info[k] = kind
    writer = draw(st.sampled_from(WRITERS[family]))
    if family == "tab" and not layout:
        # load_tabular declares tabular return types only: composing it directly with a SerialisableType writer is rejected by design
        writer = draw(st.sampled_from(["write_tabular:dir", "write_tabular:dir", "write_tabular:sqlite"]))
    source_style = draw(st.sampled_from(["{k}.json", "sub/{k}.json", "{k}", "{k}.txt.gz"])) if not from_files else None
    if source_style == "{k}" and any("." in k for k in keys):
        # a bare dotted source has no format suffix: get_unique_id would read the end of the name as one
        source_style = "{k}.json"
    if mode == "owned":
        execution = draw(st.sampled_from(["serial", "owned", "owned", "owned", "owned"]))
        delays = {}
        max_workers = draw(st.sampled_from([None, 1, 2, 4]))
    else:
        execution = "loky"
        max_workers = draw(st.sampled_from([1, 2, 2, 4]))
        slow = draw(st.sets(st.sampled_from(keys), max_size=max(1, n // 2)))
        delays = {k: (draw(st.integers(10, 30)) if k in slow else draw(st.integers(0, 2))) for k in keys}
    order = draw(st.permutations(list(range(n))))
    case = {
        "family": family,
        "keys": keys,
        "present": present,
        "layout": layout,
        "outcomes": outcomes,
        "bad": bad,
        "odd_info": odd_info,
        "writer": writer,
        "source_style": source_style,
        "exec": execution,
        "order": list(order),
        "max_workers": max_workers,
        "chunksize": draw(st.sampled_from([None, None, 1, 3])),
        "delays": delays,
        "logger": draw(st.integers(0, 5)) == 0,
    }
    if lib_app:
        case["lib_app"] = lib_app
    return case


# ==================================================================== model
def input_source_name(case, key):
    """the name cogent3 is expected to report as the `source` of records made from this input"""
    if case["source_style"] is None:
        return f"{key}.{SUFFIX[case['family']]}"
    return Path(case["source_style"].format(k=key)).name


def loader_name(case):
    return LIB_APPS[case["lib_app"]][0] if case["family"] == "lib" else LOADER_NAME[case["family"]]


ALL_KEYS = KEYS + DOTTED_KEYS


def key_code(key):
    """three nucleotides naming the key: every sequence of a lib-family file starts with them, so the content of a
    result tells which input it was computed from"""
    i = ALL_KEYS.index(key)
    return "ACGT"[i // 16] + "ACGT"[(i // 4) % 4] + "ACGT"[i % 4]


def lib_file(case, key):
    """[(name, sequence)] of the input file of a lib-family record (file order)"""
    o = case["outcomes"][0].get(key, "ok")
    c = key_code(key)
    app = case["lib_app"]
    if app == "min_length":
        rows = [("m", c + "ACGTAC"), ("other", c + {"ok": "ACGTA", "ok2": "ACGTA", "fail": "AC", "fail2": "ACGNNNN"}[o])]
        if o == "ok2":
            rows.append(("extra", c + "ACGTACGT"))
        return rows
    if app == "take_named_seqs":
        m, other, extra = ("m", c + "ACGTAC"), ("other", c + "ACGTA"), ("extra", c + "ACGTACGT")
        return {"ok": [m, other], "ok2": [extra, m, other], "fail": [m, extra], "fail2": [extra, m]}[o]
    return [("m", c + ("ACGTAC" if o.startswith("ok") else "ACG")), ("other", {"ok": c + "AC-TNC", "ok2": c + "ACGTAA", "fail": "NNNNNN", "fail2": "------"}[o])]


def lib_result(case, key):
    """{name: sequence} the library app is documented to return for a record it accepts"""
    rows = lib_file(case, key)
    app = case["lib_app"]
    if app == "min_length":
        return dict(rows)
    if app == "take_named_seqs":
        return {n: q for n, q in rows if n in ("m", "other")}
    keep = [i for i in range(len(rows[0][1])) if all(q[i] in "ACGT" for _, q in rows)]
    return {n: "".join(q[i] for i in keep) for n, q in rows}


def lib_message(case, key):
    rows = lib_file(case, key)
    app = case["lib_app"]
    if app == "min_length":
        return f"{min(sum(ch in 'ACGT' for ch in q) for _, q in rows)} < min_length {LIB_MIN_LENGTH}"
    if app == "take_named_seqs":
        return f"named seq(s) {{'other'}} not in {[n for n, _ in rows]!r}"
    return "all columns contained degenerates"


def fold(case):
    """fate of every key: a plain fold over the outcome table.

    completed: {"status": "C", "trace": [...], "falsy": bool} or {"status": "C", "wrong": True}
    not completed: {"status": "N", "type", "origin", "kind", "step", "src_circ"}
    """
    family = case["family"]
    wname = case["writer"].split(":")[0]
    has_loader = case["present"] in LOADED
    value_has_source = family != "tab"  # load_tabular does not record the source on the table
    fates = {}
    for key in case["keys"]:
        state = {"status": "C", "trace": [], "falsy": False}
        if has_loader and key in case["bad"]:
            state = {"status": "N", "type": "ERROR", "origin": loader_name(case), "kind": "loader", "step": 0, "src_circ": "ok"}
        for item in case["layout"]:
            if state["status"] == "N":
                continue  # passes through unchanged (observer included: it returns what it gets)
            if item == "obs":
                continue
            if item == "lib":
                if case["outcomes"][0].get(key, "ok").startswith("fail"):
                    app = case["lib_app"]
                    state = {"status": "N", "type": LIB_APPS[app][1], "origin": app, "kind": "lib", "step": 1, "src_circ": "ok", "message": lib_message(case, key)}
                else:
                    state = {"status": "C", "trace": [1], "falsy": False}
                continue
            idx = int(item[4:])
            origin = f"c14_{family}_step{idx}"
            if state.get("wrong"):
                state = {"status": "N", "type": "ERROR", "origin": origin, "kind": "wrong", "step": idx, "src_circ": "wrong-type-value"}
                continue
            o = case["outcomes"][idx - 1].get(key, "ok")
            circ = "ok" if value_has_source else "value-without-source"
            if o == "ok":
                state = {"status": "C", "trace": state["trace"] + [idx], "falsy": False}
            elif o == "falsy":
                state = {"status": "C", "trace": state["trace"] + [idx], "falsy": True}
            elif o == "wrong":
                state = {"status": "C", "wrong": True}
            elif o == "raise":
                state = {"status": "N", "type": "ERROR", "origin": origin, "kind": "raise", "step": idx, "src_circ": circ}
            elif o == "none":
                state = {"status": "N", "type": "BUG", "origin": origin, "kind": "none", "step": idx, "src_circ": circ}
            elif o == "nc":
                state = {"status": "N", "type": "FAIL", "origin": origin, "kind": "nc", "step": idx, "src_circ": circ}
            elif o == "unwritable":
                state = {"status": "C", "trace": state["trace"] + [idx], "falsy": False, "unw": "all"}
            elif o == "unjson":
                state = {"status": "C", "trace": state["trace"] + [idx], "falsy": False, "unw": "json"}
        state["pre_writer"] = dict(state)
        if state.get("unw") == "all" or (state.get("unw") == "json" and wname == "write_json"):
            # the writer's own main raises: one failed record, named after the writer
            pre = state["pre_writer"]
            kind = "unwritable" if state["unw"] == "all" else "unjson"
            state = {"status": "N", "type": "ERROR", "origin": wname, "kind": kind, "step": "writer", "src_circ": "writer-exception", "pre_writer": pre}
            if wname == "write_db":
                # the default serialiser of write_db is itself a composition, the failure may be named after its steps
                state["origins"] = ("write_db", "to_primitive", "pickle_it")
        if state.get("wrong") and wname in TYPED_WRITERS:
            pre = state["pre_writer"]
            state = {"status": "N", "type": "ERROR", "origin": wname, "kind": "wrong", "step": "writer", "src_circ": "wrong-type-value", "pre_writer": pre}
        fates[key] = state
    return fates


def expected_value(case, key, fate):
    """canonical content of a completed value"""
    family = case["family"]
    if fate.get("wrong"):
        return {"wrong": 7}
    if fate.get("unw") == "all":
        return {"unwritable": key}
    if family == "lib":
        return {"seqs": lib_result(case, key)}
    if family == "seqs":
        seqs = {f"k_{key}": "ACGTAC", "other": "ACGT"}
        for i in fate["trace"]:
            seqs[f"s{i}"] = "ACGT" * i
        return {"seqs": seqs}
    if family == "dict":
        rec = {"key": key, "trace": list(fate["trace"]), "source": rec_source(case, key), "falsy": fate["falsy"]}
        if fate.get("unw") == "json":
            rec["unw"] = {key}
        odd = case.get("odd_info", {}).get(key)
        if odd:
            rec["info"] = {"none": None, "str": "about this record", "list": [1, 2], "empty": {}}[odd]
        return {"rec": rec}
    header = ["key", "v"] + [f"s{i}" for i in fate["trace"]]
    rows = [[key, str(r + 1)] + [str(i * 10 + r) for i in fate["trace"]] for r in range(2)]
    return {"table": {"header": header, "rows": rows}}


def rec_source(case, key):
    if case["source_style"] is None:
        return f"{key}.{SUFFIX['dict']}"
    return case["source_style"].format(k=key)


def message_ok(kind, key, step, msg, wname=None, want=None):
    if not isinstance(msg, str):
        return False
    if kind == "lib":  # the message the library app documents
        return msg == want
    if kind == "unwritable":
        # write_db serialises through its own sub-composition, which captures the exception: any traceback text
        return bool(msg.strip()) if wname == "write_db" else f"unwritable:{key}" in msg
    if kind == "unjson":
        return "TypeError" in msg
    if kind == "raise":
        return f"ValueError: boom:{key}:{step}" in msg
    if kind == "none":
        return msg == "unexpected output value None"
    if kind == "wrong":
        return msg.startswith("invalid data type, 'int' not in")
    if kind == "nc":
        return msg == f"own:{key}:{step}"
    if kind == "loader":
        return any(t in msg for t in ("AlphabetError", f"unreadable:{key}", "Inconsistent number of fields", "not all the same length"))
    return False


def inversions(order):
    return sum(1 for i in range(len(order)) for j in range(i + 1, len(order)) if order[i] > order[j])


# ========================================================= canonical content
def canon_live(s: Soft, tag, obj):
    """canonical form of a live result value (what an app returned)"""
    from cogent3.app.composable import NotCompleted

    if isinstance(obj, NotCompleted):
        return {"nc": {"type": obj.type, "origin": obj.origin, "message": obj.message, "source": obj.source}}
    if getattr(obj, "c14_unwritable", False):
        return {"unwritable": obj.c14_key()}
    if isinstance(obj, int) and not isinstance(obj, bool):
        return {"wrong": obj}
    if isinstance(obj, dict):
        return {"rec": dict(obj)}
    name = obj.__class__.__name__
    if name in SEQS_CLASSES:
        return {"seqs": {n: str(v) for n, v in obj.to_dict().items()}}
    if name == "Table":
        return {"table": {"header": [str(h) for h in obj.header], "rows": [[str(c) for c in r] for r in obj.to_list()]}}
    return {"other": repr(obj)}


SEQS_CLASSES = ("SequenceCollection", "ArrayAlignment", "Alignment")  # load_aligned gives an alignment


def canon_primitive(data):
    """canonical form of deserialised completed content (write_json / write_db)"""
    from cogent3.util.deserialise import deserialise_object

    if isinstance(data, int) and not isinstance(data, bool):
        return {"wrong": data}
    if isinstance(data, dict) and "type" in data and "version" in data:
        obj = deserialise_object(data)
        name = obj.__class__.__name__
        if name in SEQS_CLASSES:
            return {"seqs": {n: str(v) for n, v in obj.to_dict().items()}}
        if name == "Table":
            return {"table": {"header": [str(h) for h in obj.header], "rows": [[str(c) for c in r] for r in obj.to_list()]}}
        return {"other": repr(obj)}
    if isinstance(data, dict):
        return {"rec": dict(data)}
    return {"other": repr(data)}


def parse_completed(s: Soft, tag, wname, key, raw):
    """stored completed content -> canonical form (None when unreadable: a failure is recorded)"""
    try:
        if wname == "write_seqs":
            seqs, name = {}, None
            for line in raw.splitlines():
                if line.startswith(">"):
                    name = line[1:].strip()
                    seqs[name] = ""
                elif name is not None:
                    seqs[name] += line.strip()
            return {"seqs": seqs}
        if wname == "write_tabular":
            lines = [l.split("\t") for l in raw.splitlines() if l.strip()]
            return {"table": {"header": [c.strip() for c in lines[0]], "rows": [[c.strip() for c in r] for r in lines[1:]]}}
        if wname == "write_json":
            rec = json.loads(raw)
            s.eq(rec.get("identifier"), key, f"{tag}/json-identifier-field", f"record {key!r}")
            s.eq(rec.get("completed"), True, f"{tag}/json-completed-field", f"record {key!r}")
            data = rec["data"]
            if isinstance(data, str):
                data = json.loads(data)
            return canon_primitive(data)
        if wname == "write_db":
            return canon_primitive(pickle.loads(raw))
    except Exception as e:  # noqa: BLE001
        s.fail(f"{tag}/unreadable-completed", f"record {key!r}: {type(e).__name__}: {e}; raw {raw[:120]!r}")
        return None
    return None


def parse_nc(s: Soft, tag, wname, key, raw):
    """stored not-completed content -> {"type","origin","message","source"}"""
    try:
        data = pickle.loads(raw) if isinstance(raw, bytes) else json.loads(raw)
        con = data["not_completed_construction"]
        t, origin, message = con["args"]
        return {"type": t, "origin": origin, "message": message, "source": con["kwargs"].get("source")}
    except Exception as e:  # noqa: BLE001
        s.fail(f"{tag}/unreadable-not-completed", f"record {key!r}: {type(e).__name__}: {e}; raw {raw[:120]!r}")
        return None


# ============================================================ schedule control
class OwnedSchedule:
    """replaces PAR.as_completed: every task crosses a pickle boundary (callable, input, result) and results
    are yielded in the generated completion order"""

    def __init__(self, order):
        self.order = list(order)
        self.invocations = 0
        self.tasks = 0

    def __call__(self, f, s, max_workers=None, use_mpi=False, if_serial="raise", chunksize=None):
        try:
            import cloudpickle as cp  # what loky uses for callables
        except ImportError:  # pragma: no cover
            cp = pickle
        self.invocations += 1
        s = list(s)
        blob = cp.dumps(f)
        results = []
        for e in s:
            func = pickle.loads(blob)
            arg = pickle.loads(cp.dumps(e))
            results.append(pickle.loads(cp.dumps(func(arg))))
            self.tasks += 1
        order = [i for i in self.order if i < len(results)]
        order += [i for i in range(len(results)) if i not in order]
        for i in order:
            yield results[i]

    def __enter__(self):
        import cogent3.app.composable as comp

        self._mod = comp.PAR
        self._orig = comp.PAR.as_completed
        comp.PAR.as_completed = self
        return self

    def __exit__(self, *exc):
        self._mod.as_completed = self._orig
        return False


# ================================================================== building
def write_inputs(case, indir):
    family = case["family"]
    os.makedirs(indir, exist_ok=True)
    if case["present"] == "db":
        from cogent3 import make_unaligned_seqs
        from cogent3.app import io as io_app
        from cogent3.app.sqlite_data_store import DataStoreSqlite

        store = DataStoreSqlite(os.path.join(indir, "in.sqlitedb"), mode="w")
        writer = io_app.write_db(data_store=store)
        for key in case["keys"]:
            seqs = make_unaligned_seqs({f"k_{key}": "ACGTAC", "other": "ACGT"}, moltype="dna", info={"source": f"{key}.fasta"})
            writer.main(seqs, identifier=key)
        store.unlock(force=True)
        store.close()
        return
    for key in case["keys"]:
        bad = key in case["bad"]
        path = os.path.join(indir, f"{key}.{SUFFIX[family]}")
        if family == "lib":
            rows = lib_file(case, key)
            if bad:  # load_unaligned(moltype="dna") rejects the character J, load_aligned rejects ragged sequences
                rows = [(nm, q + ("JJ" if i == 0 else "")) for i, (nm, q) in enumerate(rows)]
            text = "".join(f">{nm}\n{q}\n" for nm, q in rows)
        elif family == "seqs":
            text = f">k_{key}\nACGTAC\n>other\nAC--GT\n" if not bad else f">k_{key}\nACGTJJ\n>other\nACGT\n"
        elif family == "dict":
            text = f"{'!' if bad else ''}{key}|{key}.{SUFFIX[family]}|{case.get('odd_info', {}).get(key, '')}\n"
        else:
            text = f"key\tv\n{key}\t1\n{key}\t2\n" if not bad else f"key\tv\n{key}\t1\textra\n{key}\t2\n"
        with open(path, "w") as f:
            f.write(text)


def make_inputs(case, indir, stores=None):
    """(what is handed to apply_to / as_completed, list of (key, single input) for solo calls)"""
    from cogent3.app.data_store import DataStoreDirectory

    from checks import helpers_c14_apps as H

    family, present = case["family"], case["present"]
    keys = case["keys"]
    if present in ("plain", "attr"):
        klass = H.C14Rec if present == "plain" else H.C14Src
        objs = [klass(key=k, trace=[], source=rec_source(case, k), falsy=False) for k in keys]
        return objs, list(zip(keys, objs))
    if present == "objs":
        from cogent3 import make_unaligned_seqs

        objs = [make_unaligned_seqs({f"k_{k}": "ACGTAC", "other": "ACGT"}, moltype="dna", info={"source": rec_source(case, k)}) for k in keys]
        return objs, list(zip(keys, objs))
    if present == "db":
        from cogent3.app.sqlite_data_store import DataStoreSqlite

        store = DataStoreSqlite(os.path.join(indir, "in.sqlitedb"), mode="r")
        if stores is not None:
            stores.append(store)
        by_key = {m.unique_id: m for m in store.completed}
        return store, [(k, by_key[k]) for k in [m.unique_id for m in store.completed]]
    sfx = SUFFIX[family]
    if present in ("store", "members"):
        store = DataStoreDirectory(indir, mode="r", suffix=sfx)
        by_key = {m.unique_id[: -len(sfx) - 1]: m for m in store.completed}
        if present == "store":  # the store decides the order of its members
            listed = [m.unique_id[: -len(sfx) - 1] for m in store.completed]
            return store, [(k, by_key[k]) for k in listed]
        return [by_key[k] for k in keys], [(k, by_key[k]) for k in keys]
    paths = [os.path.join(indir, f"{k}.{sfx}") for k in keys]
    if present in ("pathobjs", "onepath"):
        paths = [Path(p) for p in paths]
    if present in SINGLE:  # the path itself is the dstore argument
        return paths[0], list(zip(keys, paths))
    return paths, list(zip(keys, paths))


def build_chain(case, with_delays=False):
    """loader? + steps (+ observer), freshly instantiated"""
    from cogent3.app import io as io_app

    from checks import helpers_c14_apps as H

    family = case["family"]
    app = None
    if case["present"] == "db":
        app = io_app.load_db()
    elif family == "lib":
        app = io_app.load_unaligned(moltype="dna") if loader_name(case) == "load_unaligned" else io_app.load_aligned(moltype="dna", format="fasta")
    elif case["present"] in LOADED:
        app = {"seqs": lambda: io_app.load_unaligned(moltype="dna"), "dict": H.c14_load_rec, "tab": io_app.load_tabular}[family]()
    first_step = True
    for item in case["layout"]:
        if item == "obs":
            nxt = H.c14_observer()
        elif item == "lib":
            from cogent3.app import sample as sample_app

            nxt = {
                "min_length": lambda: sample_app.min_length(LIB_MIN_LENGTH),
                "take_named_seqs": lambda: sample_app.take_named_seqs("m", "other"),
                "omit_degenerates": lambda: sample_app.omit_degenerates(moltype="dna"),
            }[case["lib_app"]]()
        else:
            idx = int(item[4:])
            delays = case["delays"] if (with_delays and first_step) else None
            first_step = False
            nxt = H.STEP_CLASSES[(family, idx)](outcomes=case["outcomes"][idx - 1], delays=delays)
        app = nxt if app is None else app + nxt
    return app


def build_writer(case, outdir):
    from cogent3.app import io as io_app
    from cogent3.app.data_store import DataStoreDirectory
    from cogent3.app.sqlite_data_store import DataStoreSqlite

    wname, kind = case["writer"].split(":")
    if kind == "dir":
        store = DataStoreDirectory(os.path.join(outdir, "out"), mode="w", suffix=OUT_SUFFIX[wname])
    else:
        store = DataStoreSqlite(os.path.join(outdir, "out.sqlitedb"), mode="w")
    return getattr(io_app, wname)(data_store=store), store


def open_readonly(case, outdir):
    from cogent3.app.data_store import DataStoreDirectory
    from cogent3.app.sqlite_data_store import DataStoreSqlite

    wname, kind = case["writer"].split(":")
    if kind == "dir":
        return DataStoreDirectory(os.path.join(outdir, "out"), mode="r", suffix=OUT_SUFFIX[wname])
    return DataStoreSqlite(os.path.join(outdir, "out.sqlitedb"), mode="r")


def member_key(case, unique_id, completed):
    wname, kind = case["writer"].split(":")
    name = os.path.basename(str(unique_id))
    if kind == "dir":
        ext = "." + (OUT_SUFFIX[wname] if completed else "json")
        return name[: -len(ext)] if name.endswith(ext) else name
    if not completed and wname != "write_db" and name.endswith(".json"):
        return name[:-5]
    return name


def observe(s: Soft, tag, case, store):
    """{"C": {key: [raw, ...]}, "N": {key: [raw, ...]}} or None"""
    out = {"C": {}, "N": {}}
    for label, attr in (("C", "completed"), ("N", "not_completed")):
        ok, members = s.call(f"{tag}/{attr}", lambda: list(getattr(store, attr)))
        if not ok:
            return None
        for m in members:
            ok, raw = s.call(f"{tag}/read", m.read)
            if not ok:
                return None
            out[label].setdefault(member_key(case, m.unique_id, label == "C"), []).append(raw)
    return out


# ==================================================================== execute
def execute(case) -> Soft:
    s = Soft("C14/")
    os.makedirs(SCRATCH, exist_ok=True)
    root = tempfile.mkdtemp(prefix="c14.", dir=SCRATCH)
    stores = []
    try:
        _run(s, case, root, stores)
    finally:
        for st_ in stores:
            try:
                if hasattr(st_, "unlock"):
                    st_.unlock(force=True)
                if hasattr(st_, "close"):
                    st_.close()
            except Exception:  # noqa: BLE001
                pass
        shutil.rmtree(root, ignore_errors=True)
    return s


_WRITER_FAILURE_MARKS = ("unwritable:", "is not JSON serializable", "can only checksum")


def call_app(s: Soft, sig, fn, *args, unwritable=False):
    """s.call for entry points that run the harness steps: an exception the steps raise ON PURPOSE (a record's
    generated failure) that escapes from cogent3 is a violation of 'never raises because a record fails', although
    its innermost frame is harness code.

    unwritable: some record of the case cannot be written by the writer; the exception the writer raised for it
    escaping from apply_to is ONE root cause whatever the writer, reported under one signature"""
    from vlib.core import raised_in_repo

    try:
        if unwritable:
            try:
                return True, fn(*args)
            except Exception as e:  # noqa: BLE001
                text = str(e)
                if any(m in text for m in _WRITER_FAILURE_MARKS) and (text.startswith("unwritable:") or raised_in_repo(e)):
                    s.fail(f"{sig}/writer-exception-escaped", f"{type(e).__name__}: {text[:300]}")
                    return False, e
                return s.call(sig, _reraise, e)
        return s.call(sig, fn, *args)
    except Exception as e:  # noqa: BLE001
        text = str(e)
        if text.startswith(("boom:", "unreadable:", "unwritable:")) or "boom:" in text[:200]:
            s.fail(f"{sig}/record-failure-escaped:{type(e).__name__}", f"{type(e).__name__}: {text[:300]}")
            return False, e
        raise


def _reraise(e):
    raise e


def _par_kw(case):
    kw = {}
    if case["max_workers"] is not None:
        kw["max_workers"] = case["max_workers"]
    if case["chunksize"] is not None:
        kw["chunksize"] = case["chunksize"]
    return kw or None


def _run(s: Soft, case, root, stores):
    from cogent3.app.composable import NotCompleted, source_proxy
    from cogent3.app.data_store import get_unique_id

    from checks import helpers_c14_apps as H

    family, execution = case["family"], case["exec"]
    wname, skind = case["writer"].split(":")
    keys = case["keys"]
    n = len(keys)
    indir = os.path.join(root, "in")
    from_files = case["present"] in LOADED
    if from_files:
        write_inputs(case, indir)
    fates = fold(case)
    n_fail = sum(1 for f in fates.values() if f["status"] == "N")
    n_ok = n - n_fail
    inv = inversions(case["order"]) if execution == "owned" else 0
    unwritable = any(f["status"] == "N" and f["step"] == "writer" and f["kind"] in ("unwritable", "unjson") for f in fates.values())
    dotted = any("." in k for k in keys)

    # ---- coverage classes
    s.cls(f"family:{family}", f"present:{case['present']}", f"writer:{wname}", f"store:{skind}", f"exec:{execution}")
    s.cls("n:1" if n == 1 else "n:2-4" if n <= 4 else "n:5-8" if n <= 8 else "n:9-12")
    s.cls(f"steps:{sum(1 for x in case['layout'] if x != 'obs')}")
    if family == "lib":
        s.cls(f"lib-app:{case['lib_app']}")
    if case["present"] in SINGLE:
        s.cls("dstore-is-one-path")
    if from_files and not [x for x in case["layout"] if x != "obs"]:
        s.cls("loader+writer-without-generic-step")
    if "obs" in case["layout"]:
        s.cls("with-observer")
    for f in fates.values():
        s.cls("fate:" + ("completed-wrong-value" if f.get("wrong") else "completed-falsy" if f.get("falsy") else "completed-unjson-value" if f.get("unw") else "completed" if f["status"] == "C" else f"nc-{f['kind']}" + ("-at-writer" if f["step"] == "writer" else "")))
        if f["status"] == "N" and f["step"] not in ("writer",) and isinstance(f["step"], int):
            later = [x for x in case["layout"] if x.startswith("step") and int(x[4:]) > f["step"]]
            if later:
                s.cls("nc-passes-through-later-steps")
    s.cls("failures:none" if n_fail == 0 else "failures:all" if n_ok == 0 else "failures:mixed")
    if dotted:
        s.cls("ids:dotted", f"ids:dotted/store:{skind}")
        if any(k2.startswith(k + ".") for k in keys for k2 in keys):
            s.cls("ids:dotted-with-stem-or-sibling")
    if unwritable and n_ok:
        s.cls("unwritable-record-among-writable")
    if execution == "owned":
        s.cls("kendall:0" if inv == 0 else "kendall:1-2" if inv <= 2 else "kendall:3-9" if inv <= 9 else "kendall:10+")
    if execution == "loky":
        s.cls(f"loky-workers:{case['max_workers']}", "real-executor")
    if case["logger"]:
        s.cls("default-logger")
    s.nontrivial = execution in ("owned", "loky") and (inv > 0 or execution == "loky") and n_fail >= 1 and n_ok >= 1

    pre = ""  # signatures name the clause; the execution mode is in the class counts and in the case
    parallel = execution != "serial"
    par_kw = _par_kw(case) if parallel else None

    # ---- (a) every input alone
    inputs, singles = make_inputs(case, indir, stores)
    solo_app = build_chain(case)
    solo = {}
    for key, x in singles:
        ok, res = call_app(s, "solo/call", solo_app, x)
        if not ok:
            continue
        solo[key] = canon_live(s, "solo", res)
        check_against_model(s, "solo", case, key, fates[key]["pre_writer"], solo[key])

    def scheduled(fn):
        if execution == "owned":
            with OwnedSchedule(case["order"]) as sched:
                out = fn()
            return out, sched
        return fn(), None

    # ---- (b) as_completed on the composition (no writer)
    ac_app = build_chain(case, with_delays=execution == "loky")
    ac_inputs, ac_singles = make_inputs(case, indir, stores)
    ac_keys = [k for k, _ in ac_singles]  # submission order

    def run_ac():
        # a pathlib.Path given as the dstore itself: its own circumstance, so that a failure there does not hide the other entry forms
        sig = pre + "as_completed" + ("[dstore-is-one-Path]" if case["present"] == "onepath" else "")
        return call_app(s, sig, lambda: list(ac_app.as_completed(ac_inputs, parallel=parallel, par_kw=par_kw, show_progress=False)))

    (ok, got), sched = scheduled(run_ac)
    if sched is not None and n > 0 and ok:
        s.check(sched.invocations == 1, pre + "as_completed/parallel-path-not-taken", f"PAR.as_completed invoked {sched.invocations} times for parallel=True")
    if ok:
        s.eq(len(got), n, pre + "as_completed/count", f"{len(got)} results for {n} inputs")
        seen = []
        unidentified = 0
        proxied = case["present"] != "attr"
        for g in got:
            if isinstance(g, source_proxy):
                src, obj = g.source, g.obj
            elif proxied:
                s.fail(pre + "as_completed/result-not-proxied", f"{type(g).__name__}: {g!r:.100}")
                continue
            else:
                # inputs exposing `source` themselves are handed through as they are: the result is its own source
                src, obj = (g if getattr(g, "source", None) is not None else None), g
                if src is None:
                    unidentified += 1
                    continue
            ok2, ident = s.call(pre + "as_completed/source", get_unique_id, src)
            if not ok2:
                continue
            seen.append(ident)
            if ident not in fates:
                s.fail(pre + "as_completed/unknown-source", f"result with source id {ident!r}, inputs {keys}")
                continue
            val = canon_live(s, "ac", obj)
            check_against_model(s, pre + "as_completed", case, ident, fates[ident]["pre_writer"], val)
            if ident in solo:
                circ = fates[ident]["pre_writer"].get("src_circ", "ok")
                s.eq(_sans_source(val, circ), _sans_source(solo[ident], circ), pre + "as_completed/differs-from-solo", f"input {ident!r}")
        if proxied or unidentified == 0:
            s.eq(sorted(seen), sorted(keys), pre + "as_completed/sources", "source identifiers of the results vs inputs")
        else:
            # a bare wrong-type value / a NotCompleted made from it cannot name its source: inherent to un-proxied results
            sourceless = sum(1 for f in fates.values() if f["pre_writer"].get("wrong") or f["pre_writer"].get("src_circ") == "wrong-type-value")
            s.check(len(set(seen)) == len(seen) and set(seen) <= set(keys) and len(seen) + unidentified == n and unidentified <= sourceless, pre + "as_completed/sources", f"un-proxied results: identified {sorted(seen)}, unidentified {unidentified} (at most {sourceless} expected), inputs {sorted(keys)}")
        if execution == "loky" and seen != ac_keys:
            s.cls("loky-completion-order-differs-from-submission")
        if execution == "serial" and unidentified == 0:
            s.eq(seen, ac_keys, pre + "as_completed/serial-order", "serial results are documented to come in input order")
        if execution == "owned" and len(seen) == n and sorted(seen) == sorted(keys):
            # sanity of the harness schedule itself (not a property clause): results came in the requested order
            want = [ac_keys[i] for i in case["order"]]
            if seen != want:
                s.notes["owned_order_mismatch"] = [seen, want]

    # ---- (c) apply_to into a fresh store
    outdir = os.path.join(root, "o")
    os.makedirs(outdir)
    chain = build_chain(case, with_delays=execution == "loky")
    ok, built = s.call("build-writer", build_writer, case, outdir)
    if not ok:
        return
    writer, store = built
    stores.append(store)
    app = chain + writer
    del H.CALLS[:]
    logger = None if case["logger"] else False

    def run_apply():
        # a distinct clause for cases holding a record the writer cannot write (see call_app)
        sig = pre + "apply_to" + ("/unwritable-record" if unwritable else "")
        return call_app(s, sig, lambda: app.apply_to(inputs, parallel=parallel, par_kw=par_kw, logger=logger, show_progress=False), unwritable=unwritable)

    (ok, ds), sched = scheduled(run_apply)
    if sched is not None and ok:
        s.check(sched.invocations == 1, pre + "apply_to/parallel-path-not-taken", f"PAR.as_completed invoked {sched.invocations} times for parallel=True")
    if not ok:
        return
    s.check(ds is store, pre + "apply_to/returns-other-store", f"{ds!r}")
    first = check_store(s, pre + "apply_to", case, store, outdir, fates, solo, stores)

    # ---- (d) second apply_to on the same store: completed records are skipped, nothing changes
    if execution == "loky" or first is None:
        return
    del H.CALLS[:]
    inputs2, _ = make_inputs(case, indir, stores)

    def run_again():
        sig = pre + "second-apply_to" + ("/unwritable-record" if unwritable else "")
        return call_app(s, sig, lambda: app.apply_to(inputs2, parallel=parallel, par_kw=par_kw, logger=logger, show_progress=False), unwritable=unwritable)

    (ok, ds2), sched = scheduled(run_again)
    if not ok:
        return
    recomputed = sorted({k for k, _ in H.CALLS if k in first["C"]})
    s.check(not recomputed, pre + "second-apply_to/recomputed-completed", f"steps ran again for completed records {recomputed}")
    ro = s.call(pre + "second-apply_to/open-readonly", open_readonly, case, outdir)
    if ro[0]:
        stores.append(ro[1])
        again = observe(s, pre + "second-apply_to/reopened", case, ro[1])
        if again is not None:
            s.eq({k: sorted(map(repr, v)) for k, v in again["C"].items()}, {k: sorted(map(repr, v)) for k, v in first["C"].items()}, pre + "second-apply_to/completed-changed", "completed records after the second run")
            s.eq(sorted(again["N"]), sorted(first["N"]), pre + "second-apply_to/not-completed-membership-changed", "not-completed ids after the second run")
    s.cls("second-apply_to")


def check_against_model(s: Soft, tag, case, key, fate, val):
    """a live canonical value (solo / as_completed) against the fold model (fate before the writer)"""
    if fate["status"] == "C":
        want = expected_value(case, key, fate)
        s.eq(val, want, f"{tag}/value-vs-model", f"input {key!r}")
        return
    if not s.check("nc" in val, f"{tag}/failure-not-captured/{fate['kind']}", f"input {key!r}: expected NotCompleted from {fate['origin']}, got {val!r:.200}"):
        return
    check_nc_fields(s, tag, case, key, fate, val["nc"])


def check_nc_fields(s: Soft, tag, case, key, fate, nc, stored=False):
    kind = fate["kind"]
    brief = _brief({key: fate})
    if "origins" in fate:
        s.check(nc["origin"] in fate["origins"], f"{tag}/nc-origin/{kind}", f"input {key!r} ({brief}): origin {nc['origin']!r} not in {fate['origins']}")
    else:
        s.eq(nc["origin"], fate["origin"], f"{tag}/nc-origin/{kind}", f"input {key!r} ({brief})")
    s.eq(nc["type"], fate["type"], f"{tag}/nc-type/{kind}", f"input {key!r} ({brief})")
    s.check(message_ok(kind, key, fate["step"], nc["message"], case["writer"].split(":")[0], want=fate.get("message")), f"{tag}/nc-message/{kind}", f"input {key!r} ({brief}): message {nc['message']!r:.300}")
    if stored or fate["src_circ"] == "ok":
        # a live NotCompleted can only know what the failing value carried; the record in the store must name the source
        want = input_source_name(case, key)
        if case["present"] == "db" and nc["source"] == key:
            # a record of a sqlite store has two names: the member it was read from and the info.source it carries
            want = key
        s.eq(nc["source"], want, f"{tag}/nc-source/{fate['src_circ']}", f"input {key!r} ({_brief({key: fate})}): source recorded in the NotCompleted")


def check_store(s: Soft, tag, case, store, outdir, fates, solo, stores):
    wname, skind = case["writer"].split(":")
    live = observe(s, f"{tag}/live", case, store)
    ok, ro = s.call(f"{tag}/open-readonly", open_readonly, case, outdir)
    fresh = None
    if ok:
        stores.append(ro)
        fresh = observe(s, f"{tag}/reopened", case, ro)
    # circumstance tags: identifiers with an interior dot (and the stems / siblings they could be confused with) and
    # records the writer cannot write are judged under their own signatures, so that what holds for the other
    # records of the same case stays visible next to them
    dotted_keys = [k for k in fates if "." in k]

    def dotted_tag(d):
        # an end that reads as a format suffix when lower-cased (A.FASTA) is a circumstance of its own
        return f"/suffix-like-id@{skind}" if d.rsplit(".", 1)[1].lower() in SUFFIX_LIKE else f"/dotted-id@{skind}"

    def circ_of(name):
        f = fates.get(name)
        if f is not None and f["status"] == "N" and f["step"] == "writer" and f["kind"] in ("unwritable", "unjson"):
            return "/unwritable-record"
        if "." in name:
            return dotted_tag(name)
        tags = sorted({dotted_tag(d) for d in dotted_keys if d.startswith(name + ".")})
        return tags[0] if tags else ""

    for view, snap in (("live", live), ("reopened", fresh)):
        if snap is None:
            continue
        for circ in ("", f"/dotted-id@{skind}", f"/suffix-like-id@{skind}", "/unwritable-record"):
            vt = f"{tag}/{view}{circ}"
            mine = {k: f for k, f in fates.items() if circ_of(k) == circ}
            snapC = {k: v for k, v in snap["C"].items() if circ_of(k) == circ}
            snapN = {k: v for k, v in snap["N"].items() if circ_of(k) == circ}
            if not mine and not snapC and not snapN:
                continue
            wantC = sorted(k for k, f in mine.items() if f["status"] == "C")
            wantN = sorted(k for k, f in mine.items() if f["status"] == "N")
            if circ and not (sorted(snapC) == wantC and sorted(snapN) == wantN and all(len(v) == 1 for sn in (snapC, snapN) for v in sn.values())):
                # one clause for the tagged circumstances (a misfiled record shows up as stray + missing + foreign content + ...)
                got_all, want_all = set(snapC) | set(snapN), set(mine)
                how = "missing-or-foreign" if got_all != want_all else "duplicate" if any(len(v) > 1 for sn in (snapC, snapN) for v in sn.values()) else "wrong-status"
                s.fail(f"{vt}/membership:{how}", f"completed {sorted(snapC)} want {wantC}; not completed {sorted(snapN)} want {wantN}; fates {_brief(mine)}")
                continue
            dup = {lab: {k: len(v) for k, v in sn.items() if len(v) > 1} for lab, sn in (("C", snapC), ("N", snapN))}
            s.check(not dup["C"] and not dup["N"], f"{vt}/duplicate-records", f"{dup}")
            both = sorted(set(snapC) & set(snapN))
            s.check(not both, f"{vt}/completed-and-not-completed", f"{both}")
            stray = sorted((set(snapC) | set(snapN)) - set(mine))
            s.check(not stray, f"{vt}/record-under-foreign-identifier", f"{stray}; inputs {sorted(fates)}")
            missing = sorted(set(mine) - set(snapC) - set(snapN))
            s.check(not missing, f"{vt}/input-without-record", f"{missing}; inputs {sorted(fates)}, completed {sorted(snap['C'])}, not completed {sorted(snap['N'])}")
            s.eq(sorted(snapC), wantC, f"{vt}/completed-membership", f"fates {_brief(mine)}")
            s.eq(sorted(snapN), wantN, f"{vt}/not-completed-membership", f"fates {_brief(mine)}")
            if view == "live" and fresh is not None:
                continue  # content is compared once, on the persisted view
            for key, fate in mine.items():
                if fate["status"] == "C" and key in snapC:
                    got = parse_completed(s, vt, wname, key, snapC[key][0])
                    if got is None:
                        continue
                    s.eq(got, expected_value(case, key, fate), f"{vt}/completed-content-vs-model", f"record {key!r}")
                    if key in solo:
                        s.eq(got, solo[key], f"{vt}/completed-content-vs-solo", f"record {key!r}")
                elif fate["status"] == "N" and key in snapN:
                    nc = parse_nc(s, vt, wname, key, snapN[key][0])
                    if nc is None:
                        continue
                    check_nc_fields(s, vt, case, key, fate, nc, stored=True)
                    if key in solo and fate["step"] != "writer" and "nc" in solo[key]:
                        drop = () if fate["src_circ"] == "ok" else ("source",)
                        a = {k: v for k, v in nc.items() if k not in drop}
                        b = {k: v for k, v in solo[key]["nc"].items() if k not in drop}
                        s.eq(a, b, f"{vt}/not-completed-content-vs-solo/{fate['kind']}", f"record {key!r}")
    return fresh or live


def _sans_source(val, circ):
    """a NotCompleted made from a value that carries no source may or may not have learnt it from the proxy"""
    if circ != "ok" and isinstance(val, dict) and "nc" in val:
        return {"nc": {k: v for k, v in val["nc"].items() if k != "source"}}
    return val


def _brief(fates):
    return {k: (f["status"] if f["status"] == "C" else f"N:{f['kind']}@{f['step']}") for k, f in fates.items()}


# ===================================================================== subs
SUBS = [
    Sub("owned", execute, strategy=cases("owned"), quick=640, thorough=64_000, shards_quick=16),
    Sub("loky", execute, strategy=cases("loky"), quick=6, thorough=100, shards_quick=1, weight=50.0),
]


# ------------------------------------------------- predicates for known findings
def _kp_wrong_reaches_typed_writer(case, sig, msg):
    """a wrong-type value reaches a typed writer (write_seqs / write_tabular)"""
    return any(f["step"] == "writer" for f in fold(case).values())


def _kp_unproxied_wrong_type(case, sig, msg):
    """an input carrying its own `source` attribute (not proxied) produces a wrong-type value (bare, or rejected by the next typed step)"""
    if case["present"] != "attr":
        return False
    return any(f["pre_writer"].get("wrong") or f["pre_writer"].get("src_circ") == "wrong-type-value" for f in fold(case).values())


def _kp_value_without_source(case, sig, msg):
    """some record fails at a step whose input value carries no source (a wrong-type value, a Table from load_tabular)"""
    return any(f["status"] == "N" and f.get("src_circ") != "ok" for f in fold(case).values())


def _kp_unwritable_reaches_writer(case, sig, msg):
    """some record reaches the writer as a value of an accepted type on which the writer's main raises"""
    return any(f["status"] == "N" and f["step"] == "writer" and f["kind"] in ("unwritable", "unjson") for f in fold(case).values())


def _kp_unwritable_reaches_write_db(case, sig, msg):
    """same, and the writer is write_db (its serialiser captures the exception and pickles the failure)"""
    return case["writer"].startswith("write_db") and _kp_unwritable_reaches_writer(case, sig, msg)


def _kp_dotted_identifier_dir_store(case, sig, msg):
    """some identifier has an interior dot and the output is a directory store"""
    return case["writer"].endswith(":dir") and any("." in k for k in case["keys"])


KNOWN_PREDICATES = {
    "unwritable_reaches_writer": _kp_unwritable_reaches_writer,
    "unwritable_reaches_write_db": _kp_unwritable_reaches_write_db,
    "dotted_identifier_dir_store": _kp_dotted_identifier_dir_store,
    "wrong_reaches_typed_writer": _kp_wrong_reaches_typed_writer,
    "unproxied_wrong_type": _kp_unproxied_wrong_type,
    "value_without_source": _kp_value_without_source,
}

META = {
    "technique": "Hypothesis-generated compositions, outcome tables and completion orders; fold model plus solo-call differential; owned pickling scheduler replacing PAR.as_completed, validated by a few real loky runs",
    "level_text": "Each run drives several hundred compositions (three harness value families plus compositions around the library's min_length / take_named_seqs / omit_degenerates, compositions without any generic step, four writers, directory and sqlite stores, nine input presentations including in-memory collections, a sqlite store read by load_db and a single str / Path given as the dstore) over 1-12 records (identifiers with interior dots included) with generated per-record outcomes at every step, the writer included (values the writer raises on), serially and under generated completion orders through a pickling executor, and checks every record of the output store (identifier, completed xor not-completed, content, origin, type, message, source) against a fold model and against calling the composition on that input alone; six cases go through the real loky executor with skewed task durations.",
    "level_note": "Only the owned-schedule layer is exhaustive over completion orders; the real-executor layer observes the schedules the OS produces. MPI, zipped input stores, falsy inputs, bare dotted sources and writer failures after a partial write are not driven. Of the library's own generic apps only min_length, take_named_seqs and omit_degenerates are composed (one at a time); stateful ones (take_n_seqs with fixed_choice) are excluded by design.",
    "design_ref": "DESIGN.md section 1, C14",
}
