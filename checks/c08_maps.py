"""C08 — gapped-coordinate maps agree with the gapped string they describe.

Oracle: a plain gapped string whose residues are made unique per position, so
that every misplacement is visible.  Nothing of ``cogent3.core.location`` is
used by the model.
"""

from __future__ import annotations

import itertools
import json

import numpy
from hypothesis import strategies as st

from vlib.core import Soft, Sub

PROPERTY_ID = "C08"
LEVEL = "exploration"
RULE = (
    "layout sub-check: every gap layout (string over {residue, gap}) up to the tier's length bound is enumerated "
    "and, per layout, every in-range alignment interval (start/stop in 0..L and their negative/None spellings), every "
    "column (as integer index i and as i-L) and every residue index is compared with the string model (evaluations = number of individual "
    "comparisons); the accessors and index conversions are compared on the map of every construction route, and each "
    "route's map re-enters merge_maps; longer layouts, pairs of layouts for the binary operations, feature maps and "
    "histories are generated with Hypothesis. featuremap sub-check: spans may be reversed (a reversed span denotes its "
    "parent positions downwards) or lost; the map is indexed by a slice, a list of slices, a tuple of spans, an "
    "integer (incl. negative) and an inner FeatureMap made of forward, reversed and lost spans (operation inner_out: "
    "inner spans that overhang either end of the indexed map or lie wholly outside it, whose outside positions must "
    "come back lost), and the result is compared with the composition of the two index lists; histories of up to 3 operations feed every result into the "
    "next operation and compare after each. history sub-check: 2-5 operations starting from an IndelMap (slice, "
    "integer index in either spelling, joined segments, concatenation on either side, scaling, reversal, merge, minus, JSON / from_spans "
    "round trips), optionally converted by to_feature_map / make_seq_feature_map and continued with feature-map "
    "operations (inverse, slice, composition ...); after every step the result is rendered and answers every accessor "
    "like the map of the transformed string. Non-trivial = a (layout, interval) pair whose start or stop lies strictly "
    "inside or exactly at the edge of a gap run on a layout with >= 2 gap runs (counted as distinct "
    "(layout,start,stop) triples), a binary/feature-map case with >= 2 gap runs / >= 2 spans, or a history of >= 2 "
    "applied steps on a layout with a gap."
)
ASSUMPTIONS = [
    "slice intervals are in range (-len <= a,b <= len): IndelMap documents IndexError for out-of-range negatives and does not clamp large stops; strides raise NotImplementedError by design",
    "joined_segments is driven with sorted, non-overlapping, non-empty in-range segments (what Aligned slicing by a feature passes)",
    "FeatureMap.inverse is only required to work on non-overlapping maps (it documents ValueError for overlaps)",
    "IndelMap.get_coordinates on a map of an empty sequence may answer [] or [(0, 0)]",
    "FeatureMap indexing normalises slices like Python (negative and over-long bounds are clamped, _norm_index docstring); integer indices -len..len-1 are asserted (_norm_index documents s[-1] -> s[len(s)-1]), integers outside that range are not generated",
    "integer indices of IndelMap are asserted for -len..len-1 with Python meaning (m[i-len] answers like m[i]): __getitem__ is registered for int, converts negative bounds ('convert negative indices') and test_indelmap_invalid_slice_range pins IndexError only for a negative integer beyond -len, alignments pass the integer of aln[i] (cookbook 'Getting a single column') straight to it and the array-backed class follows numpy; integers >= len or < -len are not generated",
    "an inner FeatureMap used as index has parent_length == len(outer) and non-empty spans; operation inner_out lets forward/reversed spans start at -3..len+2 and end beyond len: Span.remap_with states that the part of a span not lying within the map is added as a lost span ('Display slice, inverse of feature map') and tests/test_core/test_maps.py::test_spans pins (-1,10) -> [-1-, 0:5, 5:10] and (5,11) -> [5:10, -1-], so every outside position is modelled as lost, also when the whole span lies outside (signature tags inner[overhang] / inner[outside]); outer maps of length 0 are skipped for this operation",
    "a tuple/list of Span objects used as index carries forward spans only (as_map drops the reverse flag of a bare Span; Feature.without_lost_spans passes nongap() spans, which are forward)",
    "FeatureMap.nucleic_reversed documents that the reverse attribute of spans is discarded: every reflected span is expected forward, spans in reverse order",
    "FeatureMap.get_coordinates: the docstring allows (end, start) for reversed maps while the code answers (start, end); only the pair of boundaries is compared",
    "FeatureMap.get_gap_coordinates is not checked (it reads .end of the preceding span, undefined after a lost span / for unordered maps)",
    "zeroed / get_covering_span / inverse / shadow are skipped inside histories when an earlier step produced a zero-length span (start/end and overlap tests of the library count such spans)",
    "FeatureMap division is only driven as (m * 3) / 3 (LostSpan.__truediv__ asserts divisibility by 3 whatever the scale)",
    "inside histories the partition of a feature map into spans is read from the (already verified) object when nucleic_reversed is modelled, because reflection works span by span",
]

RES = "ABCDEFGHIJKLMNOPQRSTUVWXYZabcdefghijklmnopqrstuvwxyz0123456789" * 4


# ----------------------------------------------------------------- model
def gapped(layout: str) -> str:
    """layout over 'x' / '-' -> gapped string with unique residues"""
    out, n = [], 0
    for c in layout:
        if c == "-":
            out.append("-")
        else:
            out.append(RES[n])
            n += 1
    return "".join(out)


def runs(g: str, gap: bool):
    out, start = [], None
    for i, c in enumerate(g):
        if (c == "-") == gap:
            if start is None:
                start = i
        elif start is not None:
            out.append((start, i))
            start = None
    if start is not None:
        out.append((start, len(g)))
    return out


def n_left(g: str, col: int) -> int:
    return sum(1 for c in g[:col] if c != "-")


def seq_segments(g: str):
    """ungapped segments in sequence coordinates"""
    out, n, start = [], 0, None
    for c in g:
        if c != "-":
            if start is None:
                start = n
            n += 1
        elif start is not None:
            out.append((start, n))
            start = None
    if start is not None:
        out.append((start, n))
    return out


def gap_coords(g: str):
    """[(seq pos, gap length)]"""
    return [[n_left(g, s), e - s] for s, e in runs(g, True)]


def render(m, residues: str) -> str:
    """gapped string described by IndelMap ``m`` over ``residues``"""
    out = []
    for sp in m.spans:
        if sp.lost:
            out.append("-" * len(sp))
        else:
            out.append(residues[sp.start : sp.end])
    return "".join(out)


def make_map(g: str):
    from cogent3.core.location import IndelMap

    pos = []
    lens = []
    for s, e in runs(g, True):
        pos.append(n_left(g, s))
        lens.append(e - s)
    n = sum(1 for c in g if c != "-")
    return IndelMap(
        gap_pos=numpy.array(pos, dtype=numpy.int32),
        gap_lengths=numpy.array(lens, dtype=numpy.int32),
        parent_length=n,
    )


def make_map_via(g: str, route: str):
    """IndelMap of g by the constructor or, as alignments do, by parsing the gapped string"""
    if route == "parse" and g:
        from cogent3 import make_seq

        return make_seq(g, moltype="text").parse_out_gaps()[0]
    return make_map(g)


def ints(x):
    return json.loads(json.dumps(numpy.asarray(x).tolist()))


def compare_accessors(s: Soft, m, g: str, pre: str) -> int:
    """every descriptive accessor and index conversion of IndelMap ``m`` against the gapped string ``g``;
    returns the number of comparisons.  ``pre`` is a circumstance tag put in front of the clause names."""
    L = len(g)
    n = sum(1 for c in g if c != "-")
    gruns = runs(g, True)
    evals = 0
    ok, got = s.call(pre + "gaps/get_gap_coordinates", lambda: [list(x) for x in ints(m.get_gap_coordinates())])
    if ok:
        s.eq(got, gap_coords(g), pre + "gaps/get_gap_coordinates", g)
    ok, got = s.call(pre + "gaps/get_gap_align_coordinates", lambda: [list(x) for x in ints(m.get_gap_align_coordinates())])
    if ok:
        s.eq(got, [list(x) for x in gruns], pre + "gaps/get_gap_align_coordinates", g)
    ok, got = s.call(pre + "gaps/get_gap_lengths", lambda: [int(x) for x in m.get_gap_lengths()])
    if ok:
        s.eq(got, [e - b for b, e in gruns], pre + "gaps/get_gap_lengths", g)
    ok, ng = s.call(pre + "segments/nongap", lambda: [(int(sp.start), int(sp.end)) for sp in m.nongap()])
    if ok:
        s.eq(ng, runs(g, False), pre + "segments/nongap", g)
    ok, co = s.call(pre + "segments/get_coordinates", lambda: [(int(a), int(b)) for a, b in m.get_coordinates()])
    if ok:
        want = seq_segments(g)
        if n == 0:
            s.check(co in ([], [(0, 0)]), pre + "segments/get_coordinates", f"{g!r}: got {co}")
        else:
            s.eq(co, want, pre + "segments/get_coordinates", g)
    evals += 5

    # --- index conversions
    for col in range(L + 1):
        for spell in ([col, col - L] if col < L else [col]):
            if spell < 0 and col == L:
                continue
            ok, got = s.call(pre + "index/get_seq_index", m.get_seq_index, spell)
            evals += 1
            if ok:
                s.eq(got, n_left(g, col), pre + "index/get_seq_index", f"{g!r} col {spell}")
    cols = [i for i, c in enumerate(g) if c != "-"]
    for i in range(n):
        for spell in (i, i - n):
            ok, got = s.call(pre + "index/get_align_index", m.get_align_index, spell)
            evals += 1
            if ok:
                s.eq(got, cols[i], pre + "index/get_align_index", f"{g!r} seq index {spell}")
        # slice_stop: the end of an alignment slice that keeps residues < i
        # and none of the gap run that precedes residue i
        ok, got = s.call(pre + "index/get_align_index_stop", m.get_align_index, i, slice_stop=True)
        evals += 1
        if ok:
            want = cols[i]
            while want > 0 and g[want - 1] == "-":
                want -= 1
            s.eq(got, want, pre + "index/get_align_index_stop", f"{g!r} seq index {i}")
    return evals


# ------------------------------------------------------------ sub: layout
def spellings(i: int, L: int, is_stop: bool, full: bool):
    """ways of writing index i in a slice on length L"""
    out = [i]
    if full:
        if 0 < L - i <= L and i - L < 0:
            out.append(i - L)
        if (not is_stop and i == 0) or (is_stop and i == L):
            out.append(None)
    return out


def int_tag(i: int) -> str:
    """circumstance tag of an integer index: -1 is the one spelling whose naive slice [i:i+1] ends at 0"""
    return "" if i >= 0 else ("[minus-one]" if i == -1 else "[negative]")


def exec_layout(case) -> Soft:
    from cogent3 import make_seq
    from cogent3.core.location import IndelMap, gap_coords_to_map

    s = Soft("C08/")
    layout = case["g"]
    g = gapped(layout)
    L = len(g)
    residues = g.replace("-", "")
    n = len(residues)
    gruns = runs(g, True)
    s.cls(f"L={min(L, 12)}", f"runs={min(len(gruns), 4)}")
    if gruns and gruns[0][0] == 0:
        s.cls("leading-gap")
    if gruns and gruns[-1][1] == L:
        s.cls("trailing-gap")
    if n == 0:
        s.cls("all-gap")
    evals = 0

    # --- construction routes
    maps = {}
    ok, m = s.call("construct/direct", make_map, g)
    if not ok:
        return s
    maps["direct"] = m
    if L:
        ok, r = s.call("construct/parse_out_gaps", lambda: make_seq(g, moltype="text").parse_out_gaps())
        if ok:
            maps["parse_out_gaps"] = r[0]
            s.eq(str(r[1]).upper(), residues.upper(), "construct/parse_out_gaps/seq", "ungapped sequence")
    ok, r = s.call("construct/from_aligned_segments", IndelMap.from_aligned_segments, runs(g, False), L)
    if ok:
        maps["from_aligned_segments"] = r
    ok, r = s.call("construct/gap_coords_to_map", gap_coords_to_map, {p: l for p, l in gap_coords(g)}, n)
    if ok:
        maps["gap_coords_to_map"] = r
    ok, r = s.call("construct/from_spans", lambda: IndelMap.from_spans(tuple(m.spans), parent_length=n))
    if ok:
        maps["from_spans"] = r
    ok, r = s.call("construct/rich_dict", lambda: IndelMap.from_rich_dict(json.loads(m.to_json())))
    if ok:
        maps["rich_dict"] = r
    for route, mm in maps.items():
        evals += 1
        ok, txt = s.call(f"construct/{route}/render", render, mm, residues)
        if ok:
            s.eq(txt, g, f"construct/{route}/render", f"layout {g!r}")
        s.eq(len(mm), L, f"construct/{route}/len", f"layout {g!r}")
        s.eq(int(mm.parent_length), n, f"construct/{route}/parent_length", f"layout {g!r}")

    # --- descriptive accessors and index conversions, on every construction route
    evals += compare_accessors(s, m, g, "")
    for route, mm in maps.items():
        if route != "direct":
            evals += compare_accessors(s, mm, g, f"route:{route}/")
            # and it re-enters a binary operation: merged with the directly built map every gap run doubles
            ok, r = s.call(f"route:{route}/merge_maps", mm.merge_maps, m)
            evals += 1
            if ok:
                want = "".join(c * 2 if c == "-" else c for c in g)
                ok, txt = s.call(f"route:{route}/merge_maps/render", render, r, residues)
                if ok:
                    s.eq(txt, want, f"route:{route}/merge_maps/render", f"layout {g!r}")

    # --- slicing by every in-range interval
    full = L <= 6
    multi = len(gruns) >= 2
    for a in range(L + 1):
        for b in range(L + 1):
            want = g[a:b]
            pairs = itertools.product(spellings(a, L, False, True), spellings(b, L, True, True))
            pairs = list(pairs)
            if not full:
                pairs = [pairs[0], pairs[(a * 7 + b * 3) % len(pairs)]]
            for sa, sb in pairs:
                evals += 1
                ok, sl = s.call("slice", lambda: m[sa:sb])
                if not ok:
                    continue
                sub_res = residues[n_left(g, a) : n_left(g, b)] if a < b else ""
                ok, txt = s.call("slice/render", render, sl, sub_res)
                if ok and not s.eq(txt, want, "slice/render", f"{g!r}[{sa}:{sb}]"):
                    continue
                s.eq(len(sl), len(want), "slice/len", f"{g!r}[{sa}:{sb}]")
                s.eq(int(sl.parent_length), len(sub_res), "slice/parent_length", f"{g!r}[{sa}:{sb}]")
            if multi and a < b:
                inside = any((gs < a <= ge) or (gs <= a < ge) or (gs < b <= ge) or (gs <= b < ge) for gs, ge in gruns)
                if inside:
                    s.extra_nontrivial.append(f"{layout}/{a}/{b}")
    # integer index, also in its negative spelling (m[i - L] must answer like m[i])
    for i in range(L):
        for spell in (i, i - L):
            sig = "slice/int" + int_tag(spell)
            ok, sl = s.call(sig, lambda: m[spell])
            evals += 1
            if ok:
                sub_res = residues[n_left(g, i) : n_left(g, i + 1)]
                ok, txt = s.call(sig + "/render", render, sl, sub_res)
                if ok:
                    s.eq(txt, g[i], sig + "/render", f"{g!r}[{spell}]")
                s.eq(len(sl), 1, sig + "/len", f"{g!r}[{spell}]")

    # --- unary transformations
    ok, r = s.call("nucleic_reversed", m.nucleic_reversed)
    evals += 1
    if ok:
        ok, txt = s.call("nucleic_reversed/render", render, r, residues[::-1])
        if ok:
            s.eq(txt, g[::-1], "nucleic_reversed/render", g)
    for k in (2, 3):
        ok, r = s.call("mul", lambda: m * k)
        evals += 1
        if ok:
            big = "".join(c * k for c in layout)
            ok, txt = s.call("mul/render", lambda: render(r, "y" * (n * k)).replace("y", "x"))
            if ok:
                s.eq(txt, big, "mul/render", f"{g!r}*{k}")
            s.eq(len(r), L * k, "mul/len", f"{g!r}*{k}")
    ok, r = s.call("with_termini_unknown", m.with_termini_unknown)
    if ok:
        ok, txt = s.call("with_termini_unknown/render", render, r, residues)
        if ok:
            s.eq(txt, g, "with_termini_unknown/render", g)
    ok, fm = s.call("to_feature_map", m.to_feature_map)
    evals += 1
    if ok:
        ok, txt = s.call("to_feature_map/render", render, fm, residues)
        if ok:
            s.eq(txt, g, "to_feature_map/render", g)
        s.eq(len(fm), L, "to_feature_map/len", g)
        # the feature map of an alignment row is what features placed on alignments serialise
        ok, rt = s.call("to_feature_map/json", lambda: type(fm).from_rich_dict(json.loads(fm.to_json())))
        if ok:
            ok, txt = s.call("to_feature_map/json/render", render, rt, residues)
            if ok:
                s.eq(txt, g, "to_feature_map/json/render", g)
    s.evals = evals
    s.nontrivial = bool(s.extra_nontrivial)
    return s


def enum_layouts(tier: str):
    top = 7 if tier == "quick" else 11
    cases = []
    for L in range(0, top + 1):
        for bits in itertools.product("x-", repeat=L):
            cases.append({"g": "".join(bits)})
    return cases


@st.composite
def long_layouts(draw):
    """layouts 8..60 columns built from runs so that long gap runs occur"""
    nruns = draw(st.integers(1, 9))
    gap_first = draw(st.booleans())
    parts = []
    for i in range(nruns):
        ln = draw(st.integers(1, 9))
        parts.append(("-" if (i % 2 == 0) == gap_first else "x") * ln)
    return {"g": "".join(parts)[:60]}


# ------------------------------------------------------------ sub: binary
@st.composite
def layout_st(draw, min_size=0, max_size=14):
    nruns = draw(st.integers(0, 6))
    gap_first = draw(st.booleans())
    parts = []
    for i in range(nruns):
        ln = draw(st.integers(1, 4))
        parts.append(("-" if (i % 2 == 0) == gap_first else "x") * ln)
    g = "".join(parts)[:max_size]
    while len(g) < min_size:
        g += "x"
    return g


@st.composite
def binary_cases(draw):
    g1 = draw(layout_st())
    g2 = draw(layout_st())
    # same-length partner for shared/minus gaps: mutate g1
    g3 = "".join(draw(st.sampled_from(["x", "-", c])) for c in g1)
    # same ungapped sequence for merge_maps: other gap lengths at each position
    n = g1.count("x")
    extra = draw(st.lists(st.integers(0, 3), min_size=n + 1, max_size=n + 1))
    # segments for joined_segments
    L = len(g1)
    cuts = sorted(set(draw(st.lists(st.integers(0, L), max_size=8))))
    segs = []
    i = 0
    while i + 1 < len(cuts):
        segs.append([cuts[i], cuts[i + 1]])
        i += draw(st.sampled_from([1, 2]))
    feat = []
    if L:
        fc = sorted(set(draw(st.lists(st.integers(0, L), min_size=0, max_size=6))))
        feat = [[fc[j], fc[j + 1]] for j in range(0, len(fc) - 1, 2)]
    route = draw(st.sampled_from(["direct", "parse"]))
    return {"g1": g1, "g2": g2, "g3": g3, "extra": extra, "segs": segs, "feat": feat, "route": route}


def exec_binary(case) -> Soft:
    from cogent3.core.location import FeatureMap

    s = Soft("C08/")
    l1, l2, l3 = case["g1"], case["g2"], case["g3"]
    g1, g2 = gapped(l1), gapped(l2)
    r1, r2 = g1.replace("-", ""), g2.replace("-", "")
    route = case.get("route", "direct")
    ok, m1 = s.call("construct/" + route, make_map_via, g1, route)
    ok2, m2 = s.call("construct/" + route, make_map_via, g2, route)
    if not (ok and ok2):
        return s
    s.cls("route:" + route)
    nr1, nr2 = len(runs(g1, True)), len(runs(g2, True))
    s.nontrivial = nr1 >= 2 or (nr1 >= 1 and nr2 >= 1)

    # concatenation
    ok, r = s.call("add", lambda: m1 + m2)
    if ok:
        # residues of the second string continue the numbering
        res = r1 + "".join(chr(0x100 + i) for i in range(len(r2)))
        want = g1 + "".join(("-" if c == "-" else chr(0x100 + r2.index(c))) for c in g2)
        ok, txt = s.call("add/render", render, r, res)
        if ok:
            s.eq(txt, want, "add/render", f"{g1!r}+{g2!r}")
        s.eq(len(r), len(g1) + len(g2), "add/len", f"{g1!r}+{g2!r}")
        s.eq(int(r.parent_length), len(r1) + len(r2), "add/parent_length", f"{g1!r}+{g2!r}")
        if g1.endswith("-") and g2.startswith("-"):
            s.cls("add:gap-meets-gap")

    # joined segments
    segs = [tuple(x) for x in case["segs"]]
    if segs:
        ok, r = s.call("joined_segments", m1.joined_segments, segs)
        if ok:
            want = "".join(g1[a:b] for a, b in segs)
            res = want.replace("-", "")
            ok, txt = s.call("joined_segments/render", render, r, res)
            if ok:
                s.eq(txt, want, "joined_segments/render", f"{g1!r} {segs}")
            s.eq(len(r), len(want), "joined_segments/len", f"{g1!r} {segs}")
            s.cls("joined:multi" if len(segs) > 1 else "joined:single")

    # merge maps: same sequence, other gap layout
    n = len(r1)
    other_g = "".join("-" * case["extra"][i] + r1[i] for i in range(n)) + "-" * case["extra"][n]
    ok, mo = s.call("construct/" + route, make_map_via, other_g, route)
    if not ok:
        return s
    ok, r = s.call("merge_maps", m1.merge_maps, mo)
    if ok:
        # gap length in front of residue i is the sum of both
        def lens(g):
            out = [0] * (n + 1)
            k = 0
            for c in g:
                if c == "-":
                    out[k] += 1
                else:
                    k += 1
            return out

        la, lb = lens(g1), lens(other_g)
        want = "".join("-" * (la[i] + lb[i]) + r1[i] for i in range(n)) + "-" * (la[n] + lb[n])
        ok, txt = s.call("merge_maps/render", render, r, r1)
        if ok:
            s.eq(txt, want, "merge_maps/render", f"{g1!r} merged with {other_g!r}")

    # shared / minus gaps with an equal-length partner
    g3 = gapped(l3)
    ok, m3 = s.call("construct/" + route, make_map_via, g3, route)
    if not ok:
        return s
    both = [i for i in range(len(g1)) if g1[i] == "-" and g3[i] == "-"]
    ok, r = s.call("shared_gaps", m1.shared_gaps, m3)
    if ok:
        cols = []
        okfmt = True
        for pair in numpy.asarray(r).tolist():
            if not isinstance(pair, list) or len(pair) != 2:
                okfmt = False
                break
            cols.extend(range(pair[0], pair[1]))
        if s.check(okfmt, "shared_gaps/format", f"{r!r}"):
            s.eq(cols, both, "shared_gaps/columns", f"{g1!r} vs {g3!r}")
    ok, r = s.call("minus_gaps", m1.minus_gaps, m3)
    if ok:
        want = "".join(c for i, c in enumerate(g1) if i not in set(both))
        ok, txt = s.call("minus_gaps/render", render, r, r1)
        if ok:
            s.eq(txt, want, "minus_gaps/render", f"{g1!r} minus {g3!r}")
        if both:
            s.cls("minus:shared-columns")

    # alignment feature -> sequence feature
    feat = [tuple(x) for x in case["feat"]]
    if feat:
        ok, fm = s.call("make_seq_feature_map/build", lambda: FeatureMap.from_locations(locations=feat, parent_length=len(g1)))
        if ok:
            ok, r = s.call("make_seq_feature_map", m1.make_seq_feature_map, fm)
            if ok:
                got = [(int(a), int(b)) for a, b in r.get_coordinates()]
                want = [(n_left(g1, a), n_left(g1, b)) for a, b in feat]
                s.eq(got, want, "make_seq_feature_map/coords", f"{g1!r} {feat}")
                s.check(all(0 <= a <= b <= n for a, b in got), "make_seq_feature_map/in-parent", f"{got} n={n}")
    return s


# -------------------------------------------------------- sub: featuremap
# A feature map is modelled by the list of parent indices it denotes, one per
# map position (None where the position is lost).  A forward span [a, b)
# denotes a, a+1, .. b-1; a reversed span denotes b-1, b-2, .. a.
SPAN_KINDS = ("s", "r", "l")  # forward span, reversed span, lost span


def spec_positions(specs):
    idx = []
    for x in specs:
        if x[0] == "s":
            idx.extend(range(x[1], x[2]))
        elif x[0] == "r":
            idx.extend(range(x[2] - 1, x[1] - 1, -1))
        else:
            idx.extend([None] * x[1])
    return idx


def build_spans(specs):
    from cogent3.core.location import LostSpan, Span

    spans = []
    for x in specs:
        if x[0] == "s":
            spans.append(Span(x[1], x[2]))
        elif x[0] == "r":
            spans.append(Span(x[1], x[2], reverse=True))
        else:
            spans.append(LostSpan(x[1]))
    return spans


def reduce_specs(raw, n: int):
    """raw [kind, u, v] triples -> non-empty spans inside [0, n] (lost spans of length 1..3); the reduction makes
    every generated triple valid whatever the length n of the indexed map turned out to be"""
    out = []
    for kind, u, v in raw:
        if kind == "l":
            out.append(["l", 1 + u % 3])
        elif n > 0:
            lo = u % n
            out.append([kind, lo, lo + 1 + v % (n - lo)])
    return out


def reduce_specs_out(raw, n: int):
    """raw [kind, u, v] triples -> non-empty spans that may overhang either end of a map of length n or lie wholly
    outside it (start -3 .. n+2, up to n+3 long; lost spans of length 1..3)"""
    out = []
    for kind, u, v in raw:
        if kind == "l":
            out.append(["l", 1 + u % 3])
        else:
            lo = u % (n + 6) - 3
            out.append([kind, lo, lo + 1 + v % (n + 3)])
    return out


def fm_positions(fm):
    out = []
    for sp in fm.spans:
        if sp.lost:
            out.extend([None] * len(sp))
        elif sp.reverse:
            out.extend(range(int(sp.end) - 1, int(sp.start) - 1, -1))
        else:
            out.extend(range(int(sp.start), int(sp.end)))
    return out


def fm_blocks(fm):
    """[(length, lost)] per span: how the map positions are partitioned into spans"""
    return [(len(sp), bool(sp.lost)) for sp in fm.spans]


def run_set(ixs):
    ixs = sorted(set(ixs))
    out = []
    for i in ixs:
        if out and out[-1][1] == i:
            out[-1][1] = i + 1
        else:
            out.append([i, i + 1])
    return [tuple(x) for x in out]


def fm_in_parent(s: Soft, fm, plen: int, sig: str):
    for sp in fm.spans:
        if not sp.lost:
            s.check(0 <= sp.start <= sp.end <= plen, sig, f"span {sp!r} outside parent of length {plen}")


def fm_reflect(idx, blocks, P: int):
    """positions of the nucleic_reversed map: spans in reverse order, each reflected onto the other strand and
    (documented: 'discards reverse attribute') listed ascending"""
    want, pos, parts = [], 0, []
    for ln, lost in blocks:
        parts.append((idx[pos : pos + ln], lost))
        pos += ln
    for blk, lost in reversed(parts):
        want.extend(blk if lost else sorted(P - 1 - i for i in blk))
    return want


GETITEM_OPS = ("slice", "int", "inner", "inner_out", "multi", "spans", "keep")
SKIP = "not applicable"


def fmap_step(s: Soft, fm, idx, P: int, op, sigp: str, after_zeroed: bool = False, from_indel: bool = False):
    """apply one operation to feature map ``fm`` (verified to denote ``idx`` on a parent of length ``P``) and compare
    the result with the same operation on the index list.  Returns (fm', idx', P') to continue a history, SKIP when
    the operation does not apply to this state, or None when the result cannot be continued.  ``after_zeroed``: an earlier
    step of the history was ``zeroed`` (circumstance tag for the two operations that serialise the spans);
    ``from_indel``: the history started from IndelMap.to_feature_map (same clause name as in the layout sub-check for
    the JSON round trip of such a map)."""
    from cogent3.core.location import FeatureMap, Span

    name = op[0]
    n = len(idx)
    real = [i for i in idx if i is not None]
    blocks = fm_blocks(fm)
    empty_spans = any(ln == 0 and not lost for ln, lost in blocks)
    what = f"{fm!r} {op}"
    want_P = P
    if name in GETITEM_OPS and not blocks:
        # composition with a map that has no spans at all: kept under its own
        # signature (Span.remap_with reads map.offsets[-1])
        sig = sigp + "getitem/no-spans"
        ok, r = s.call(sig, lambda: fm[0:0])
        if not (ok and s.eq(fm_positions(r), [], sig, what)):
            return None
    if name == "slice":
        a, b = op[1], op[2]
        call = lambda: fm[a:b]
        want = idx[a:b]
    elif name == "int":
        if not n:
            return SKIP
        i = op[1] % (2 * n) - n  # -n .. n-1
        call = lambda: fm[i]
        want = [idx[i]]
        what = f"{fm!r} [{i}]"
    elif name == "inner":
        specs = reduce_specs(op[1], n)
        if not specs:
            return SKIP
        inner_idx = spec_positions(specs)
        call = lambda: fm[FeatureMap(spans=build_spans(specs), parent_length=n)]
        want = [None if j is None else idx[j] for j in inner_idx]
        what = f"{fm!r} [inner {specs}]"
        s.cls("inner:" + "".join(sorted({x[0] for x in specs})))
    elif name == "inner_out":
        # inner spans reaching outside the indexed map: the outside positions are lost (Span.remap_with comment,
        # pinned by tests/test_core/test_maps.py::test_spans)
        if not n:
            return SKIP
        specs = reduce_specs_out(op[1], n)
        inner_idx = spec_positions(specs)
        call = lambda: fm[FeatureMap(spans=build_spans(specs), parent_length=n)]
        want = [None if (j is None or not 0 <= j < n) else idx[j] for j in inner_idx]
        what = f"{fm!r} [inner {specs}]"
        real_specs = [x for x in specs if x[0] != "l"]
        if any(x[2] <= 0 or x[1] >= n for x in real_specs):
            name = "inner[outside]"  # some span covers nothing of the map
        elif any(x[1] < 0 or x[2] > n for x in real_specs):
            name = "inner[overhang]"
        else:
            name = "inner"
        s.cls("inner_out:" + name)
    elif name == "multi":
        sls = [slice(a, b) for a, b in op[1]]
        call = lambda: fm[sls]
        want = [v for a, b in op[1] for v in idx[a:b]]
    elif name == "spans":
        # a tuple of forward spans in map coordinates, as Feature.without_lost_spans passes
        if not n:
            return SKIP
        locs = []
        for u, v in op[1]:
            lo = u % n
            locs.append((lo, lo + 1 + v % (n - lo)))
        call = lambda: fm[tuple(Span(a, b) for a, b in locs)]
        want = [v for a, b in locs for v in idx[a:b]]
        what = f"{fm!r} [spans {locs}]"
    elif name == "keep":
        call = lambda: fm[fm.nongap()]
        want = real
    elif name == "add":
        specs = reduce_specs(op[1], P)
        if not specs:
            return SKIP
        call = lambda: fm + FeatureMap(spans=build_spans(specs), parent_length=P)
        want = idx + spec_positions(specs)
        what = f"{fm!r} + {specs}"
    elif name == "nucleic_reversed":
        call = fm.nucleic_reversed
        want = fm_reflect(idx, blocks, P)
    elif name == "inverse":
        # documented: cannot work if there are overlaps
        if len(set(real)) != len(real) or empty_spans:
            return SKIP
        call = fm.inverse
        want = [None] * P
        for mi, pi in enumerate(idx):
            if pi is not None:
                want[pi] = mi
        want_P = n
    elif name == "shadow":
        if len(set(real)) != len(real) or empty_spans:
            return SKIP
        call = fm.shadow
        covered = set(real)
        want = [i for i in range(P) if i not in covered]
    elif name == "covered":
        call = fm.covered
        want = sorted(set(real))
    elif name == "covering":
        if not real or empty_spans:
            return SKIP
        call = fm.get_covering_span
        want = list(range(min(real), max(real) + 1))
    elif name == "without_gaps":
        call = fm.without_gaps
        want = real
    elif name == "gaps":
        call = fm.gaps
        want = [i for i, v in enumerate(idx) if v is None]
        want_P = n
    elif name == "json":
        call = lambda: FeatureMap.from_rich_dict(json.loads(fm.to_json()))
        want = idx
    elif name == "zeroed":
        if not real or empty_spans:
            return SKIP
        lo = min(real)
        call = fm.zeroed
        want = [None if i is None else i - lo for i in idx]
        want_P = max(real) + 1 - lo
    else:
        raise ValueError(f"unknown feature map operation {op!r}")
    sig = sigp + name
    if after_zeroed and name in ("json", "zeroed"):
        # zeroed() shifts the spans of its result in place and leaves their serialisable
        # state behind: one root cause, kept apart from the plain round trip
        sig = sigp + "after-zeroed/serialise"
    elif from_indel and name == "json":
        sig = sigp + "to_feature_map/json"
    ok, r = s.call(sig, call)
    if not ok:
        return None
    ok, got = s.call(sig + "/positions", fm_positions, r)
    if not ok or not s.eq(got, want, sig + "/positions", what):
        return None
    s.eq(len(r), len(want), sig + "/len", what)
    if not s.eq(int(r.parent_length), want_P, sig + "/parent_length", what):
        return None
    fm_in_parent(s, r, want_P, sig + "/in-parent")
    if name == "nucleic_reversed":
        s.check(not any(sp.reverse for sp in r.spans if not sp.lost), sig + "/reverse-discarded", what)
    if name == "covered":
        s.eq([(int(a), int(b)) for a, b in r.get_coordinates()], run_set(real), sig + "/coords", what)
    return r, want, want_P


_SMALL = st.integers(0, 60)
_SLICE_INT = st.integers(-45, 45)
_RAW_SPEC = st.tuples(st.sampled_from(SPAN_KINDS), _SMALL, _SMALL).map(list)
_RAW_SPECS = st.lists(_RAW_SPEC, min_size=1, max_size=4)


def fmap_op_st():
    plain = st.sampled_from(
        [["nucleic_reversed"], ["inverse"], ["covered"], ["without_gaps"], ["gaps"], ["keep"], ["shadow"], ["json"], ["zeroed"], ["covering"]]
    )
    return st.one_of(
        st.tuples(st.just("slice"), _SLICE_INT, _SLICE_INT).map(list),
        st.tuples(st.just("inner"), _RAW_SPECS).map(list),
        st.tuples(st.just("inner"), _RAW_SPECS).map(list),
        st.tuples(st.just("inner_out"), st.lists(_RAW_SPEC, min_size=1, max_size=3)).map(list),
        st.tuples(st.just("multi"), st.lists(st.tuples(_SLICE_INT, _SLICE_INT).map(list), min_size=1, max_size=3)).map(list),
        st.tuples(st.just("spans"), st.lists(st.tuples(_SMALL, _SMALL).map(list), min_size=1, max_size=3)).map(list),
        st.tuples(st.just("add"), _RAW_SPECS).map(list),
        st.tuples(st.just("int"), _SMALL).map(list),
        st.sampled_from([["nucleic_reversed"], ["inverse"]]),
        plain,
        plain,
        plain,
    )


@st.composite
def fmap_cases(draw):
    P = draw(st.integers(1, 40))
    k = draw(st.integers(1, 5))
    kind = draw(st.sampled_from(["disjoint", "disjoint", "overlap", "lost"]))
    fwd = st.sampled_from(["s", "s", "r"])
    spans = []
    if kind in ("disjoint", "lost"):
        cuts = sorted(draw(st.lists(st.integers(0, P), min_size=2 * k, max_size=2 * k)))
        for j in range(0, 2 * k, 2):
            if cuts[j] < cuts[j + 1]:
                spans.append([draw(fwd), cuts[j], cuts[j + 1]])
        if kind == "lost":
            for _ in range(draw(st.integers(1, 2))):
                pos = draw(st.integers(0, len(spans)))
                spans.insert(pos, ["l", draw(st.integers(1, 4))])
    else:
        for _ in range(k):
            a = draw(st.integers(0, P - 1))
            b = draw(st.integers(a + 1, P))
            spans.append([draw(fwd), a, b])
    if not any(x[0] != "l" for x in spans):
        spans.append(["s", 0, P])
    tot = sum((x[2] - x[1]) if x[0] != "l" else x[1] for x in spans)
    a = draw(st.integers(-tot - 2, tot + 2))
    b = draw(st.integers(-tot - 2, tot + 2))
    ops = draw(st.lists(fmap_op_st(), min_size=1, max_size=3))
    return {"P": P, "spans": spans, "kind": kind, "sl": [a, b], "ops": ops, "scale": draw(st.sampled_from([2, 3]))}


def exec_fmap(case) -> Soft:
    from cogent3.core.location import FeatureMap

    s = Soft("C08/fmap/")
    P = case["P"]
    specs = case["spans"]
    idx = spec_positions(specs)  # parent index per map position, None when lost
    real = [i for i in idx if i is not None]
    # history made explicit: an IndelMap with gap runs of the same lengths had
    # its spans read earlier in this process (lost spans are cached by length)
    for x in specs:
        if x[0] == "l":
            list(make_map("-" * x[1] + "x").spans)
    ok, m = s.call("construct", lambda: FeatureMap(spans=build_spans(specs), parent_length=P))
    if not ok:
        return s
    kind = case["kind"]
    s.cls(kind)
    if any(x[0] == "r" for x in specs):
        s.cls("reversed-span")
    s.nontrivial = len(specs) >= 2
    positions, in_parent = fm_positions, lambda fm, plen, sig: fm_in_parent(s, fm, plen, sig)

    s.eq(len(m), len(idx), "len", str(case))
    s.eq(positions(m), idx, "positions", str(case))
    # get_coordinates: one (start, end) pair per span that is not lost; the docstring lets a reversed map answer
    # (end, start), so the pair is compared as a set of two boundaries
    ok, co = s.call("get_coordinates", lambda: [tuple(sorted((int(a), int(b)))) for a, b in m.get_coordinates()])
    if ok:
        s.eq(co, [(x[1], x[2]) for x in specs if x[0] != "l"], "get_coordinates", str(case))
    ok, ng = s.call("nongap", lambda: [v for sp in m.nongap() for v in range(int(sp.start), int(sp.end))])
    if ok:
        s.eq(ng, [i for i, v in enumerate(idx) if v is not None], "nongap/positions", str(case))

    ok, c = s.call("covered", m.covered)
    if ok:
        s.eq([(int(a), int(b)) for a, b in c.get_coordinates()], run_set(real), "covered/coords", str(case))
        in_parent(c, P, "covered/in-parent")
    ok, cs = s.call("get_covering_span", m.get_covering_span)
    if ok:
        s.eq([(int(a), int(b)) for a, b in cs.get_coordinates()], [(min(real), max(real) + 1)], "covering_span", str(case))
    ok, nr = s.call("nucleic_reversed", m.nucleic_reversed)
    if ok:
        # spans stay forward after reflection: each span lists its indices ascending
        got_sets = [set(range(sp.start, sp.end)) for sp in nr.spans if not sp.lost]
        want_sets = [set(P - 1 - i for i in range(x[1], x[2])) for x in reversed(specs) if x[0] != "l"]
        s.eq(got_sets, want_sets, "nucleic_reversed/reflection", str(case))
        s.eq(len(nr), len(idx), "nucleic_reversed/len", str(case))
        in_parent(nr, P, "nucleic_reversed/in-parent")
    if kind in ("disjoint", "lost"):
        ok, sh = s.call("shadow", m.shadow)
        if ok:
            got = []
            for a, b in sh.get_coordinates():
                got.extend(range(a, b))
            s.eq(got, [i for i in range(P) if i not in set(real)], "shadow/complement", str(case))
            in_parent(sh, P, "shadow/in-parent")
        ok, inv = s.call("inverse", m.inverse)
        if ok:
            s.eq(len(inv), P, "inverse/len", str(case))
            # parent index -> map index
            want = [None] * P
            for mi, pi in enumerate(idx):
                if pi is not None:
                    want[pi] = mi
            s.eq(positions(inv), want, "inverse/pointwise", str(case))
            in_parent(inv, len(idx), "inverse/in-parent")
            if kind == "disjoint":
                ok, inv2 = s.call("inverse/twice", inv.inverse)
                if ok:
                    s.eq(positions(inv2), idx, "inverse/involution", str(case))
    else:
        overl = len(set(real)) != len(real)
        if not overl:
            s.call("inverse", m.inverse)
    # composition: a slice of the map placed on the parent
    a, b = case["sl"]
    ok, sl = s.call("getitem", lambda: m[a:b])
    if ok:
        s.eq(positions(sl), idx[a:b], "getitem/positions", f"{case} [{a}:{b}]")
        in_parent(sl, P, "getitem/in-parent")
    ok, z = s.call("zeroed", m.zeroed)
    if ok:
        lo = min(real)
        want = [None if i is None else i - lo for i in idx]
        if s.eq(positions(z), want, "zeroed/positions", str(case)):
            # the zeroed map re-enters serialisation (same clause as in the histories below)
            ok, zrt = s.call("after-zeroed/serialise", lambda: FeatureMap.from_rich_dict(json.loads(z.to_json())))
            if ok:
                s.eq(positions(zrt), want, "after-zeroed/serialise/positions", str(case))
                fm_in_parent(s, zrt, int(zrt.parent_length), "after-zeroed/serialise/in-parent")
    ok, rt = s.call("rich_dict", lambda: FeatureMap.from_rich_dict(json.loads(m.to_json())))
    if ok:
        s.eq(positions(rt), idx, "rich_dict/positions", str(case))
        s.eq(int(rt.parent_length), P, "rich_dict/parent_length", str(case))
    ok, wg = s.call("without_gaps", m.without_gaps)
    if ok:
        s.eq(positions(wg), real, "without_gaps/positions", str(case))
    # scaling (protein -> DNA coordinates): every span is scaled, so a position p becomes the block
    # p*k .. p*k+k-1, listed downwards inside a reversed span; division by 3 undoes multiplication by 3
    k = case.get("scale")
    if k:
        ok, mk = s.call("mul", lambda: m * k)
        if ok:
            want = spec_positions([[x[0], x[1] * k, x[2] * k] if x[0] != "l" else ["l", x[1] * k] for x in specs])
            s.eq(positions(mk), want, "mul/positions", f"{case} * {k}")
            s.eq(int(mk.parent_length), P * k, "mul/parent_length", f"{case} * {k}")
            if k == 3:
                ok, back = s.call("truediv", lambda: mk / 3)
                if ok:
                    s.eq(positions(back), idx, "truediv/positions", f"({case} * 3) / 3")
                    s.eq(int(back.parent_length), P, "truediv/parent_length", f"({case} * 3) / 3")
    # histories: every result re-enters the next operation and is compared again
    cur = (m, idx, P)
    zeroed = False
    s.evals = 14 + len(case.get("ops", []))
    for step, op in enumerate(case.get("ops", [])):
        nxt = fmap_step(s, cur[0], cur[1], cur[2], op, "chain/", after_zeroed=zeroed)
        if nxt is None:
            break
        if nxt is SKIP:
            continue
        cur = nxt
        zeroed = zeroed or op[0] == "zeroed"
        if step >= 1:
            s.cls("chain>=2")
    return s


# ----------------------------------------------------------- sub: history
# Results re-enter further operations.  The state of the model is the gap
# layout (string over x / -) while the object is an IndelMap, and the index
# list once it has become a FeatureMap.  Operation parameters are raw ints
# reduced by the current length, so every generated history is valid.
HIST_MAX = 60  # longest layout a history may grow to (residue labels are unique up to 62)


def indel_step(s: Soft, m, lay: str, op, sigp: str, after_json: bool = False):
    """one IndelMap operation on map ``m`` (verified to describe layout ``lay``).  Returns ("indel", m', lay'),
    ("fmap", fm, idx, P) or None (not applicable / result unusable).  ``after_json``: an earlier step rebuilt the
    map from its rich dict (circumstance tag for merge_maps, which is sensitive to the dtype of the gap arrays)."""
    from cogent3.core.location import FeatureMap, IndelMap

    name = op[0]
    L = len(lay)
    n = lay.count("x")
    g = gapped(lay)
    what = f"{g!r} {op}"
    if name == "slice":
        # a <= b; reversed intervals of fresh maps are enumerated by the layout sub-check
        a = op[1] % (L + 1)
        b = a + op[2] % (L + 1 - a)
        call = lambda: m[a:b]
        want = lay[a:b]
        what = f"{g!r}[{a}:{b}]"
    elif name == "int":
        if not L:
            return None
        i = op[1] % L
        call = lambda: m[i]
        want = lay[i]
        what = f"{g!r}[{i}]"
    elif name == "int_neg":
        # the same column spelled from the end: -1 .. -L
        if not L:
            return None
        i = -1 - op[1] % L
        call = lambda: m[i]
        want = lay[i]
        what = f"{g!r}[{i}]"
        name += int_tag(i)
    elif name == "nucleic_reversed":
        call = m.nucleic_reversed
        want = lay[::-1]
    elif name == "joined":
        cuts = sorted({u % (L + 1) for u in op[1]})
        segs = [(cuts[j], cuts[j + 1]) for j in range(0, len(cuts) - 1, 2)]
        if not segs:
            return None
        call = lambda: m.joined_segments(segs)
        want = "".join(lay[a:b] for a, b in segs)
        what = f"{g!r} joined {segs}"
    elif name == "add":
        if L + len(op[1]) > HIST_MAX:
            return None
        other = make_map(gapped(op[1]))
        call = lambda: m + other
        want = lay + op[1]
    elif name == "radd":
        if L + len(op[1]) > HIST_MAX:
            return None
        other = make_map(gapped(op[1]))
        call = lambda: other + m
        want = op[1] + lay
    elif name == "mul":
        k = op[1]
        if L * k > HIST_MAX:
            return None
        call = lambda: m * k
        want = "".join(c * k for c in lay)
    elif name == "merge":
        # same sequence, other gaps: e[i] columns in front of residue i (and after the last)
        e = [op[1][i % len(op[1])] % 3 for i in range(n + 1)]
        other_lay = "".join("-" * e[i] + "x" for i in range(n)) + "-" * e[n]
        if L + sum(e) > HIST_MAX:
            return None
        other = make_map(gapped(other_lay))
        call = lambda: m.merge_maps(other)
        mine = [0] * (n + 1)
        k = 0
        for c in lay:
            if c == "-":
                mine[k] += 1
            else:
                k += 1
        want = "".join("-" * (mine[i] + e[i]) + "x" for i in range(n)) + "-" * (mine[n] + e[n])
        what = f"{g!r} merged with {other_lay!r}"
    elif name == "minus":
        # equal-length partner; the columns that are gaps in both are removed
        if not L:
            return None
        choice = [op[1][i % len(op[1])] % 3 for i in range(L)]
        partner = "".join(("x", "-", lay[i])[choice[i]] for i in range(L))
        other = make_map(gapped(partner))
        call = lambda: m.minus_gaps(other)
        want = "".join(c for i, c in enumerate(lay) if not (c == "-" and partner[i] == "-"))
        what = f"{g!r} minus {partner!r}"
    elif name == "termini":
        call = m.with_termini_unknown
        want = lay
    elif name == "json":
        call = lambda: IndelMap.from_rich_dict(json.loads(m.to_json()))
        want = lay
    elif name == "from_spans":
        call = lambda: IndelMap.from_spans(tuple(m.spans), parent_length=n)
        want = lay
    elif name == "to_fmap":
        ok, fm = s.call(sigp + "to_feature_map", m.to_feature_map)
        if not ok:
            return None
        idx, k = [], 0
        for c in lay:
            if c == "-":
                idx.append(None)
            else:
                idx.append(k)
                k += 1
        ok, got = s.call(sigp + "to_feature_map/positions", fm_positions, fm)
        if not ok or not s.eq(got, idx, sigp + "to_feature_map/positions", what):
            return None
        s.eq(int(fm.parent_length), n, sigp + "to_feature_map/parent_length", what)
        return "fmap", fm, idx, n
    elif name == "seq_fmap":
        # an alignment feature (sorted, disjoint, non-empty spans) placed on the sequence
        cuts = sorted({u % (L + 1) for u in op[1]})
        feat = [(cuts[j], cuts[j + 1]) for j in range(0, len(cuts) - 1, 2)]
        if not feat:
            return None
        ok, afm = s.call(sigp + "make_seq_feature_map/build", lambda: FeatureMap.from_locations(locations=feat, parent_length=L))
        if not ok:
            return None
        ok, fm = s.call(sigp + "make_seq_feature_map", m.make_seq_feature_map, afm)
        if not ok:
            return None
        idx = [v for a, b in feat for v in range(n_left(lay, a), n_left(lay, b))]
        ok, got = s.call(sigp + "make_seq_feature_map/positions", fm_positions, fm)
        if not ok or not s.eq(got, idx, sigp + "make_seq_feature_map/positions", f"{g!r} {feat}"):
            return None
        fm_in_parent(s, fm, n, sigp + "make_seq_feature_map/in-parent")
        return "fmap", fm, idx, n
    else:
        raise ValueError(f"unknown indel map operation {op!r}")
    sig = sigp + name
    if after_json and name == "merge":
        sig = sigp + "after-json/merge"
    ok, r = s.call(sig, call)
    if not ok:
        return None
    wg = gapped(want)
    ok, txt = s.call(sig + "/render", render, r, wg.replace("-", ""))
    if not ok or not s.eq(txt, wg, sig + "/render", what):
        return None
    if not (s.eq(len(r), len(want), sig + "/len", what) and s.eq(int(r.parent_length), want.count("x"), sig + "/parent_length", what)):
        return None
    return "indel", r, want


_HSMALL = st.integers(0, 40)
_HLIST = st.lists(_HSMALL, min_size=2, max_size=8)


def indel_op_st():
    """operations that keep the object an IndelMap"""
    sl = st.tuples(st.just("slice"), _HSMALL, _HSMALL).map(list)
    return st.one_of(
        sl,
        sl,
        sl,
        st.tuples(st.just("int"), _HSMALL).map(list),
        st.tuples(st.just("int_neg"), st.sampled_from([0, 0, 1, 2, 3, 5, 8, 13, 21])).map(list),
        st.tuples(st.just("joined"), _HLIST).map(list),
        st.tuples(st.just("joined"), _HLIST).map(list),
        st.tuples(st.sampled_from(["add", "radd"]), layout_st(max_size=10)).map(list),
        st.tuples(st.just("mul"), st.sampled_from([2, 3])).map(list),
        st.tuples(st.just("merge"), _HLIST).map(list),
        st.tuples(st.just("minus"), _HLIST).map(list),
        st.just(["nucleic_reversed"]),
        st.sampled_from([["nucleic_reversed"], ["termini"], ["json"], ["from_spans"]]),
    )


def _indel_op_named(name):
    if name == "slice":
        return st.tuples(st.just("slice"), _HSMALL, _HSMALL).map(list)
    if name == "joined":
        return st.tuples(st.just("joined"), _HLIST).map(list)
    return st.just([name])


# histories named by the property's quantifier; the other histories are free sequences
TEMPLATES = [
    (["slice", "slice"], []),
    (["slice", "nucleic_reversed", "slice"], []),
    (["joined", "slice"], []),
    (["nucleic_reversed", "joined"], []),
    (["to_fmap"], ["inverse", "slice"]),
    (["slice", "to_fmap"], ["inverse", "inner"]),
    (["to_fmap"], ["nucleic_reversed", "inverse"]),
    (["joined", "to_fmap"], ["inverse", "inverse"]),
]


def _fmap_op_named(name):
    if name == "slice":
        return st.tuples(st.just("slice"), _SLICE_INT, _SLICE_INT).map(list)
    if name == "inner":
        return st.tuples(st.just("inner"), _RAW_SPECS).map(list)
    return st.just([name])


@st.composite
def history_cases(draw):
    # a layout with at least one run, so that most histories start from a map with content
    nruns = draw(st.integers(1, 6))
    gap_first = draw(st.booleans())
    g = "".join(("-" if (i % 2 == 0) == gap_first else "x") * draw(st.integers(1, 4)) for i in range(nruns))[:16]
    route = draw(st.sampled_from(["direct", "parse"]))
    plan = draw(st.sampled_from(["template", "indel", "indel", "to_fmap", "seq_fmap"]))
    if plan == "template":
        names, fnames = draw(st.sampled_from(TEMPLATES))
        ops = [draw(_indel_op_named(x)) for x in names]
        fops = [draw(_fmap_op_named(x)) for x in fnames]
        if fops:
            fops += draw(st.lists(fmap_op_st(), max_size=1))
        return {"g": g, "route": route, "ops": ops, "fops": fops}
    ops = draw(st.lists(indel_op_st(), min_size=2 if plan == "indel" else 0, max_size=3 if plan == "indel" else 2))
    fops = []
    if plan != "indel":
        # the tail of the history is spent in feature-map coordinates
        ops.append(["to_fmap"] if plan == "to_fmap" else ["seq_fmap", draw(_HLIST)])
        fops = draw(st.lists(fmap_op_st(), min_size=1, max_size=3))
    return {"g": g, "route": route, "ops": ops, "fops": fops}


def exec_history(case) -> Soft:
    s = Soft("C08/hist/")
    lay = case["g"]
    route = case.get("route", "direct")
    ok, m = s.call("construct/" + route, make_map_via, gapped(lay), route)
    if not ok:
        return s
    s.cls("route:" + route)
    evals = 0
    steps = 0
    state = ("indel", m, lay)
    done = []
    for op in case["ops"]:
        if state[0] != "indel":
            break
        nxt = indel_step(s, state[1], state[2], op, "", after_json="json" in done)
        if nxt is None:
            s.cls("skipped:" + op[0])
            continue
        steps += 1
        evals += 1
        done.append(op[0])
        state = nxt
        if nxt[0] == "indel":
            # the result must answer every accessor like a map built from the transformed string
            evals += compare_accessors(s, nxt[1], gapped(nxt[2]), f"after:{op[0]}/")
    if state[0] == "fmap":
        zeroed = False
        cur = state[1:]
        for op in case.get("fops", []):
            nxt = fmap_step(s, cur[0], cur[1], cur[2], op, "fmap/", after_zeroed=zeroed, from_indel="to_fmap" in done)
            if nxt is None:
                break
            if nxt is SKIP:
                s.cls("skipped:" + op[0])
                continue
            steps += 1
            evals += 1
            done.append(op[0])
            zeroed = zeroed or op[0] == "zeroed"
            cur = nxt
    s.cls(f"steps={min(steps, 5)}")
    for name in done:
        s.cls("op:" + name)
    path = ">".join(done)
    for pattern in ("slice>slice", "slice>nucleic_reversed>slice", "joined>slice", "to_fmap>inverse>slice", "to_fmap>inverse>inner", "seq_fmap>inverse"):
        if pattern in path:
            s.cls("path:" + pattern)
    s.evals = max(evals, 1)
    s.nontrivial = steps >= 2 and len(runs(gapped(lay), True)) >= 1
    return s


SUBS = [
    Sub("layout", exec_layout, enumerate=enum_layouts, exhaustive=True, weight=1.0),
    Sub("layout_long", exec_layout, strategy=long_layouts(), quick=160, thorough=4000, shards_quick=16),
    Sub("binary", exec_binary, strategy=binary_cases(), quick=3000, thorough=480000, shards_quick=16),
    Sub("featuremap", exec_fmap, strategy=fmap_cases(), quick=3000, thorough=480000, shards_quick=16),
    Sub("history", exec_history, strategy=history_cases(), quick=3000, thorough=480000, shards_quick=16),
]

KNOWN_PREDICATES = {}

# thorough tier: coverage-guided campaigns (atheris/libFuzzer mutating the bytes Hypothesis draws from)
FUZZ = {
    "subs": ['layout_long', 'binary', 'featuremap', 'history'],
    "targets": ['cogent3.core.location'],
    "execs_thorough": 40_000, "jobs_thorough": 4, "execs_quick": 1000, "jobs_quick": 2,
}

META = {
    "technique": "exhaustive enumeration of gap layouts x intervals plus Hypothesis-generated layouts, map pairs, feature maps (forward, reversed and lost spans) and operation histories, against a unique-residue gapped-string model and explicit index lists",
    "level_text": "Every gap layout up to 7 columns (11 in the thorough tier) is enumerated with all in-range intervals, columns and residue indices and compared with a plain gapped string whose residues are unique, so a misplaced residue or gap is visible; every construction route answers the accessors and re-enters merge_maps; concatenation, scaling, reversal, gap merging/subtraction, segment joining and the FeatureMap algebra (incl. reversed spans, composition m[inner] with forward/reversed/lost inner spans incl. spans overhanging or outside the indexed map, lists of slices, integer indices, scaling) are compared with the same model on generated inputs, and generated histories of 2-5 operations (IndelMap -> ... -> to_feature_map -> inverse -> slice etc.) are compared after every step. Exploration, not proof: layouts beyond the bound, feature maps and histories are sampled, not enumerated.",
    "level_note": "Trusts the harness' string / index-list model (about 150 lines, no cogent3 code) and numpy. Out-of-range slice bounds, strides and integer indices beyond -len..len-1 of IndelMap are outside the domain because IndelMap documents them as unsupported or does not document them.",
    "design_ref": "DESIGN.md section 1, C08",
}
