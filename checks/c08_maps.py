"""C08 — gapped-coordinate maps agree with the gapped string they describe.

Oracle: a plain gapped string whose residues are made unique per position, so
that every misplacement is visible.  Nothing of ``cogent3.core.location`` is
used by the model.
"""

from __future__ import annotations

import itertools
import json

import numpy
from hypothesis import strategies as st

from vlib.core import Soft, Sub

PROPERTY_ID = "C08"
LEVEL = "exploration"
RULE = (
    "layout sub-check: every gap layout (string over {residue, gap}) up to the tier's length bound is enumerated "
    "and, per layout, every in-range alignment interval (start/stop in 0..L and their negative/None spellings), every "
    "column and every residue index is compared with the string model (evaluations = number of individual "
    "comparisons); longer layouts, pairs of layouts for the binary operations and feature maps are generated with "
    "Hypothesis. Non-trivial = a (layout, interval) pair whose start or stop lies strictly inside or exactly at the "
    "edge of a gap run on a layout with >= 2 gap runs (counted as distinct (layout,start,stop) triples), or a binary/"
    "feature-map case with >= 2 gap runs / >= 2 spans."
)
ASSUMPTIONS = [
    "slice intervals are in range (-len <= a,b <= len): IndelMap documents IndexError for out-of-range negatives and does not clamp large stops; strides raise NotImplementedError by design",
    "joined_segments is driven with sorted, non-overlapping, non-empty in-range segments (what Aligned slicing by a feature passes)",
    "FeatureMap.inverse is only required to work on non-overlapping maps (it documents ValueError for overlaps)",
    "IndelMap.get_coordinates on a map of an empty sequence may answer [] or [(0, 0)]",
]

RES = "ABCDEFGHIJKLMNOPQRSTUVWXYZabcdefghijklmnopqrstuvwxyz0123456789" * 4


# ----------------------------------------------------------------- model
def gapped(layout: str) -> str:
    """layout over 'x' / '-' -> gapped string with unique residues"""
    out, n = [], 0
    for c in layout:
        if c == "-":
            out.append("-")
        else:
            out.append(RES[n])
            n += 1
    return "".join(out)


def runs(g: str, gap: bool):
    out, start = [], None
    for i, c in enumerate(g):
        if (c == "-") == gap:
            if start is None:
                start = i
        elif start is not None:
            out.append((start, i))
            start = None
    if start is not None:
        out.append((start, len(g)))
    return out


def n_left(g: str, col: int) -> int:
    return sum(1 for c in g[:col] if c != "-")


def seq_segments(g: str):
    """ungapped segments in sequence coordinates"""
    out, n, start = [], 0, None
    for c in g:
        if c != "-":
            if start is None:
                start = n
            n += 1
        elif start is not None:
            out.append((start, n))
            start = None
    if start is not None:
        out.append((start, n))
    return out


def gap_coords(g: str):
    """[(seq pos, gap length)]"""
    return [[n_left(g, s), e - s] for s, e in runs(g, True)]


def render(m, residues: str) -> str:
    """gapped string described by IndelMap ``m`` over ``residues``"""
    out = []
    for sp in m.spans:
        if sp.lost:
            out.append("-" * len(sp))
        else:
            out.append(residues[sp.start : sp.end])
    return "".join(out)


def make_map(g: str):
    from cogent3.core.location import IndelMap

    pos = []
    lens = []
    for s, e in runs(g, True):
        pos.append(n_left(g, s))
        lens.append(e - s)
    n = sum(1 for c in g if c != "-")
    return IndelMap(
        gap_pos=numpy.array(pos, dtype=numpy.int32),
        gap_lengths=numpy.array(lens, dtype=numpy.int32),
        parent_length=n,
    )


def make_map_via(g: str, route: str):
    """IndelMap of g by the constructor or, as alignments do, by parsing the gapped string"""
    if route == "parse" and g:
        from cogent3 import make_seq

        return make_seq(g, moltype="text").parse_out_gaps()[0]
    return make_map(g)


def ints(x):
    return json.loads(json.dumps(numpy.asarray(x).tolist()))


# ------------------------------------------------------------ sub: layout
def spellings(i: int, L: int, is_stop: bool, full: bool):
    """ways of writing index i in a slice on length L"""
    out = [i]
    if full:
        if 0 < L - i <= L and i - L < 0:
            out.append(i - L)
        if (not is_stop and i == 0) or (is_stop and i == L):
            out.append(None)
    return out


def exec_layout(case) -> Soft:
    from cogent3 import make_seq
    from cogent3.core.location import IndelMap, gap_coords_to_map

    s = Soft("C08/")
    layout = case["g"]
    g = gapped(layout)
    L = len(g)
    residues = g.replace("-", "")
    n = len(residues)
    gruns = runs(g, True)
    s.cls(f"L={min(L, 12)}", f"runs={min(len(gruns), 4)}")
    if gruns and gruns[0][0] == 0:
        s.cls("leading-gap")
    if gruns and gruns[-1][1] == L:
        s.cls("trailing-gap")
    if n == 0:
        s.cls("all-gap")
    evals = 0

    # --- construction routes
    maps = {}
    ok, m = s.call("construct/direct", make_map, g)
    if not ok:
        return s
    maps["direct"] = m
    if L:
        ok, r = s.call("construct/parse_out_gaps", lambda: make_seq(g, moltype="text").parse_out_gaps())
        if ok:
            maps["parse_out_gaps"] = r[0]
            s.eq(str(r[1]).upper(), residues.upper(), "construct/parse_out_gaps/seq", "ungapped sequence")
    ok, r = s.call("construct/from_aligned_segments", IndelMap.from_aligned_segments, runs(g, False), L)
    if ok:
        maps["from_aligned_segments"] = r
    ok, r = s.call("construct/gap_coords_to_map", gap_coords_to_map, {p: l for p, l in gap_coords(g)}, n)
    if ok:
        maps["gap_coords_to_map"] = r
    ok, r = s.call("construct/from_spans", lambda: IndelMap.from_spans(tuple(m.spans), parent_length=n))
    if ok:
        maps["from_spans"] = r
    ok, r = s.call("construct/rich_dict", lambda: IndelMap.from_rich_dict(json.loads(m.to_json())))
    if ok:
        maps["rich_dict"] = r
    for route, mm in maps.items():
        evals += 1
        ok, txt = s.call(f"construct/{route}/render", render, mm, residues)
        if ok:
            s.eq(txt, g, f"construct/{route}/render", f"layout {g!r}")
        s.eq(len(mm), L, f"construct/{route}/len", f"layout {g!r}")
        s.eq(int(mm.parent_length), n, f"construct/{route}/parent_length", f"layout {g!r}")

    # --- descriptive accessors
    s.eq(ints(m.get_gap_coordinates()) if gruns else list(ints(m.get_gap_coordinates())), gap_coords(g), "gaps/get_gap_coordinates", g)
    s.eq([list(x) for x in ints(m.get_gap_align_coordinates())], [list(x) for x in gruns], "gaps/get_gap_align_coordinates", g)
    s.eq([int(x) for x in m.get_gap_lengths()], [e - b for b, e in gruns], "gaps/get_gap_lengths", g)
    ok, ng = s.call("segments/nongap", lambda: [(int(sp.start), int(sp.end)) for sp in m.nongap()])
    if ok:
        s.eq(ng, runs(g, False), "segments/nongap", g)
    ok, co = s.call("segments/get_coordinates", lambda: [(int(a), int(b)) for a, b in m.get_coordinates()])
    if ok:
        want = seq_segments(g)
        if n == 0:
            s.check(co in ([], [(0, 0)]), "segments/get_coordinates", f"{g!r}: got {co}")
        else:
            s.eq(co, want, "segments/get_coordinates", g)
    evals += 5

    # --- index conversions
    for col in range(L + 1):
        for spell in ([col, col - L] if col < L else [col]):
            if spell < 0 and col == L:
                continue
            ok, got = s.call("index/get_seq_index", m.get_seq_index, spell)
            evals += 1
            if ok:
                s.eq(got, n_left(g, col), "index/get_seq_index", f"{g!r} col {spell}")
    cols = [i for i, c in enumerate(g) if c != "-"]
    for i in range(n):
        for spell in (i, i - n):
            ok, got = s.call("index/get_align_index", m.get_align_index, spell)
            evals += 1
            if ok:
                s.eq(got, cols[i], "index/get_align_index", f"{g!r} seq index {spell}")
        # slice_stop: the end of an alignment slice that keeps residues < i
        # and none of the gap run that precedes residue i
        ok, got = s.call("index/get_align_index_stop", m.get_align_index, i, slice_stop=True)
        evals += 1
        if ok:
            want = cols[i]
            while want > 0 and g[want - 1] == "-":
                want -= 1
            s.eq(got, want, "index/get_align_index_stop", f"{g!r} seq index {i}")

    # --- slicing by every in-range interval
    full = L <= 6
    multi = len(gruns) >= 2
    for a in range(L + 1):
        for b in range(L + 1):
            want = g[a:b]
            pairs = itertools.product(spellings(a, L, False, True), spellings(b, L, True, True))
            pairs = list(pairs)
            if not full:
                pairs = [pairs[0], pairs[(a * 7 + b * 3) % len(pairs)]]
            for sa, sb in pairs:
                evals += 1
                ok, sl = s.call("slice", lambda: m[sa:sb])
                if not ok:
                    continue
                sub_res = residues[n_left(g, a) : n_left(g, b)] if a < b else ""
                ok, txt = s.call("slice/render", render, sl, sub_res)
                if ok and not s.eq(txt, want, "slice/render", f"{g!r}[{sa}:{sb}]"):
                    continue
                s.eq(len(sl), len(want), "slice/len", f"{g!r}[{sa}:{sb}]")
                s.eq(int(sl.parent_length), len(sub_res), "slice/parent_length", f"{g!r}[{sa}:{sb}]")
            if multi and a < b:
                inside = any((gs < a <= ge) or (gs <= a < ge) or (gs < b <= ge) or (gs <= b < ge) for gs, ge in gruns)
                if inside:
                    s.extra_nontrivial.append(f"{layout}/{a}/{b}")
    # integer index
    for i in range(L):
        ok, sl = s.call("slice/int", lambda: m[i])
        evals += 1
        if ok:
            sub_res = residues[n_left(g, i) : n_left(g, i + 1)]
            ok, txt = s.call("slice/int/render", render, sl, sub_res)
            if ok:
                s.eq(txt, g[i], "slice/int/render", f"{g!r}[{i}]")

    # --- unary transformations
    ok, r = s.call("nucleic_reversed", m.nucleic_reversed)
    evals += 1
    if ok:
        ok, txt = s.call("nucleic_reversed/render", render, r, residues[::-1])
        if ok:
            s.eq(txt, g[::-1], "nucleic_reversed/render", g)
    for k in (2, 3):
        ok, r = s.call("mul", lambda: m * k)
        evals += 1
        if ok:
            big = "".join(c * k for c in layout)
            ok, txt = s.call("mul/render", lambda: render(r, "y" * (n * k)).replace("y", "x"))
            if ok:
                s.eq(txt, big, "mul/render", f"{g!r}*{k}")
            s.eq(len(r), L * k, "mul/len", f"{g!r}*{k}")
    ok, r = s.call("with_termini_unknown", m.with_termini_unknown)
    if ok:
        ok, txt = s.call("with_termini_unknown/render", render, r, residues)
        if ok:
            s.eq(txt, g, "with_termini_unknown/render", g)
    ok, fm = s.call("to_feature_map", m.to_feature_map)
    evals += 1
    if ok:
        ok, txt = s.call("to_feature_map/render", render, fm, residues)
        if ok:
            s.eq(txt, g, "to_feature_map/render", g)
        s.eq(len(fm), L, "to_feature_map/len", g)
    s.evals = evals
    s.nontrivial = bool(s.extra_nontrivial)
    return s


def enum_layouts(tier: str):
    top = 7 if tier == "quick" else 11
    cases = []
    for L in range(0, top + 1):
        for bits in itertools.product("x-", repeat=L):
            cases.append({"g": "".join(bits)})
    return cases


@st.composite
def long_layouts(draw):
    """layouts 8..60 columns built from runs so that long gap runs occur"""
    nruns = draw(st.integers(1, 9))
    gap_first = draw(st.booleans())
    parts = []
    for i in range(nruns):
        ln = draw(st.integers(1, 9))
        parts.append(("-" if (i % 2 == 0) == gap_first else "x") * ln)
    return {"g": "".join(parts)[:60]}


# ------------------------------------------------------------ sub: binary
@st.composite
def layout_st(draw, min_size=0, max_size=14):
    nruns = draw(st.integers(0, 6))
    gap_first = draw(st.booleans())
    parts = []
    for i in range(nruns):
        ln = draw(st.integers(1, 4))
        parts.append(("-" if (i % 2 == 0) == gap_first else "x") * ln)
    g = "".join(parts)[:max_size]
    while len(g) < min_size:
        g += "x"
    return g


@st.composite
def binary_cases(draw):
    g1 = draw(layout_st())
    g2 = draw(layout_st())
    # same-length partner for shared/minus gaps: mutate g1
    g3 = "".join(draw(st.sampled_from(["x", "-", c])) for c in g1)
    # same ungapped sequence for merge_maps: other gap lengths at each position
    n = g1.count("x")
    extra = draw(st.lists(st.integers(0, 3), min_size=n + 1, max_size=n + 1))
    # segments for joined_segments
    L = len(g1)
    cuts = sorted(set(draw(st.lists(st.integers(0, L), max_size=8))))
    segs = []
    i = 0
    while i + 1 < len(cuts):
        segs.append([cuts[i], cuts[i + 1]])
        i += draw(st.sampled_from([1, 2]))
    feat = []
    if L:
        fc = sorted(set(draw(st.lists(st.integers(0, L), min_size=0, max_size=6))))
        feat = [[fc[j], fc[j + 1]] for j in range(0, len(fc) - 1, 2)]
    route = draw(st.sampled_from(["direct", "parse"]))
    return {"g1": g1, "g2": g2, "g3": g3, "extra": extra, "segs": segs, "feat": feat, "route": route}


def exec_binary(case) -> Soft:
    from cogent3.core.location import FeatureMap

    s = Soft("C08/")
    l1, l2, l3 = case["g1"], case["g2"], case["g3"]
    g1, g2 = gapped(l1), gapped(l2)
    r1, r2 = g1.replace("-", ""), g2.replace("-", "")
    route = case.get("route", "direct")
    ok, m1 = s.call("construct/" + route, make_map_via, g1, route)
    ok2, m2 = s.call("construct/" + route, make_map_via, g2, route)
    if not (ok and ok2):
        return s
    s.cls("route:" + route)
    nr1, nr2 = len(runs(g1, True)), len(runs(g2, True))
    s.nontrivial = nr1 >= 2 or (nr1 >= 1 and nr2 >= 1)

    # concatenation
    ok, r = s.call("add", lambda: m1 + m2)
    if ok:
        # residues of the second string continue the numbering
        res = r1 + "".join(chr(0x100 + i) for i in range(len(r2)))
        want = g1 + "".join(("-" if c == "-" else chr(0x100 + r2.index(c))) for c in g2)
        ok, txt = s.call("add/render", render, r, res)
        if ok:
            s.eq(txt, want, "add/render", f"{g1!r}+{g2!r}")
        s.eq(len(r), len(g1) + len(g2), "add/len", f"{g1!r}+{g2!r}")
        s.eq(int(r.parent_length), len(r1) + len(r2), "add/parent_length", f"{g1!r}+{g2!r}")
        if g1.endswith("-") and g2.startswith("-"):
            s.cls("add:gap-meets-gap")

    # joined segments
    segs = [tuple(x) for x in case["segs"]]
    if segs:
        ok, r = s.call("joined_segments", m1.joined_segments, segs)
        if ok:
            want = "".join(g1[a:b] for a, b in segs)
            res = want.replace("-", "")
            ok, txt = s.call("joined_segments/render", render, r, res)
            if ok:
                s.eq(txt, want, "joined_segments/render", f"{g1!r} {segs}")
            s.eq(len(r), len(want), "joined_segments/len", f"{g1!r} {segs}")
            s.cls("joined:multi" if len(segs) > 1 else "joined:single")

    # merge maps: same sequence, other gap layout
    n = len(r1)
    other_g = "".join("-" * case["extra"][i] + r1[i] for i in range(n)) + "-" * case["extra"][n]
    ok, mo = s.call("construct/" + route, make_map_via, other_g, route)
    if not ok:
        return s
    ok, r = s.call("merge_maps", m1.merge_maps, mo)
    if ok:
        # gap length in front of residue i is the sum of both
        def lens(g):
            out = [0] * (n + 1)
            k = 0
            for c in g:
                if c == "-":
                    out[k] += 1
                else:
                    k += 1
            return out

        la, lb = lens(g1), lens(other_g)
        want = "".join("-" * (la[i] + lb[i]) + r1[i] for i in range(n)) + "-" * (la[n] + lb[n])
        ok, txt = s.call("merge_maps/render", render, r, r1)
        if ok:
            s.eq(txt, want, "merge_maps/render", f"{g1!r} merged with {other_g!r}")

    # shared / minus gaps with an equal-length partner
    g3 = gapped(l3)
    ok, m3 = s.call("construct/" + route, make_map_via, g3, route)
    if not ok:
        return s
    both = [i for i in range(len(g1)) if g1[i] == "-" and g3[i] == "-"]
    ok, r = s.call("shared_gaps", m1.shared_gaps, m3)
    if ok:
        cols = []
        okfmt = True
        for pair in numpy.asarray(r).tolist():
            if not isinstance(pair, list) or len(pair) != 2:
                okfmt = False
                break
            cols.extend(range(pair[0], pair[1]))
        if s.check(okfmt, "shared_gaps/format", f"{r!r}"):
            s.eq(cols, both, "shared_gaps/columns", f"{g1!r} vs {g3!r}")
    ok, r = s.call("minus_gaps", m1.minus_gaps, m3)
    if ok:
        want = "".join(c for i, c in enumerate(g1) if i not in set(both))
        ok, txt = s.call("minus_gaps/render", render, r, r1)
        if ok:
            s.eq(txt, want, "minus_gaps/render", f"{g1!r} minus {g3!r}")
        if both:
            s.cls("minus:shared-columns")

    # alignment feature -> sequence feature
    feat = [tuple(x) for x in case["feat"]]
    if feat:
        ok, fm = s.call("make_seq_feature_map/build", lambda: FeatureMap.from_locations(locations=feat, parent_length=len(g1)))
        if ok:
            ok, r = s.call("make_seq_feature_map", m1.make_seq_feature_map, fm)
            if ok:
                got = [(int(a), int(b)) for a, b in r.get_coordinates()]
                want = [(n_left(g1, a), n_left(g1, b)) for a, b in feat]
                s.eq(got, want, "make_seq_feature_map/coords", f"{g1!r} {feat}")
                s.check(all(0 <= a <= b <= n for a, b in got), "make_seq_feature_map/in-parent", f"{got} n={n}")
    return s


# -------------------------------------------------------- sub: featuremap
@st.composite
def fmap_cases(draw):
    P = draw(st.integers(1, 40))
    k = draw(st.integers(1, 5))
    kind = draw(st.sampled_from(["disjoint", "disjoint", "overlap", "lost"]))
    spans = []
    if kind in ("disjoint", "lost"):
        cuts = sorted(draw(st.lists(st.integers(0, P), min_size=2 * k, max_size=2 * k)))
        for j in range(0, 2 * k, 2):
            if cuts[j] < cuts[j + 1]:
                spans.append(["s", cuts[j], cuts[j + 1]])
        if kind == "lost":
            pos = draw(st.integers(0, len(spans)))
            spans.insert(pos, ["l", draw(st.integers(1, 4))])
    else:
        for _ in range(k):
            a = draw(st.integers(0, P - 1))
            b = draw(st.integers(a + 1, P))
            spans.append(["s", a, b])
    if not any(x[0] == "s" for x in spans):
        spans.append(["s", 0, P])
    tot = sum((x[2] - x[1]) if x[0] == "s" else x[1] for x in spans)
    a = draw(st.integers(-tot - 2, tot + 2))
    b = draw(st.integers(-tot - 2, tot + 2))
    return {"P": P, "spans": spans, "kind": kind, "sl": [a, b]}


def exec_fmap(case) -> Soft:
    from cogent3.core.location import FeatureMap, LostSpan, Span

    s = Soft("C08/fmap/")
    P = case["P"]
    spans = []
    idx = []  # parent index per map position, None when lost
    for x in case["spans"]:
        if x[0] == "s":
            spans.append(Span(x[1], x[2]))
            idx.extend(range(x[1], x[2]))
        else:
            spans.append(LostSpan(x[1]))
            idx.extend([None] * x[1])
    real = [i for i in idx if i is not None]
    # history made explicit: an IndelMap with gap runs of the same lengths had
    # its spans read earlier in this process (lost spans are cached by length)
    for x in case["spans"]:
        if x[0] == "l":
            list(make_map("-" * x[1] + "x").spans)
    ok, m = s.call("construct", lambda: FeatureMap(spans=spans, parent_length=P))
    if not ok:
        return s
    kind = case["kind"]
    s.cls(kind)
    s.nontrivial = len(case["spans"]) >= 2

    def positions(fm):
        out = []
        for sp in fm.spans:
            if sp.lost:
                out.extend([None] * len(sp))
            elif sp.reverse:
                out.extend(range(sp.end - 1, sp.start - 1, -1))
            else:
                out.extend(range(sp.start, sp.end))
        return out

    def in_parent(fm, plen, sig):
        for sp in fm.spans:
            if not sp.lost:
                s.check(0 <= sp.start <= sp.end <= plen, sig, f"span {sp!r} outside parent of length {plen}")

    s.eq(len(m), len(idx), "len", str(case))
    s.eq(positions(m), idx, "positions", str(case))

    def run_set(ixs):
        ixs = sorted(set(ixs))
        out = []
        for i in ixs:
            if out and out[-1][1] == i:
                out[-1][1] = i + 1
            else:
                out.append([i, i + 1])
        return [tuple(x) for x in out]

    ok, c = s.call("covered", m.covered)
    if ok:
        s.eq([(int(a), int(b)) for a, b in c.get_coordinates()], run_set(real), "covered/coords", str(case))
        in_parent(c, P, "covered/in-parent")
    ok, cs = s.call("get_covering_span", m.get_covering_span)
    if ok:
        s.eq([(int(a), int(b)) for a, b in cs.get_coordinates()], [(min(real), max(real) + 1)], "covering_span", str(case))
    ok, nr = s.call("nucleic_reversed", m.nucleic_reversed)
    if ok:
        want = [None if i is None else P - 1 - i for i in reversed(idx)]
        # spans stay forward after reflection: each span lists its indices ascending
        got_sets = [set(range(sp.start, sp.end)) for sp in nr.spans if not sp.lost]
        want_sets = [set(P - 1 - i for i in range(x[1], x[2])) for x in reversed(case["spans"]) if x[0] == "s"]
        s.eq(got_sets, want_sets, "nucleic_reversed/reflection", str(case))
        s.eq(len(nr), len(idx), "nucleic_reversed/len", str(case))
        in_parent(nr, P, "nucleic_reversed/in-parent")
        del want
    if kind in ("disjoint", "lost"):
        ok, sh = s.call("shadow", m.shadow)
        if ok:
            got = []
            for a, b in sh.get_coordinates():
                got.extend(range(a, b))
            s.eq(got, [i for i in range(P) if i not in set(real)], "shadow/complement", str(case))
            in_parent(sh, P, "shadow/in-parent")
        ok, inv = s.call("inverse", m.inverse)
        if ok:
            s.eq(len(inv), P, "inverse/len", str(case))
            # parent index -> map index
            want = [None] * P
            for mi, pi in enumerate(idx):
                if pi is not None:
                    want[pi] = mi
            s.eq(positions(inv), want, "inverse/pointwise", str(case))
            in_parent(inv, len(idx), "inverse/in-parent")
            if kind == "disjoint":
                ok, inv2 = s.call("inverse/twice", inv.inverse)
                if ok:
                    s.eq(positions(inv2), idx, "inverse/involution", str(case))
    else:
        overl = len(set(real)) != len(real)
        if not overl:
            s.call("inverse", m.inverse)
    # composition: a slice of the map placed on the parent
    a, b = case["sl"]
    ok, sl = s.call("getitem", lambda: m[a:b])
    if ok:
        s.eq(positions(sl), idx[a:b], "getitem/positions", f"{case} [{a}:{b}]")
        in_parent(sl, P, "getitem/in-parent")
    ok, z = s.call("zeroed", m.zeroed)
    if ok:
        lo = min(real)
        s.eq(positions(z), [None if i is None else i - lo for i in idx], "zeroed/positions", str(case))
    ok, rt = s.call("rich_dict", lambda: FeatureMap.from_rich_dict(json.loads(m.to_json())))
    if ok:
        s.eq(positions(rt), idx, "rich_dict/positions", str(case))
        s.eq(int(rt.parent_length), P, "rich_dict/parent_length", str(case))
    ok, wg = s.call("without_gaps", m.without_gaps)
    if ok:
        s.eq(positions(wg), real, "without_gaps/positions", str(case))
    return s


SUBS = [
    Sub("layout", exec_layout, enumerate=enum_layouts, exhaustive=True, weight=1.0),
    Sub("layout_long", exec_layout, strategy=long_layouts(), quick=160, thorough=4000, shards_quick=16),
    Sub("binary", exec_binary, strategy=binary_cases(), quick=3000, thorough=480000, shards_quick=16),
    Sub("featuremap", exec_fmap, strategy=fmap_cases(), quick=3000, thorough=480000, shards_quick=16),
]

KNOWN_PREDICATES = {}

# thorough tier: coverage-guided campaigns (atheris/libFuzzer mutating the bytes Hypothesis draws from)
FUZZ = {
    "subs": ['layout_long', 'binary', 'featuremap'],
    "targets": ['cogent3.core.location'],
    "execs_thorough": 40_000, "jobs_thorough": 4, "execs_quick": 1000, "jobs_quick": 2,
}

META = {
    "technique": "exhaustive enumeration of gap layouts x intervals plus Hypothesis-generated layouts, map pairs and feature maps, against a unique-residue gapped-string model",
    "level_text": "Every gap layout up to 7 columns (11 in the thorough tier) is enumerated with all in-range intervals, columns and residue indices and compared with a plain gapped string whose residues are unique, so a misplaced residue or gap is visible; construction routes, concatenation, scaling, reversal, gap merging/subtraction, segment joining and the FeatureMap algebra are compared with the same model on generated inputs. Exploration, not proof: layouts beyond the bound are sampled, not enumerated.",
    "level_note": "Trusts the harness' string model (about 60 lines, no cogent3 code) and numpy. Out-of-range slice bounds and strides are outside the domain because IndelMap documents them as unsupported.",
    "design_ref": "DESIGN.md section 1, C08",
}
