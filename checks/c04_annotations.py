"""C04 — annotations keep denoting the same residues through every view.

Oracle: an index model.  A feature is a list of plus-strand parent indices
(absolute coordinates) with a strand; a view is an interval of parent indices
plus an orientation.  The expected slice of a feature on a view is the parent
residues at (feature ∩ view), read 5'->3' on the feature's strand.
"""

from __future__ import annotations

import copy as _copy

from hypothesis import strategies as st

from vlib.core import Soft, Sub

PROPERTY_ID = "C04"
LEVEL = "exploration"
RULE = (
    "Sequence level: a DNA parent (6-40 nt, old/new implementation, annotation offset 0 or >0), 1-4 features (1-3 sorted spans, "
    "possibly abutting or touching the ends, either strand) stored in absolute coordinates - through add_feature, or written as "
    "GFF3 text and loaded with Sequence.annotate_from_gff(path, offset=) or load_annotations(path=, seqids=) - optionally next to "
    "features of another seqid in the same db, a history of unit-step slices / rc / copy / deepcopy / degap, then queries "
    "get_features(biotype, name, start, stop, allow_partial) with windows from the lattice of span "
    "boundaries +-1. Alignment level: 2-4 gapped rows of the annotatable class with row features (add_feature or "
    "Alignment.annotate_from_gff) and alignment features, alignment slices / rc; aln.get_features unfiltered and filtered by "
    "seqid / biotype / name / on_alignment with allow_partial True and False (exact name sets); the features of view.get_seq(name) "
    "and of view.degap().get_seq(name) (and of the degapped collection itself for the whole alignment) with allow_partial True "
    "and False; get_projected_feature, get_projected_features(seqid=, on_alignment=False, allow_partial=True), aln[feature]. "
    "Expected membership uses the feature envelope; "
    "expected residues come from the index model. Non-trivial = a multi-span or minus-strand feature only partly inside a view "
    "whose history contains an rc; distinct = distinct case encodings."
)
ASSUMPTIONS = [
    "features are added to the un-sliced parent (offset 0) or written to the annotation db in absolute coordinates (parents built with an annotation offset); adding features to an already sliced view is outside the domain (ambiguous in the docs)",
    "views with a negative stride other than -1 are excluded (annotations are documented as dropped for them); views with a positive stride keep their annotations and are checked over whole-view queries: a feature with residues retained by the view must be returned with exactly those residues, one without may be returned with an empty slice",
    "a feature matches a query window by its envelope [min start, max stop): overlap when allow_partial, containment otherwise (documented db behaviour); a returned feature whose spans all miss the view must slice to the empty string",
    "query windows are non-empty and lie inside the view",
    "degap is applied to sequences that hold no gap characters (the DNA parents; Aligned.data as used by Alignment.degap): nothing is removed, so the result must denote the same residues of the parent as the view it was made from (tests/test_core/test_features.py pins that degap preserves annotations); degapping a sequence that does contain gaps shifts coordinates and is outside the domain",
    "GFF3 text: one line per span (1-based inclusive), the spans of a feature share its ID and are documented to be merged into one feature, so IDs are kept distinct within a case; a record of a seqid that is not loaded, and db records of another seqid, must never be returned",
    "Alignment.get_features: on_alignment=False gives row features only, True alignment features only (seqid is ignored: 'ignores sequences'), None both; whether a seqid filter with on_alignment=None also excludes alignment features is undocumented, so alignment features are ignored in that comparison. A row feature matches when its envelope overlaps (allow_partial) or lies inside the part of its sequence retained by the view; rows with no residues in the view contribute nothing (documented in _get_seq_features). Alignment features are returned irrespective of position (exactness asserted on unsliced alignments only; sliced ones fall under the known finding)",
    "row sequences with no residues in the view are not queried (zero-width window); SequenceCollection.get_features takes no window, so the degapped collection is queried as a whole only when the alignment was not sliced or reversed",
    "get_projected_features is called with on_alignment=False (with the default it re-projects every alignment feature once per row); a source feature matched by its envelope but with no residues in the view gives the circumstance tag [source-feature-without-residues-in-view]",
]

COMP = {"A": "T", "C": "G", "G": "C", "T": "A"}


def rc(s):
    return "".join(COMP[c] for c in reversed(s))


# -------------------------------------------------------------- generator
@st.composite
def feature_st(draw, L, offset, idx):
    k = draw(st.integers(1, 3))
    cuts = sorted(draw(st.lists(st.integers(0, L), min_size=2 * k, max_size=2 * k)))
    spans = []
    for j in range(0, 2 * k, 2):
        if cuts[j] < cuts[j + 1]:
            spans.append([cuts[j] + offset, cuts[j + 1] + offset])
    if not spans:
        a = draw(st.integers(0, L - 1))
        spans = [[a + offset, a + 1 + offset]]
    return {
        "biotype": draw(st.sampled_from(["gene", "exon", "cds"])),
        "name": draw(st.sampled_from([f"f{idx}", "shared"])),
        "spans": spans,
        "strand": draw(st.sampled_from(["+", "-"])),
    }


@st.composite
def seq_cases(draw):
    impl = draw(st.sampled_from(["old", "new"]))
    L = draw(st.integers(6, 40))
    parent = "".join(draw(st.lists(st.sampled_from("ACGT"), min_size=L, max_size=L)))
    offset = draw(st.sampled_from([0, 0, 3, 11]))
    nf = draw(st.integers(1, 4))
    feats = [draw(feature_st(L, offset, i)) for i in range(nf)]
    load = draw(st.sampled_from(["api", "api", "gff-annotate", "gff-load"]))
    if load != "api":
        # GFF records sharing an ID are documented to be merged into one feature: IDs are kept distinct
        for i, f in enumerate(feats):
            f["name"] = f"f{i}"
    # history over the model view
    lo, hi, rev = 0, L, False
    hist = []
    for _ in range(draw(st.integers(0, 5))):
        n = hi - lo
        kind = draw(st.sampled_from(["slice", "slice", "slice", "rc", "rc", "copy", "deepcopy", "degap", "degap"]))
        if kind == "slice":
            if n < 2:
                continue
            # cut points near feature boundaries (in view coordinates) most of the time
            pts = set()
            for f in feats:
                for s_, e_ in f["spans"]:
                    for x in (s_ - offset, e_ - offset):
                        v = (hi - x) if rev else (x - lo)
                        for d in (-1, 0, 1, 2):
                            if 0 <= v + d <= n:
                                pts.add(v + d)
            pts = sorted(pts)
            if len(pts) >= 2 and draw(st.integers(0, 9)) < 7:
                i = draw(st.integers(0, len(pts) - 2))
                j = draw(st.integers(i + 1, len(pts) - 1))
                a, b = pts[i], pts[j]
            else:
                a = draw(st.integers(0, n - 1))
                b = draw(st.integers(a + 1, n))
            hist.append(["slice", a, b])
            if rev:
                lo, hi = hi - b, hi - a
            else:
                lo, hi = lo + a, lo + b
        elif kind == "rc":
            hist.append(["rc"])
            rev = not rev
        else:
            hist.append([kind])
    n = hi - lo
    # window lattice: span boundaries mapped into the view, +-1
    lattice = {0, n}
    for f in feats:
        for s, e in f["spans"]:
            for x in (s - offset, e - offset):
                v = (hi - x) if rev else (x - lo)
                for d in (-1, 0, 1):
                    if 0 <= v + d <= n:
                        lattice.add(v + d)
    lattice = sorted(lattice)
    queries = []
    for _ in range(draw(st.integers(1, 5))):
        q = {"allow_partial": draw(st.booleans())}
        if draw(st.booleans()):
            q["biotype"] = draw(st.sampled_from(["gene", "exon", "cds"]))
        if draw(st.integers(0, 3)) == 0:
            q["name"] = draw(st.sampled_from([f["name"] for f in feats]))
        if draw(st.integers(0, 2)) > 0 and len(lattice) >= 2:
            i = draw(st.integers(0, len(lattice) - 2))
            j = draw(st.integers(i + 1, len(lattice) - 1))
            q["start"], q["stop"] = lattice[i], lattice[j]
        queries.append(q)
    # the annotation db may also hold features of other sequences (it is keyed by seqid); they must never be returned
    decoy = draw(st.booleans())
    return {"impl": impl, "parent": parent, "offset": offset, "load": load, "decoy": decoy, "features": feats, "history": hist, "queries": queries}


@st.composite
def strided_cases(draw):
    """views with a positive stride keep their annotations; queries are over the whole view"""
    impl = draw(st.sampled_from(["old", "new"]))
    L = draw(st.integers(8, 40))
    parent = "".join(draw(st.lists(st.sampled_from("ACGT"), min_size=L, max_size=L)))
    offset = draw(st.sampled_from([0, 0, 5]))
    feats = [draw(feature_st(L, offset, i)) for i in range(draw(st.integers(1, 3)))]
    V = list(range(L))
    hist = []
    strided = False
    for _ in range(draw(st.integers(1, 4))):
        n = len(V)
        if n < 2:
            break
        kind = draw(st.sampled_from(["stride", "stride", "slice", "rc", "copy"]))
        if kind in ("stride", "slice"):
            a = draw(st.integers(0, n - 1))
            b = draw(st.integers(a + 1, n))
            k = draw(st.sampled_from([2, 2, 3, 4])) if kind == "stride" else 1
            if len(V[a:b:k]) < 1:
                continue
            hist.append(["slice", a, b, k])
            V = V[a:b:k]
            strided = strided or k > 1
        elif kind == "rc":
            if strided:
                continue  # a negative step on a strided view is a new stride sign; keep to documented forward strides
            hist.append(["rc"])
            V = V[::-1]
        else:
            hist.append(["copy"])
    return {"impl": impl, "parent": parent, "offset": offset, "features": feats, "history": hist}


def exec_strided(case) -> Soft:
    s = Soft("C04/")
    impl = case["impl"]
    pre = f"strided/{impl}/"
    parent, offset = case["parent"], case["offset"]
    qcase = dict(case, queries=[])
    ok, seq = s.call(pre + construct_sig(qcase), build_seq, qcase)
    if not ok:
        return s
    V = list(range(len(parent)))
    view = seq
    rev = False
    strided = False
    for op in case["history"]:
        if op[0] == "slice":
            a, b, k = op[1], op[2], op[3]
            ok, view2 = s.call(pre + "slice", lambda: view[a:b:k] if k > 1 else view[a:b])
            V = V[a:b:k]
            strided = strided or k > 1
        elif op[0] == "rc":
            ok, view2 = s.call(pre + "rc", view.rc)
            V = V[::-1]
            rev = not rev
        else:
            ok, view2 = s.call(pre + "copy", view.copy)
        if not ok:
            return s
        view = view2
    want_str = "".join(parent[i] for i in V)
    if rev:
        want_str = "".join(COMP[c] for c in want_str)
    ok, got = s.call(pre + "str", str, view)
    if ok and not s.eq(got, want_str, pre + "str", f"history {case['history']}"):
        return s
    if not strided:
        return s
    s.cls(impl, "strided")
    Vset = set(V)
    what = f"parent {parent!r} offset {offset} features {case['features']} history {case['history']}"
    ok, feats = s.call(pre + "get_features[partial]", lambda: list(view.get_features(allow_partial=True)))
    if not ok:
        return s
    want = {}
    for n_, f in enumerate(case["features"]):
        idx = [i for a, b in f["spans"] for i in range(a - offset, b - offset) if i in Vset]
        txt = "".join(parent[i] for i in idx)
        want[(f["name"], f["biotype"], n_)] = (rc(txt) if f["strand"] == "-" else txt, f)
    got = []
    for ft in feats:
        ok2, sl = s.call(pre + "get_slice", lambda: str(ft.get_slice()))
        if ok2:
            got.append((ft.name, ft.biotype, sl))
    # every feature with residues in the view must be returned with exactly those residues;
    # a returned feature must slice to the residues the view retains (possibly none)
    want_multiset = sorted((k[0], k[1], v[0]) for k, v in want.items() if v[0])
    got_nonempty = sorted(g for g in got if g[2])
    if got_nonempty != want_multiset:
        s.fail(pre + "residues", f"{what}: returned {got_nonempty} expected {want_multiset}")
    allowed_empty = sorted((k[0], k[1]) for k, v in want.items() if not v[0])
    for g in got:
        if not g[2]:
            s.check((g[0], g[1]) in allowed_empty, pre + "unexpected-empty-feature", f"{what}: {g}")
    s.nontrivial = any(0 < len(v[0]) < sum(b - a for a, b in v[1]["spans"]) for v in want.values())
    return s


# ---------------------------------------------------------------- execute
def gff_text(records):
    """GFF3 text for (seqid, feature) records: one line per span (1-based, inclusive); the spans of a feature share its ID"""
    lines = ["##gff-version 3"]
    for seqid, f in records:
        for a, b in f["spans"]:
            lines.append("\t".join([seqid, "verif", f["biotype"], str(a + 1), str(b), ".", f["strand"], ".", f"ID={f['name']}"]))
    # a record of a sequence that is not loaded: must never be returned
    lines.append("\t".join(["zz-not-loaded", "verif", "gene", "1", "3", ".", "+", ".", "ID=decoy"]))
    return "\n".join(lines) + "\n"


def with_gff_file(text, fn):
    """calls fn(path) with the text written to a temporary .gff file"""
    import os
    import tempfile

    with tempfile.TemporaryDirectory(prefix="c04gff") as d:
        path = os.path.join(d, "features.gff")
        with open(path, "w") as out:
            out.write(text)
        return fn(path)


def build_seq(case):
    seq = _build_seq(case)
    if case.get("decoy"):
        L = len(case["parent"])
        for biotype in ("gene", "exon", "cds"):
            seq.annotation_db.add_feature(seqid="other-seq", biotype=biotype, name="shared", spans=[(case["offset"], case["offset"] + L)], strand="+")
    return seq


def _build_seq(case):
    from cogent3 import load_annotations, make_seq

    new = case["impl"] == "new"
    load = case.get("load", "api")
    offset = case["offset"]
    if load == "gff-annotate":
        # Sequence.annotate_from_gff(path, offset=): "the offset between annotation coordinates and sequence coordinates"
        seq = make_seq(case["parent"], name="s1", moltype="dna", new_type=new)
        text = gff_text([("s1", f) for f in case["features"]])
        with_gff_file(text, lambda path: seq.annotate_from_gff(path, offset=offset) if offset else seq.annotate_from_gff(path))
        return seq
    seq = make_seq(case["parent"], name="s1", moltype="dna", new_type=new, annotation_offset=offset)
    if load == "gff-load":
        text = gff_text([("s1", f) for f in case["features"]])
        seq.annotation_db = with_gff_file(text, lambda path: load_annotations(path=path, seqids="s1"))
        return seq
    if offset == 0:
        for f in case["features"]:
            seq.add_feature(biotype=f["biotype"], name=f["name"], spans=[tuple(x) for x in f["spans"]], strand=f["strand"])
    else:
        db = seq.annotation_db
        for f in case["features"]:
            db.add_feature(seqid="s1", biotype=f["biotype"], name=f["name"], spans=[tuple(x) for x in f["spans"]], strand=f["strand"])
    return seq


def construct_sig(case):
    if case.get("load", "api") == "gff-annotate" and case["offset"]:
        return "construct[annotate_from_gff-with-offset]"
    return "construct"


def expected_slice(parent, offset, f, lo, hi):
    """residues of feature f retained by the view [lo,hi) of the parent, on the feature's strand"""
    idx = []
    for s, e in f["spans"]:
        for i in range(s - offset, e - offset):
            if lo <= i < hi:
                idx.append(i)
    txt = "".join(parent[i] for i in idx)
    return rc(txt) if f["strand"] == "-" else txt


def exec_seq(case) -> Soft:
    s = Soft("C04/")
    impl = case["impl"]
    pre = f"seq/{impl}/"
    parent, offset = case["parent"], case["offset"]
    L = len(parent)
    ok, seq = s.call(pre + construct_sig(case), build_seq, case)
    if not ok:
        return s
    s.cls("load:" + case.get("load", "api"))
    lo, hi, rev = 0, L, False
    has_rc = False
    # circumstance: the history contains a degap, of a view that is not the whole forward parent at offset 0 / of the whole parent
    dg = ""
    view = seq
    for op in case["history"]:
        kind = op[0]
        if kind == "slice":
            a, b = op[1], op[2]
            ok, view2 = s.call(pre + "slice", lambda: view[a:b])
            if rev:
                lo, hi = hi - b, hi - a
            else:
                lo, hi = lo + a, lo + b
        elif kind == "rc":
            ok, view2 = s.call(pre + "rc", view.rc)
            rev = not rev
            has_rc = True
        elif kind == "copy":
            ok, view2 = s.call(pre + "copy", view.copy)
        elif kind == "degap":
            # the parent holds no gaps: degapping removes nothing, the model view is unchanged
            ok, view2 = s.call(pre + "degap", view.degap)
            if lo or rev or offset:
                dg = "[degap-of-view]"
            elif not dg:
                dg = "[after-degap]"
            s.cls("degap")
        else:
            ok, view2 = s.call(pre + "deepcopy", lambda: _copy.deepcopy(view))
        if not ok:
            return s
        view = view2
    n = hi - lo
    want_str = parent[lo:hi]
    want_str = rc(want_str) if rev else want_str
    ok, got = s.call(pre + "str", str, view)
    if ok and not s.eq(got, want_str, pre + "str", f"history {case['history']}"):
        return s
    s.cls(impl, "offset" if offset else "no-offset", "reversed-view" if rev else "forward-view")
    nontriv = False
    for q in case["queries"]:
        kw = {k: q[k] for k in ("biotype", "name", "start", "stop") if k in q}
        what = f"parent {parent!r} offset {offset} features {case['features']} history {case['history']} query {q}"
        # absolute window
        ws, we = q.get("start", 0), q.get("stop", n)
        if rev:
            W = (offset + hi - we, offset + hi - ws)
        else:
            W = (offset + lo + ws, offset + lo + we)
        want = []
        for f in case["features"]:
            if "biotype" in q and f["biotype"] != q["biotype"]:
                continue
            if "name" in q and f["name"] != q["name"]:
                continue
            fs, fe = min(x[0] for x in f["spans"]), max(x[1] for x in f["spans"])
            if q["allow_partial"]:
                hit = fs < W[1] and fe > W[0]
            else:
                hit = W[0] <= fs and fe <= W[1]
            if not hit:
                continue
            exp = expected_slice(parent, offset, f, lo, hi)
            want.append((f["name"], f["biotype"], exp))
            inside = sum(1 for a, b in f["spans"] for i in range(a - offset, b - offset) if lo <= i < hi)
            total = sum(b - a for a, b in f["spans"])
            if 0 < inside < total:
                s.cls("partial-feature")
                if has_rc and (len(f["spans"]) > 1 or f["strand"] == "-"):
                    nontriv = True
            if inside == 0:
                s.cls("feature-outside-view")
        sig = pre + ("get_features[partial]" if q["allow_partial"] else "get_features") + dg
        ok, feats = s.call(sig, lambda: list(view.get_features(allow_partial=q["allow_partial"], **kw)))
        if not ok:
            continue
        got = []
        bad = False
        for ft in feats:
            ok2, sl = s.call(sig + "/get_slice", lambda: str(ft.get_slice()))
            if not ok2:
                bad = True
                continue
            got.append((ft.name, ft.biotype, sl))
            ok3, coords = s.call(sig + "/coordinates", ft.map.get_coordinates)
            if ok3:
                s.check(all(0 <= a <= n and 0 <= b <= n for a, b in coords), sig + "/coordinates-outside-view", f"{what}: {coords} view length {n}")
        if bad:
            continue
        if sorted(x[:2] for x in got) != sorted(x[:2] for x in want):
            s.fail(sig + "/membership", f"{what}: returned {sorted(got)} expected {sorted(want)}")
        elif sorted(got) != sorted(want):
            s.fail(sig + "/residues", f"{what}: returned {sorted(got)} expected {sorted(want)}")
    s.nontrivial = nontriv
    return s


# --------------------------------------------------------- alignment level
@st.composite
def aln_cases(draw):
    nrows = draw(st.integers(2, 4))
    L = draw(st.integers(6, 24))
    rows = {}
    for r in range(nrows):
        chars = draw(st.lists(st.sampled_from("ACGTACGT--"), min_size=L, max_size=L))
        if all(c == "-" for c in chars):
            chars[0] = "A"
        rows[f"s{r}"] = "".join(chars)
    feats = []
    for i in range(draw(st.integers(1, 3))):
        on_aln = draw(st.booleans())
        name = draw(st.sampled_from(list(rows)))
        limit = L if on_aln else len(rows[name].replace("-", ""))
        if limit < 1:
            on_aln, limit = True, L
        k = draw(st.integers(1, 2))
        cuts = sorted(draw(st.lists(st.integers(0, limit), min_size=2 * k, max_size=2 * k)))
        spans = [[cuts[j], cuts[j + 1]] for j in range(0, 2 * k, 2) if cuts[j] < cuts[j + 1]]
        if not spans:
            a = draw(st.integers(0, limit - 1))
            spans = [[a, a + 1]]
        strand = "+" if on_aln else draw(st.sampled_from(["+", "-"]))  # alignment features carry no strand semantics in the docs
        feats.append({"on_alignment": on_aln, "seqid": None if on_aln else name, "biotype": draw(st.sampled_from(["gene", "exon"])), "name": f"f{i}", "spans": spans, "strand": strand})
    lo, hi, rev = 0, L, False
    hist = []
    for _ in range(draw(st.integers(0, 3))):
        n = hi - lo
        kind = draw(st.sampled_from(["slice", "slice", "rc"]))
        if kind == "slice":
            if n < 2:
                continue
            a = draw(st.integers(0, n - 1))
            b = draw(st.integers(a + 1, n))
            hist.append(["slice", a, b])
            if rev:
                lo, hi = hi - b, hi - a
            else:
                lo, hi = lo + a, lo + b
        else:
            hist.append(["rc"])
            rev = not rev
    target = draw(st.sampled_from(list(rows)))
    # filtered alignment-level queries; the two unfiltered ones are always asked
    queries = [{"allow_partial": True}, {"allow_partial": False}]
    for _ in range(draw(st.integers(1, 4))):
        q = {"allow_partial": draw(st.booleans())}
        oa = draw(st.sampled_from(["any", "rows", "alignment"]))
        if oa != "any":
            q["on_alignment"] = oa == "alignment"
        if draw(st.booleans()):
            q["seqid"] = draw(st.sampled_from(list(rows)))
        if draw(st.integers(0, 2)) == 0:
            q["biotype"] = draw(st.sampled_from(["gene", "exon"]))
        if draw(st.integers(0, 3)) == 0:
            q["name"] = draw(st.sampled_from([f["name"] for f in feats]))
        queries.append(q)
    load = draw(st.sampled_from(["api", "api", "gff"]))
    return {"rows": rows, "features": feats, "load": load, "history": hist, "project_to": target, "allow_partial": draw(st.booleans()), "queries": queries}


def exec_aln(case) -> Soft:
    from cogent3 import make_aligned_seqs

    s = Soft("C04/aln/")
    rows = case["rows"]
    L = len(next(iter(rows.values())))
    ok, aln = s.call("construct", lambda: make_aligned_seqs(dict(rows), moltype="dna", array_align=False))
    if not ok:
        return s
    from_gff = case.get("load", "api") == "gff"
    s.cls("load:gff" if from_gff else "load:api")
    if from_gff:
        # row features are loaded from GFF text (Alignment.annotate_from_gff), alignment features cannot be written as GFF
        text = gff_text([(f["seqid"], f) for f in case["features"] if not f["on_alignment"]])
        ok, _ = s.call("annotate_from_gff", lambda: with_gff_file(text, aln.annotate_from_gff))
        if not ok:
            return s
    for f in case["features"]:
        kw = dict(biotype=f["biotype"], name=f["name"], spans=[tuple(x) for x in f["spans"]], strand=f["strand"])
        if f["on_alignment"]:
            ok, _ = s.call("add_feature[alignment]", lambda: aln.add_feature(on_alignment=True, **kw))
        elif from_gff:
            continue
        else:
            ok, _ = s.call("add_feature[seq]", lambda: aln.add_feature(seqid=f["seqid"], on_alignment=False, **kw))
        if not ok:
            return s
    lo, hi, rev = 0, L, False
    view = aln
    for op in case["history"]:
        if op[0] == "slice":
            a, b = op[1], op[2]
            ok, view2 = s.call("slice", lambda: view[a:b])
            if rev:
                lo, hi = hi - b, hi - a
            else:
                lo, hi = lo + a, lo + b
        else:
            ok, view2 = s.call("rc", view.rc)
            rev = not rev
        if not ok:
            return s
        view = view2
    n = hi - lo

    def colmap(name):
        """alignment columns of each residue index of row `name`"""
        return [c for c, ch in enumerate(rows[name]) if ch != "-"]

    def shown(name, cols):
        """what the view shows of row `name` in the given parent alignment columns (ascending), gaps included"""
        txt = "".join(rows[name][c] for c in cols)
        return txt

    want_rows = {nm: (r[lo:hi] if not rev else "".join(COMP.get(c, c) for c in reversed(r[lo:hi]))) for nm, r in rows.items()}
    ok, d = s.call("to_dict", view.to_dict)
    if ok and not s.eq(d, want_rows, "to_dict", f"history {case['history']} on {rows}"):
        return s
    s.cls("reversed-view" if rev else "forward-view")
    what0 = f"rows {rows} features {case['features']} history {case['history']}"
    has_aln_feature = any(f["on_alignment"] for f in case["features"])
    circ = ""
    if case["history"] and has_aln_feature:
        circ = "[alignment-feature-on-sliced-alignment]"
    elif any(op[0] == "rc" for op in case["history"]):
        circ = "[row-feature-on-rc-alignment]"
    elif any(all(c == "-" for c in r[lo:hi]) for r in rows.values()):
        circ = "[row-all-gaps-in-view]"
    # expected per feature: parent alignment columns covered
    exp = {}
    for f in case["features"]:
        if f["on_alignment"]:
            cols = [c for a, b in f["spans"] for c in range(a, b)]
        else:
            cm = colmap(f["seqid"])
            cols = [cm[i] for a, b in f["spans"] for i in range(a, b)]
        exp[f["name"]] = (f, cols)
    ok, feats = s.call("get_features" + circ, lambda: list(view.get_features(allow_partial=True)))
    if not ok:
        return s
    rc_circ = "[row-feature-on-rc-alignment]" if any(op[0] == "rc" for op in case["history"]) else ""
    gap_circ = "[row-all-gaps-in-view]" if any(all(c == "-" for c in r[lo:hi]) for r in rows.values()) else ""
    # the interval of each row's ungapped sequence that the view retains
    rowview = {}
    for nm, r in rows.items():
        rowview[nm] = (len(r[:lo].replace("-", "")), len(r[:hi].replace("-", "")))

    def row_hits(f, allow_partial):
        """a row feature matches when its envelope overlaps (lies inside) the part of its sequence retained by the view"""
        rlo, rhi = rowview[f["seqid"]]
        if rlo == rhi:
            return False  # documented in _get_seq_features: no residues of this sequence lie within the view
        fs, fe = min(x[0] for x in f["spans"]), max(x[1] for x in f["spans"])
        return (fs < rhi and fe > rlo) if allow_partial else (rlo <= fs and fe <= rhi)

    # ---- filtered alignment-level queries: exact name sets
    for q in case.get("queries", []):
        oa = q.get("on_alignment")
        kw = {k: q[k] for k in ("seqid", "biotype", "name", "on_alignment") if k in q}
        if case["history"] and has_aln_feature and oa is not False:
            qc = "[alignment-feature-on-sliced-alignment]"
        else:
            qc = rc_circ or gap_circ
        sig = ("query[partial]" if q["allow_partial"] else "query") + qc
        ok, res = s.call(sig, lambda: [ft.name for ft in view.get_features(allow_partial=q["allow_partial"], **kw)])
        if not ok:
            continue
        want_q = []
        ignore = set()
        for f in case["features"]:
            if "biotype" in q and f["biotype"] != q["biotype"]:
                continue
            if "name" in q and f["name"] != q["name"]:
                continue
            if f["on_alignment"]:
                if oa is False:
                    continue
                if oa is None and "seqid" in q:
                    ignore.add(f["name"])  # undocumented whether a seqid filter excludes alignment features
                    continue
                want_q.append(f["name"])  # alignment features are not filtered by position
            else:
                if oa is True:
                    continue
                if "seqid" in q and f["seqid"] != q["seqid"]:
                    continue
                if row_hits(f, q["allow_partial"]):
                    want_q.append(f["name"])
        res = sorted(nm for nm in res if nm not in ignore)
        s.cls("query:" + ("any" if oa is None else "alignment" if oa else "rows") + ("+seqid" if "seqid" in q else ""))
        s.eq(res, sorted(want_q), sig + "/membership", f"{what0} query {q}")

    # ---- the row sequences of the view, and of the collection made by degapping the view
    ok_dg, degapped = s.call("degap", view.degap)
    for nm in rows:
        rlo, rhi = rowview[nm]
        if rlo == rhi:
            continue
        ungapped = rows[nm].replace("-", "")
        want_seq = rc(ungapped[rlo:rhi]) if rev else ungapped[rlo:rhi]
        variants = [("get_seq", "", lambda: view.get_seq(nm))]
        if ok_dg:
            variants.append(("degap.get_seq", "[degap-of-view]" if (rlo or rev) else "[after-degap]", lambda: degapped.get_seq(nm)))
        for label, tag, getter in variants:
            ok, sq = s.call(label, getter)
            if not ok:
                continue
            ok, txt = s.call(label + "/str", str, sq)
            if not ok or not s.eq(txt, want_seq, label + "/str", f"{what0} row {nm}"):
                continue
            for ap in (True, False):
                sig = f"{label}/get_features{'[partial]' if ap else ''}{tag}"
                ok, fts = s.call(sig, lambda: list(sq.get_features(allow_partial=ap)))
                if not ok:
                    continue
                got_r, bad = [], False
                for ft in fts:
                    ok2, sl = s.call(sig + "/get_slice", lambda: str(ft.get_slice()))
                    if ok2:
                        got_r.append((ft.name, sl))
                    else:
                        bad = True
                if bad:
                    continue
                want_r = [
                    (f["name"], expected_slice(ungapped, 0, f, rlo, rhi))
                    for f in case["features"]
                    if not f["on_alignment"] and f["seqid"] == nm and row_hits(f, ap)
                ]
                if sorted(x[0] for x in got_r) != sorted(x[0] for x in want_r):
                    s.fail(sig + "/membership", f"{what0} row {nm}: returned {sorted(got_r)} expected {sorted(want_r)}")
                elif sorted(got_r) != sorted(want_r):
                    s.fail(sig + "/residues", f"{what0} row {nm}: returned {sorted(got_r)} expected {sorted(want_r)}")
                if label == "degap.get_seq":
                    s.cls("degapped-view")

    # ---- collection-level query on the degapped collection (SequenceCollection.get_features takes no window: only
    # asserted for the whole forward alignment, where every row feature lies inside)
    if ok_dg and not case["history"]:
        sig = "degap.get_features[after-degap]"
        ok, fts = s.call(sig, lambda: list(degapped.get_features(allow_partial=True)))
        if ok:
            got_c, bad = [], False
            for ft in fts:
                ok2, sl = s.call(sig + "/get_slice", lambda: str(ft.get_slice()))
                if ok2:
                    got_c.append((ft.name, sl))
                else:
                    bad = True
            want_c = [(f["name"], expected_slice(rows[f["seqid"]].replace("-", ""), 0, f, 0, L)) for f in case["features"] if not f["on_alignment"]]
            if not bad:
                s.eq(sorted(got_c), sorted(want_c), sig + "/features", f"{what0}")

    # ---- every row feature of the other rows projected onto the target row
    tgt = case["project_to"]
    want_p, empty_src = [], False
    for f in case["features"]:
        if f["on_alignment"] or f["seqid"] == tgt or not row_hits(f, True):
            continue
        kept = [c for c in exp[f["name"]][1] if lo <= c < hi]
        if not kept:
            empty_src = True
        t2 = shown(tgt, kept).replace("-", "")
        want_p.append((f["name"], rc(t2) if f["strand"] == "-" else t2))
    pc = "[source-feature-without-residues-in-view]" if empty_src else (rc_circ or gap_circ)
    ok, pfs = s.call("get_projected_features" + pc, lambda: view.get_projected_features(seqid=tgt, on_alignment=False, allow_partial=True))
    if ok:
        got_p, bad = [], False
        for pf in pfs:
            ok2, sl = s.call("get_projected_features/get_slice" + pc, lambda: str(pf.get_slice()))
            if ok2:
                got_p.append((pf.name, sl.replace("-", "")))
            else:
                bad = True
        if not bad:
            s.eq(sorted(got_p), sorted(want_p), "get_projected_features/slices" + pc, f"{what0} projected to {tgt}")
            if want_p:
                s.cls("projection-all")
    got_names = sorted(ft.name for ft in feats)
    want_names = sorted(nm for nm, (f, cols) in exp.items() if cols and min(cols) < hi and max(cols) + 1 > lo)
    # a row feature is found through its sequence: envelope in sequence coordinates; we only require that
    # every returned feature is expected-or-envelope-overlapping and that fully-inside features are returned
    inside = sorted(nm for nm, (f, cols) in exp.items() if cols and all(lo <= c < hi for c in cols))
    s.check(set(inside) <= set(got_names), "get_features/missing" + circ, f"{what0}: returned {got_names}, features entirely inside the view {inside}")
    s.check(set(got_names) <= set(exp), "get_features/unknown", f"{what0}: returned {got_names}")
    del want_names
    for ft in feats:
        f, cols = exp.get(ft.name, (None, None))
        if f is None:
            continue
        kept = [c for c in cols if lo <= c < hi]
        if 0 < len(kept) < len(cols):
            s.cls("partial-feature")
        ok, sl = s.call("feature.get_slice" + circ, lambda: ft.get_slice())
        if not ok:
            continue
        if f["on_alignment"]:
            ok, d = s.call("feature.get_slice/to_dict", sl.to_dict)
            if ok:
                want = {}
                for nm in rows:
                    txt = shown(nm, kept)
                    want[nm] = rc_gapped(txt) if f["strand"] == "-" else txt
                s.eq(d, want, "alignment-feature/slice" + circ, f"{what0}: feature {f['name']}")
        else:
            txt = shown(f["seqid"], kept).replace("-", "")
            want = rc(txt) if f["strand"] == "-" else txt
            # the slice of a row feature bound to the alignment is the alignment restricted to the feature's columns
            if hasattr(sl, "to_dict"):
                ok, dd = s.call("row-feature/slice/to_dict", sl.to_dict)
                got_txt = dd.get(f["seqid"], "") if ok else None
            else:
                got_txt = str(sl)
            if got_txt is not None:
                s.eq(got_txt.replace("-", ""), want, "row-feature/slice" + circ, f"{what0}: feature {f['name']}")
            # projection onto another row: same alignment columns
            tgt = case["project_to"]
            if tgt != f["seqid"] and kept:
                ok, pf = s.call("get_projected_feature" + circ, lambda: view.get_projected_feature(seqid=tgt, feature=ft))
                if ok:
                    ok, psl = s.call("get_projected_feature/get_slice", lambda: str(pf.get_slice()))
                    if ok:
                        t2 = shown(tgt, kept).replace("-", "")
                        want2 = rc(t2) if f["strand"] == "-" else t2
                        s.eq(psl.replace("-", ""), want2, "get_projected_feature/slice" + circ, f"{what0}: feature {f['name']} projected to {tgt}")
                        s.cls("projection")
    s.nontrivial = rev and any(0 < len([c for c in cols if lo <= c < hi]) < len(cols) for f, cols in exp.values())
    return s


def rc_gapped(s):
    return "".join(COMP.get(c, c) for c in reversed(s))


SUBS = [
    Sub("sequence", exec_seq, strategy=seq_cases(), quick=2400, thorough=320_000, shards_quick=16),
    Sub("alignment", exec_aln, strategy=aln_cases(), quick=800, thorough=64_000, shards_quick=16),
    Sub("strided", exec_strided, strategy=strided_cases(), quick=1200, thorough=96_000, shards_quick=16),
]

KNOWN_PREDICATES = {}

# thorough tier: coverage-guided campaigns (atheris/libFuzzer mutating the bytes Hypothesis draws from)
FUZZ = {
    "subs": ['sequence', 'alignment', 'strided'],
    "targets": ['cogent3.core.sequence', 'cogent3.core.alignment', 'cogent3.core.annotation', 'cogent3.core.annotation_db', 'cogent3.core.location', 'cogent3.parse.gff'],
    "execs_thorough": 40_000, "jobs_thorough": 4, "execs_quick": 1000, "jobs_quick": 2,
}

META = {
    "technique": "Hypothesis-generated features, view histories and query windows against an index-set model of features and views (sequence and alignment level)",
    "level_text": "Thousands of generated cases per run place single- and multi-span features of either strand on old- and new-style sequences (with and without an annotation offset; added through the API or loaded from generated GFF3 text) and on gapped alignments, apply slice/rc/copy/degap histories, and compare every feature returned by window queries, its residues and its coordinates with a model that works on plain parent indices; alignment-level queries filtered by seqid, biotype, name and on_alignment are compared as exact name sets with and without partial matches; the row sequences of a view and of the collection obtained by degapping it are queried against the same model; projections through gapped rows (one feature, and all features of the other rows) are compared column by column.",
    "level_note": "Trusts the index model (about 60 lines). Features added to already sliced views and strided views are outside the domain (see assumptions).",
    "design_ref": "DESIGN.md section 1, C04",
}
