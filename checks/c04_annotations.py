"""C04 — annotations keep denoting the same residues through every view.

Oracle: an index model.  A feature is a list of plus-strand parent indices
(absolute coordinates) with a strand; a view is an interval of parent indices
plus an orientation.  The expected slice of a feature on a view is the parent
residues at (feature ∩ view), read 5'->3' on the feature's strand.
"""

from __future__ import annotations

import copy as _copy

from hypothesis import strategies as st

from vlib.core import Soft, Sub

PROPERTY_ID = "C04"
LEVEL = "exploration"
RULE = (
    "Sequence level: a DNA parent (6-40 nt, old/new implementation, annotation offset 0 or >0), 1-4 features (1-3 sorted spans, "
    "possibly abutting or touching the ends, either strand) stored in absolute coordinates - through add_feature, or written as "
    "GFF3 text and loaded with Sequence.annotate_from_gff(path, offset=) or load_annotations(path=, seqids=) - optionally next to "
    "features of another seqid in the same db, a history of unit-step slices / rc / copy / deepcopy / degap, then queries "
    "get_features(biotype, name, start, stop, allow_partial) with windows from the lattice of span "
    "boundaries +-1. Alignment level: 2-4 gapped rows of the annotatable class with row features (add_feature or "
    "Alignment.annotate_from_gff) and alignment features, alignment slices / rc; aln.get_features unfiltered and filtered by "
    "seqid / biotype / name / on_alignment with allow_partial True and False (exact name sets); the features of view.get_seq(name) "
    "and of view.degap().get_seq(name) (and of the degapped collection itself for the whole alignment) with allow_partial True "
    "and False; get_projected_feature, get_projected_features(seqid=, on_alignment=False, allow_partial=True), aln[feature]. "
    "Windows are also presented one-sided, counted from the end of the view (negative) and swapped; every returned feature is also "
    "read through seq[feature] and get_slice(complete=True) (must raise for a feature only partly inside the view), on alignments "
    "through get_slice(allow_gaps=True); alignment histories include copy() and deepcopy(sliced=False). "
    "Collection level: 2-3 sequences in an old- or new-style SequenceCollection (made by make_unaligned_seqs, or - old style - by "
    "degapping a sliced / reverse complemented alignment), 1-4 features on several of them attached through coll.add_feature, "
    "coll.annotation_db = db, GFF3 text (annotate_from_gff / load_annotations) or copy_annotations(db), next to records of a seqid "
    "that is not in the collection; a collection history of rc / take_seqs (negate, copy_annotations) / degap / copy with an optional "
    "final rename_seqs; collection.get_features filtered by seqid / biotype / name (new style: start / stop) as exact multisets of "
    "(sequence, feature, residues); then one sequence taken out with get_seq and put through slices, strided slices, rc, copy, "
    "deepcopy, degap and the window queries above; finally the collection the history started from, and a collection degapped "
    "from it, must answer as before. Collections made FROM annotated sequences: 2-3 make_seq parents (old / new style), each with its "
    "own annotation db, views of them (unit slices, rc, positive strides), and make_unaligned_seqs([v0, v1]) / make_unaligned_seqs({name: v}) "
    "/ (old style) make_aligned_seqs of equal-length views with array_align=False, constructed 1-3 times: collection.get_features "
    "(filtered by seqid / biotype / name, allow_partial True and False) and collection.get_seq(name).get_features() must return exactly "
    "the features of each parent that overlap (lie inside) what the member shows, slicing the same residues of the original parent; "
    "what the source sequences and views answer, and the number of records in their dbs, must not change by constructing the collection "
    "(again). Expected membership uses the feature envelope; "
    "expected residues come from the index model. Non-trivial = a multi-span or minus-strand feature only partly inside a view "
    "whose history contains an rc; distinct = distinct case encodings."
)
ASSUMPTIONS = [
    "features are added to the un-sliced parent (offset 0) or written to the annotation db in absolute coordinates (parents built with an annotation offset); adding features to an already sliced view is outside the domain (ambiguous in the docs)",
    "views with a negative stride other than -1 are excluded (annotations are documented as dropped for them); views with a positive stride keep their annotations and are checked over whole-view queries: a feature with residues retained by the view must be returned with exactly those residues, one without may be returned with an empty slice",
    "a feature matches a query window by its envelope [min start, max stop): overlap when allow_partial, containment otherwise (documented db behaviour); a returned feature whose spans all miss the view must slice to the empty string",
    "query windows are non-empty and lie inside the view",
    "degap is applied to sequences that hold no gap characters (the DNA parents; Aligned.data as used by Alignment.degap): nothing is removed, so the result must denote the same residues of the parent as the view it was made from (tests/test_core/test_features.py pins that degap preserves annotations); degapping a sequence that does contain gaps shifts coordinates and is outside the domain",
    "GFF3 text: one line per span (1-based inclusive), the spans of a feature share its ID and are documented to be merged into one feature, so IDs are kept distinct within a case; a record of a seqid that is not loaded, and db records of another seqid, must never be returned",
    "Alignment.get_features: on_alignment=False gives row features only, True alignment features only (seqid is ignored: 'ignores sequences'), None both; whether a seqid filter with on_alignment=None also excludes alignment features is undocumented, so alignment features are ignored in that comparison. A row feature matches when its envelope overlaps (allow_partial) or lies inside the part of its sequence retained by the view; rows with no residues in the view contribute nothing (documented in _get_seq_features). Alignment features are returned irrespective of position (exactness asserted on unsliced alignments only; sliced ones fall under the known finding)",
    "row sequences with no residues in the view are not queried (zero-width window); SequenceCollection.get_features takes no window, so the degapped collection is queried as a whole only when the alignment was not sliced or reversed",
    "query windows: 'start, stop positions to search between ... If not provided, entire span of sequence is used' (docstring); the code of get_features states that negative values count from the end of the view and orders the two positions, so a window may be given one-sided, negative or swapped (a swapped window is only drawn when its lower end is > 0, and a one-sided one when the other end is the end of the view, because 0 / None mean 'not provided')",
    "seq[feature] is feature.get_slice() (Sequence.__getitem__); get_slice(complete=True): 'if feature not complete on parent, causes an exception to be raised' - on unit-step views a feature is incomplete exactly when one of its residues is outside the view, the exception observed and allowed is ValueError; for a complete feature the result equals get_slice(). get_slice(allow_gaps=True) is documented for alignments only ('includes the gap positions'): every column from the first to the last retained column of the feature, read on the feature's strand; it is not asserted on sequences",
    "alignment histories: copy() and deepcopy(sliced=False) leave view and annotations as they are (deepcopy(sliced=True) is documented to drop annotations and is not used); only slices and rc make an alignment 'sliced' for the known finding on alignment-level features",
    "collections: new-style SequenceCollection.rc() and degap() are documented not to retain the annotation db, so the db is attached again (coll.annotation_db = db) before anything is asked; new-style collections have no annotation offsets. rename_seqs is only the last collection-level operation: old-style renamed sequences keep their features and can be asked for by the original seqid (pinned by tests/test_core/test_alignment.py::test_seq_rename_preserves_annotations); new-style renamed sequences carry a new seqid and nothing documents what becomes of records bound to the old one, so for them it is only required that whatever is returned denotes the right residues",
    "collection.get_features: 'seqid ... defaults to search all', 'allow_partial: allow features partially overlaping self': the answer is the multiset of features of the member sequences, each restricted to the part of its sequence the collection shows (for a collection of whole sequences: all of them); records of seqids that are not members are never returned and must not disturb the query (take_seqs(copy_annotations=False) is pinned to share the db). The new-style start / stop window is in absolute coordinates; its docstring calls start 'not inclusive' and stop 'inclusive' while the db treats it as [start, stop), so a query is only judged when both readings agree for every feature",
    "the collection a history started from is not changed by deriving other collections from it (same answers afterwards, also from a collection degapped from it again)",
    "collections constructed from annotated sequences: 'If no annotation_db is provided, but the sequences are annotated, an annotation_db is created by merging any annotation db's found in the sequences' (make_unaligned_seqs; merged_db_collection is run by every old-style constructor too), so the collection must answer for every member what that member sequence answered before: a member made from a view shows part of its parent and only the features overlapping (inside) that part are expected, with the residues of the original parent. Keys of a dict equal the sequence names; feature names are distinct within a case (an alignment reports a row feature without naming its row, the slice of a row feature of an alignment is read from its row). Alignments are made from gap-free equal-length unit-step views that are all on the same strand (what Alignment.rc() produces); strided members only occur in unaligned collections and are compared with the allow_partial=True whole-view oracle of the strided sub-check (collection-level allow_partial=False queries are skipped when a member is strided)",
    "constructing a collection must not change what its source sequences / views answer nor the number of records of a source's own seqid in its db; after a second and third construction from the same sequences every source db must hold as many records as after the first (old-style unaligned collections bind the very sequence objects they are given to the merged db, so the first construction may legitimately change len(seq.annotation_db); that is not asserted). Circumstance tags: [rows-realised-from-views] = a new-style collection or an old-style alignment built from a sequence that is a proper view (its rows are realised from the displayed characters); [merged-again] = a second / third construction from sequences holding more than one distinct annotated db",
    "get_projected_features is called with on_alignment=False (with the default it re-projects every alignment feature once per row); a source feature matched by its envelope but with no residues in the view gives the circumstance tag [source-feature-without-residues-in-view]",
]

COMP = {"A": "T", "C": "G", "G": "C", "T": "A"}


def rc(s):
    return "".join(COMP[c] for c in reversed(s))


# -------------------------------------------------------------- generator
@st.composite
def feature_st(draw, L, offset, idx):
    k = draw(st.integers(1, 3))
    cuts = sorted(draw(st.lists(st.integers(0, L), min_size=2 * k, max_size=2 * k)))
    spans = []
    for j in range(0, 2 * k, 2):
        if cuts[j] < cuts[j + 1]:
            spans.append([cuts[j] + offset, cuts[j + 1] + offset])
    if not spans:
        a = draw(st.integers(0, L - 1))
        spans = [[a + offset, a + 1 + offset]]
    return {
        "biotype": draw(st.sampled_from(["gene", "exon", "cds"])),
        "name": draw(st.sampled_from([f"f{idx}", "shared"])),
        "spans": spans,
        "strand": draw(st.sampled_from(["+", "-"])),
    }


@st.composite
def seq_cases(draw):
    impl = draw(st.sampled_from(["old", "new"]))
    L = draw(st.integers(6, 40))
    parent = "".join(draw(st.lists(st.sampled_from("ACGT"), min_size=L, max_size=L)))
    offset = draw(st.sampled_from([0, 0, 3, 11]))
    nf = draw(st.integers(1, 4))
    feats = [draw(feature_st(L, offset, i)) for i in range(nf)]
    load = draw(st.sampled_from(["api", "api", "gff-annotate", "gff-load"]))
    if load != "api":
        # GFF records sharing an ID are documented to be merged into one feature: IDs are kept distinct
        for i, f in enumerate(feats):
            f["name"] = f"f{i}"
    # history over the model view
    lo, hi, rev = 0, L, False
    hist = []
    for _ in range(draw(st.integers(0, 5))):
        n = hi - lo
        kind = draw(st.sampled_from(["slice", "slice", "slice", "rc", "rc", "copy", "deepcopy", "degap", "degap"]))
        if kind == "slice":
            if n < 2:
                continue
            # cut points near feature boundaries (in view coordinates) most of the time
            pts = set()
            for f in feats:
                for s_, e_ in f["spans"]:
                    for x in (s_ - offset, e_ - offset):
                        v = (hi - x) if rev else (x - lo)
                        for d in (-1, 0, 1, 2):
                            if 0 <= v + d <= n:
                                pts.add(v + d)
            pts = sorted(pts)
            if len(pts) >= 2 and draw(st.integers(0, 9)) < 7:
                i = draw(st.integers(0, len(pts) - 2))
                j = draw(st.integers(i + 1, len(pts) - 1))
                a, b = pts[i], pts[j]
            else:
                a = draw(st.integers(0, n - 1))
                b = draw(st.integers(a + 1, n))
            hist.append(["slice", a, b])
            if rev:
                lo, hi = hi - b, hi - a
            else:
                lo, hi = lo + a, lo + b
        elif kind == "rc":
            hist.append(["rc"])
            rev = not rev
        else:
            hist.append([kind])
    n = hi - lo
    # window lattice: span boundaries mapped into the view, +-1
    lattice = {0, n}
    for f in feats:
        for s, e in f["spans"]:
            for x in (s - offset, e - offset):
                v = (hi - x) if rev else (x - lo)
                for d in (-1, 0, 1):
                    if 0 <= v + d <= n:
                        lattice.add(v + d)
    lattice = sorted(lattice)
    queries = []
    for _ in range(draw(st.integers(1, 5))):
        q = {"allow_partial": draw(st.booleans())}
        if draw(st.booleans()):
            q["biotype"] = draw(st.sampled_from(["gene", "exon", "cds"]))
        if draw(st.integers(0, 3)) == 0:
            q["name"] = draw(st.sampled_from([f["name"] for f in feats]))
        if draw(st.integers(0, 2)) > 0 and len(lattice) >= 2:
            i = draw(st.integers(0, len(lattice) - 2))
            j = draw(st.integers(i + 1, len(lattice) - 1))
            q["start"], q["stop"] = lattice[i], lattice[j]
            # how the window is presented: both positions, one side only, counted from the end, or swapped
            form = draw(st.sampled_from(["plain", "plain", "plain", "start-only", "stop-only", "negative", "swapped"]))
            if form != "plain":
                q["form"] = form
        queries.append(q)
    # the annotation db may also hold features of other sequences (it is keyed by seqid); they must never be returned
    decoy = draw(st.booleans())
    return {"impl": impl, "parent": parent, "offset": offset, "load": load, "decoy": decoy, "features": feats, "history": hist, "queries": queries}


@st.composite
def strided_cases(draw):
    """views with a positive stride keep their annotations; queries are over the whole view"""
    impl = draw(st.sampled_from(["old", "new"]))
    L = draw(st.integers(8, 40))
    parent = "".join(draw(st.lists(st.sampled_from("ACGT"), min_size=L, max_size=L)))
    offset = draw(st.sampled_from([0, 0, 5]))
    feats = [draw(feature_st(L, offset, i)) for i in range(draw(st.integers(1, 3)))]
    V = list(range(L))
    hist = []
    strided = False
    for _ in range(draw(st.integers(1, 4))):
        n = len(V)
        if n < 2:
            break
        kind = draw(st.sampled_from(["stride", "stride", "slice", "rc", "copy"]))
        if kind in ("stride", "slice"):
            a = draw(st.integers(0, n - 1))
            b = draw(st.integers(a + 1, n))
            k = draw(st.sampled_from([2, 2, 3, 4])) if kind == "stride" else 1
            if len(V[a:b:k]) < 1:
                continue
            hist.append(["slice", a, b, k])
            V = V[a:b:k]
            strided = strided or k > 1
        elif kind == "rc":
            if strided:
                continue  # a negative step on a strided view is a new stride sign; keep to documented forward strides
            hist.append(["rc"])
            V = V[::-1]
        else:
            hist.append(["copy"])
    return {"impl": impl, "parent": parent, "offset": offset, "features": feats, "history": hist}


def exec_strided(case) -> Soft:
    s = Soft("C04/")
    impl = case["impl"]
    pre = f"strided/{impl}/"
    parent, offset = case["parent"], case["offset"]
    qcase = dict(case, queries=[])
    ok, seq = s.call(pre + construct_sig(qcase), build_seq, qcase)
    if not ok:
        return s
    V = list(range(len(parent)))
    view = seq
    rev = False
    strided = False
    for op in case["history"]:
        if op[0] == "slice":
            a, b, k = op[1], op[2], op[3]
            ok, view2 = s.call(pre + "slice", lambda: view[a:b:k] if k > 1 else view[a:b])
            V = V[a:b:k]
            strided = strided or k > 1
        elif op[0] == "rc":
            ok, view2 = s.call(pre + "rc", view.rc)
            V = V[::-1]
            rev = not rev
        else:
            ok, view2 = s.call(pre + "copy", view.copy)
        if not ok:
            return s
        view = view2
    want_str = "".join(parent[i] for i in V)
    if rev:
        want_str = "".join(COMP[c] for c in want_str)
    ok, got = s.call(pre + "str", str, view)
    if ok and not s.eq(got, want_str, pre + "str", f"history {case['history']}"):
        return s
    if not strided:
        return s
    s.cls(impl, "strided")
    what = f"parent {parent!r} offset {offset} features {case['features']} history {case['history']}"
    s.nontrivial = whole_view_strided(s, pre, view, parent, offset, case["features"], V, what)
    return s


def whole_view_strided(s, pre, view, parent, offset, features, V, what):
    """whole-view query on a view with a positive stride showing parent indices V: every feature with residues in the view
    is returned with exactly those residues, one without may be returned with an empty slice.  Returns non-triviality"""
    Vset = set(V)
    ok, feats = s.call(pre + "get_features[partial]", lambda: list(view.get_features(allow_partial=True)))
    if not ok:
        return False
    want = {}
    for n_, f in enumerate(features):
        idx = [i for a, b in f["spans"] for i in range(a - offset, b - offset) if i in Vset]
        txt = "".join(parent[i] for i in idx)
        want[(f["name"], f["biotype"], n_)] = (rc(txt) if f["strand"] == "-" else txt, f)
    got = []
    for ft in feats:
        ok2, sl = s.call(pre + "get_slice", lambda: str(ft.get_slice()))
        if ok2:
            got.append((ft.name, ft.biotype, sl))
    # every feature with residues in the view must be returned with exactly those residues;
    # a returned feature must slice to the residues the view retains (possibly none)
    want_multiset = sorted((k[0], k[1], v[0]) for k, v in want.items() if v[0])
    got_nonempty = sorted(g for g in got if g[2])
    if got_nonempty != want_multiset:
        s.fail(pre + "residues", f"{what}: returned {got_nonempty} expected {want_multiset}")
    allowed_empty = sorted((k[0], k[1]) for k, v in want.items() if not v[0])
    for g in got:
        if not g[2]:
            s.check((g[0], g[1]) in allowed_empty, pre + "unexpected-empty-feature", f"{what}: {g}")
    return any(0 < len(v[0]) < sum(b - a for a, b in v[1]["spans"]) for v in want.values())


# ---------------------------------------------------------------- execute
def gff_text(records):
    """GFF3 text for (seqid, feature) records: one line per span (1-based, inclusive); the spans of a feature share its ID"""
    lines = ["##gff-version 3"]
    for seqid, f in records:
        for a, b in f["spans"]:
            lines.append("\t".join([seqid, "verif", f["biotype"], str(a + 1), str(b), ".", f["strand"], ".", f"ID={f['name']}"]))
    # a record of a sequence that is not loaded: must never be returned
    lines.append("\t".join(["zz-not-loaded", "verif", "gene", "1", "3", ".", "+", ".", "ID=decoy"]))
    return "\n".join(lines) + "\n"


def with_gff_file(text, fn):
    """calls fn(path) with the text written to a temporary .gff file"""
    import os
    import tempfile

    with tempfile.TemporaryDirectory(prefix="c04gff") as d:
        path = os.path.join(d, "features.gff")
        with open(path, "w") as out:
            out.write(text)
        return fn(path)


def build_seq(case):
    seq = _build_seq(case)
    if case.get("decoy"):
        L = len(case["parent"])
        for biotype in ("gene", "exon", "cds"):
            seq.annotation_db.add_feature(seqid="other-seq", biotype=biotype, name="shared", spans=[(case["offset"], case["offset"] + L)], strand="+")
    return seq


def _build_seq(case):
    from cogent3 import load_annotations, make_seq

    new = case["impl"] == "new"
    load = case.get("load", "api")
    offset = case["offset"]
    if load == "gff-annotate":
        # Sequence.annotate_from_gff(path, offset=): "the offset between annotation coordinates and sequence coordinates"
        seq = make_seq(case["parent"], name="s1", moltype="dna", new_type=new)
        text = gff_text([("s1", f) for f in case["features"]])
        with_gff_file(text, lambda path: seq.annotate_from_gff(path, offset=offset) if offset else seq.annotate_from_gff(path))
        return seq
    seq = make_seq(case["parent"], name="s1", moltype="dna", new_type=new, annotation_offset=offset)
    if load == "gff-load":
        text = gff_text([("s1", f) for f in case["features"]])
        seq.annotation_db = with_gff_file(text, lambda path: load_annotations(path=path, seqids="s1"))
        return seq
    if offset == 0:
        for f in case["features"]:
            seq.add_feature(biotype=f["biotype"], name=f["name"], spans=[tuple(x) for x in f["spans"]], strand=f["strand"])
    else:
        db = seq.annotation_db
        for f in case["features"]:
            db.add_feature(seqid="s1", biotype=f["biotype"], name=f["name"], spans=[tuple(x) for x in f["spans"]], strand=f["strand"])
    return seq


def construct_sig(case):
    if case.get("load", "api") == "gff-annotate" and case["offset"]:
        return "construct[annotate_from_gff-with-offset]"
    return "construct"


def expected_slice(parent, offset, f, lo, hi):
    """residues of feature f retained by the view [lo,hi) of the parent, on the feature's strand"""
    idx = []
    for s, e in f["spans"]:
        for i in range(s - offset, e - offset):
            if lo <= i < hi:
                idx.append(i)
    txt = "".join(parent[i] for i in idx)
    return rc(txt) if f["strand"] == "-" else txt


def exec_seq(case) -> Soft:
    s = Soft("C04/")
    impl = case["impl"]
    pre = f"seq/{impl}/"
    parent, offset = case["parent"], case["offset"]
    L = len(parent)
    ok, seq = s.call(pre + construct_sig(case), build_seq, case)
    if not ok:
        return s
    s.cls("load:" + case.get("load", "api"))
    lo, hi, rev = 0, L, False
    has_rc = False
    # circumstance: the history contains a degap, of a view that is not the whole forward parent at offset 0 / of the whole parent
    dg = ""
    view = seq
    for op in case["history"]:
        kind = op[0]
        if kind == "slice":
            a, b = op[1], op[2]
            ok, view2 = s.call(pre + "slice", lambda: view[a:b])
            if rev:
                lo, hi = hi - b, hi - a
            else:
                lo, hi = lo + a, lo + b
        elif kind == "rc":
            ok, view2 = s.call(pre + "rc", view.rc)
            rev = not rev
            has_rc = True
        elif kind == "copy":
            ok, view2 = s.call(pre + "copy", view.copy)
        elif kind == "degap":
            # the parent holds no gaps: degapping removes nothing, the model view is unchanged
            ok, view2 = s.call(pre + "degap", view.degap)
            if lo or rev or offset:
                dg = "[degap-of-view]"
            elif not dg:
                dg = "[after-degap]"
            s.cls("degap")
        else:
            ok, view2 = s.call(pre + "deepcopy", lambda: _copy.deepcopy(view))
        if not ok:
            return s
        view = view2
    want_str = parent[lo:hi]
    want_str = rc(want_str) if rev else want_str
    ok, got = s.call(pre + "str", str, view)
    if ok and not s.eq(got, want_str, pre + "str", f"history {case['history']}"):
        return s
    s.cls(impl, "offset" if offset else "no-offset", "reversed-view" if rev else "forward-view")
    s.nontrivial = run_queries(s, pre, view, parent, offset, case["features"], lo, hi, rev, has_rc, case["queries"], dg, f"history {case['history']}")
    return s


def window_kwargs(q, n):
    """the start/stop arguments that present the model window [q.start, q.stop) of a view of length n in the drawn form"""
    if "start" not in q:
        return {}, ""
    ws, we = q["start"], q["stop"]
    form = q.get("form", "plain")
    if form == "start-only" and we == n:
        return {"start": ws}, "[one-sided-window]"
    if form == "stop-only" and ws == 0:
        return {"stop": we}, "[one-sided-window]"
    if form == "negative":
        # documented in the code of get_features: negative start / stop count from the end of the view
        return {"start": ws - n, "stop": we - n if we < n else we}, "[negative-window]"
    if form == "swapped" and ws > 0:
        # get_features orders the two positions
        return {"start": we, "stop": ws}, "[swapped-window]"
    return {"start": ws, "stop": we}, ""


def run_queries(s, pre, view, parent, offset, features, lo, hi, rev, has_rc, queries, dg, hist_txt):
    """window queries on a unit-step view [lo,hi) (reversed when rev) of the parent: exact membership by envelope,
    residues from the index model, seq[feature], get_slice(complete=True).  Returns the non-triviality flag"""
    n = hi - lo
    nontriv = False
    for q in queries:
        kw = {k: q[k] for k in ("biotype", "name") if k in q}
        wkw, wtag = window_kwargs(q, n)
        kw.update(wkw)
        what = f"parent {parent!r} offset {offset} features {features} {hist_txt} query {q}"
        # absolute window
        ws, we = q.get("start", 0), q.get("stop", n)
        if rev:
            W = (offset + hi - we, offset + hi - ws)
        else:
            W = (offset + lo + ws, offset + lo + we)
        want = []
        complete = {}
        for f in features:
            if "biotype" in q and f["biotype"] != q["biotype"]:
                continue
            if "name" in q and f["name"] != q["name"]:
                continue
            fs, fe = min(x[0] for x in f["spans"]), max(x[1] for x in f["spans"])
            if q["allow_partial"]:
                hit = fs < W[1] and fe > W[0]
            else:
                hit = W[0] <= fs and fe <= W[1]
            if not hit:
                continue
            exp = expected_slice(parent, offset, f, lo, hi)
            want.append((f["name"], f["biotype"], exp))
            inside = sum(1 for a, b in f["spans"] for i in range(a - offset, b - offset) if lo <= i < hi)
            total = sum(b - a for a, b in f["spans"])
            complete.setdefault((f["name"], f["biotype"], exp), set()).add(inside == total)
            if 0 < inside < total:
                s.cls("partial-feature")
                if has_rc and (len(f["spans"]) > 1 or f["strand"] == "-"):
                    nontriv = True
            if inside == 0:
                s.cls("feature-outside-view")
        if wtag:
            s.cls("window:" + wtag.strip("[]"))
        sig = pre + ("get_features[partial]" if q["allow_partial"] else "get_features") + wtag + dg
        ok, feats = s.call(sig, lambda: list(view.get_features(allow_partial=q["allow_partial"], **kw)))
        if not ok:
            continue
        got = []
        bad = False
        for ft in feats:
            ok2, sl = s.call(sig + "/get_slice", lambda: str(ft.get_slice()))
            if not ok2:
                bad = True
                continue
            got.append((ft.name, ft.biotype, sl))
            ok3, coords = s.call(sig + "/coordinates", ft.map.get_coordinates)
            if ok3:
                s.check(all(0 <= a <= n and 0 <= b <= n for a, b in coords), sig + "/coordinates-outside-view", f"{what}: {coords} view length {n}")
            # seq[feature] is documented to be feature.get_slice()
            xsig = pre + "feature" + dg
            ok4, via_index = s.call(xsig + "/getitem", lambda: str(view[ft]))
            if ok4:
                s.eq(via_index, sl, xsig + "/getitem", f"{what}: feature {ft.name}")
            # get_slice(complete=True): "if feature not complete on parent, causes an exception to be raised"
            state = complete.get((ft.name, ft.biotype, sl))
            if state is not None and len(state) == 1:
                if True in state:
                    ok5, whole = s.call(xsig + "/get_slice[complete]", lambda: str(ft.get_slice(complete=True)))
                    if ok5:
                        s.eq(whole, sl, xsig + "/get_slice[complete]", f"{what}: feature {ft.name}")
                else:
                    ok5, whole = s.call(xsig + "/get_slice[complete]", lambda: str(ft.get_slice(complete=True)), allowed=(ValueError,))
                    s.check(not ok5, xsig + "/get_slice[complete]/incomplete-feature-accepted", f"{what}: feature {ft.name} gave {whole!r}")
                    s.cls("complete-refused")
        if bad:
            continue
        if sorted(x[:2] for x in got) != sorted(x[:2] for x in want):
            s.fail(sig + "/membership", f"{what}: returned {sorted(got)} expected {sorted(want)}")
        elif sorted(got) != sorted(want):
            s.fail(sig + "/residues", f"{what}: returned {sorted(got)} expected {sorted(want)}")
    return nontriv


# --------------------------------------------------------- alignment level
@st.composite
def aln_cases(draw):
    nrows = draw(st.integers(2, 4))
    L = draw(st.integers(6, 24))
    rows = {}
    for r in range(nrows):
        chars = draw(st.lists(st.sampled_from("ACGTACGT--"), min_size=L, max_size=L))
        if all(c == "-" for c in chars):
            chars[0] = "A"
        rows[f"s{r}"] = "".join(chars)
    feats = []
    for i in range(draw(st.integers(1, 3))):
        on_aln = draw(st.booleans())
        name = draw(st.sampled_from(list(rows)))
        limit = L if on_aln else len(rows[name].replace("-", ""))
        if limit < 1:
            on_aln, limit = True, L
        k = draw(st.integers(1, 2))
        cuts = sorted(draw(st.lists(st.integers(0, limit), min_size=2 * k, max_size=2 * k)))
        spans = [[cuts[j], cuts[j + 1]] for j in range(0, 2 * k, 2) if cuts[j] < cuts[j + 1]]
        if not spans:
            a = draw(st.integers(0, limit - 1))
            spans = [[a, a + 1]]
        strand = "+" if on_aln else draw(st.sampled_from(["+", "-"]))  # alignment features carry no strand semantics in the docs
        feats.append({"on_alignment": on_aln, "seqid": None if on_aln else name, "biotype": draw(st.sampled_from(["gene", "exon"])), "name": f"f{i}", "spans": spans, "strand": strand})
    lo, hi, rev = 0, L, False
    hist = []
    for _ in range(draw(st.integers(0, 3))):
        n = hi - lo
        kind = draw(st.sampled_from(["slice", "slice", "slice", "rc", "rc", "copy", "deepcopy"]))
        if kind == "slice":
            if n < 2:
                continue
            a = draw(st.integers(0, n - 1))
            b = draw(st.integers(a + 1, n))
            hist.append(["slice", a, b])
            if rev:
                lo, hi = hi - b, hi - a
            else:
                lo, hi = lo + a, lo + b
        elif kind == "rc":
            hist.append(["rc"])
            rev = not rev
        else:
            # Alignment.copy() / Alignment.deepcopy(sliced=False): the same view, the same annotations
            hist.append([kind])
    target = draw(st.sampled_from(list(rows)))
    # filtered alignment-level queries; the two unfiltered ones are always asked
    queries = [{"allow_partial": True}, {"allow_partial": False}]
    for _ in range(draw(st.integers(1, 4))):
        q = {"allow_partial": draw(st.booleans())}
        oa = draw(st.sampled_from(["any", "rows", "alignment"]))
        if oa != "any":
            q["on_alignment"] = oa == "alignment"
        if draw(st.booleans()):
            q["seqid"] = draw(st.sampled_from(list(rows)))
        if draw(st.integers(0, 2)) == 0:
            q["biotype"] = draw(st.sampled_from(["gene", "exon"]))
        if draw(st.integers(0, 3)) == 0:
            q["name"] = draw(st.sampled_from([f["name"] for f in feats]))
        queries.append(q)
    load = draw(st.sampled_from(["api", "api", "gff"]))
    return {"rows": rows, "features": feats, "load": load, "history": hist, "project_to": target, "allow_partial": draw(st.booleans()), "queries": queries}


def exec_aln(case) -> Soft:
    from cogent3 import make_aligned_seqs

    s = Soft("C04/aln/")
    rows = case["rows"]
    L = len(next(iter(rows.values())))
    ok, aln = s.call("construct", lambda: make_aligned_seqs(dict(rows), moltype="dna", array_align=False))
    if not ok:
        return s
    from_gff = case.get("load", "api") == "gff"
    s.cls("load:gff" if from_gff else "load:api")
    if from_gff:
        # row features are loaded from GFF text (Alignment.annotate_from_gff), alignment features cannot be written as GFF
        text = gff_text([(f["seqid"], f) for f in case["features"] if not f["on_alignment"]])
        ok, _ = s.call("annotate_from_gff", lambda: with_gff_file(text, aln.annotate_from_gff))
        if not ok:
            return s
    for f in case["features"]:
        kw = dict(biotype=f["biotype"], name=f["name"], spans=[tuple(x) for x in f["spans"]], strand=f["strand"])
        if f["on_alignment"]:
            ok, _ = s.call("add_feature[alignment]", lambda: aln.add_feature(on_alignment=True, **kw))
        elif from_gff:
            continue
        else:
            ok, _ = s.call("add_feature[seq]", lambda: aln.add_feature(seqid=f["seqid"], on_alignment=False, **kw))
        if not ok:
            return s
    lo, hi, rev = 0, L, False
    view = aln
    for op in case["history"]:
        if op[0] == "slice":
            a, b = op[1], op[2]
            ok, view2 = s.call("slice", lambda: view[a:b])
            if rev:
                lo, hi = hi - b, hi - a
            else:
                lo, hi = lo + a, lo + b
        elif op[0] == "copy":
            ok, view2 = s.call("copy", view.copy)
            s.cls("aln-copy")
        elif op[0] == "deepcopy":
            ok, view2 = s.call("deepcopy", lambda: view.deepcopy(sliced=False))
            s.cls("aln-copy")
        else:
            ok, view2 = s.call("rc", view.rc)
            rev = not rev
        if not ok:
            return s
        view = view2
    n = hi - lo
    # copies leave the view where it is: only slices and rc make it a "sliced" alignment
    moved = [op for op in case["history"] if op[0] in ("slice", "rc")]

    def colmap(name):
        """alignment columns of each residue index of row `name`"""
        return [c for c, ch in enumerate(rows[name]) if ch != "-"]

    def shown(name, cols):
        """what the view shows of row `name` in the given parent alignment columns (ascending), gaps included"""
        txt = "".join(rows[name][c] for c in cols)
        return txt

    want_rows = {nm: (r[lo:hi] if not rev else "".join(COMP.get(c, c) for c in reversed(r[lo:hi]))) for nm, r in rows.items()}
    ok, d = s.call("to_dict", view.to_dict)
    if ok and not s.eq(d, want_rows, "to_dict", f"history {case['history']} on {rows}"):
        return s
    s.cls("reversed-view" if rev else "forward-view")
    what0 = f"rows {rows} features {case['features']} history {case['history']}"
    has_aln_feature = any(f["on_alignment"] for f in case["features"])
    circ = ""
    if moved and has_aln_feature:
        circ = "[alignment-feature-on-sliced-alignment]"
    elif any(op[0] == "rc" for op in case["history"]):
        circ = "[row-feature-on-rc-alignment]"
    elif any(all(c == "-" for c in r[lo:hi]) for r in rows.values()):
        circ = "[row-all-gaps-in-view]"
    # expected per feature: parent alignment columns covered
    exp = {}
    for f in case["features"]:
        if f["on_alignment"]:
            cols = [c for a, b in f["spans"] for c in range(a, b)]
        else:
            cm = colmap(f["seqid"])
            cols = [cm[i] for a, b in f["spans"] for i in range(a, b)]
        exp[f["name"]] = (f, cols)
    ok, feats = s.call("get_features" + circ, lambda: list(view.get_features(allow_partial=True)))
    if not ok:
        return s
    rc_circ = "[row-feature-on-rc-alignment]" if any(op[0] == "rc" for op in case["history"]) else ""
    gap_circ = "[row-all-gaps-in-view]" if any(all(c == "-" for c in r[lo:hi]) for r in rows.values()) else ""
    # the interval of each row's ungapped sequence that the view retains
    rowview = {}
    for nm, r in rows.items():
        rowview[nm] = (len(r[:lo].replace("-", "")), len(r[:hi].replace("-", "")))

    def row_hits(f, allow_partial):
        """a row feature matches when its envelope overlaps (lies inside) the part of its sequence retained by the view"""
        rlo, rhi = rowview[f["seqid"]]
        if rlo == rhi:
            return False  # documented in _get_seq_features: no residues of this sequence lie within the view
        fs, fe = min(x[0] for x in f["spans"]), max(x[1] for x in f["spans"])
        return (fs < rhi and fe > rlo) if allow_partial else (rlo <= fs and fe <= rhi)

    # ---- filtered alignment-level queries: exact name sets
    for q in case.get("queries", []):
        oa = q.get("on_alignment")
        kw = {k: q[k] for k in ("seqid", "biotype", "name", "on_alignment") if k in q}
        if moved and has_aln_feature and oa is not False:
            qc = "[alignment-feature-on-sliced-alignment]"
        else:
            qc = rc_circ or gap_circ
        sig = ("query[partial]" if q["allow_partial"] else "query") + qc
        ok, res = s.call(sig, lambda: [ft.name for ft in view.get_features(allow_partial=q["allow_partial"], **kw)])
        if not ok:
            continue
        want_q = []
        ignore = set()
        for f in case["features"]:
            if "biotype" in q and f["biotype"] != q["biotype"]:
                continue
            if "name" in q and f["name"] != q["name"]:
                continue
            if f["on_alignment"]:
                if oa is False:
                    continue
                if oa is None and "seqid" in q:
                    ignore.add(f["name"])  # undocumented whether a seqid filter excludes alignment features
                    continue
                want_q.append(f["name"])  # alignment features are not filtered by position
            else:
                if oa is True:
                    continue
                if "seqid" in q and f["seqid"] != q["seqid"]:
                    continue
                if row_hits(f, q["allow_partial"]):
                    want_q.append(f["name"])
        res = sorted(nm for nm in res if nm not in ignore)
        s.cls("query:" + ("any" if oa is None else "alignment" if oa else "rows") + ("+seqid" if "seqid" in q else ""))
        s.eq(res, sorted(want_q), sig + "/membership", f"{what0} query {q}")

    # ---- the row sequences of the view, and of the collection made by degapping the view
    ok_dg, degapped = s.call("degap", view.degap)
    for nm in rows:
        rlo, rhi = rowview[nm]
        if rlo == rhi:
            continue
        ungapped = rows[nm].replace("-", "")
        want_seq = rc(ungapped[rlo:rhi]) if rev else ungapped[rlo:rhi]
        variants = [("get_seq", "", lambda: view.get_seq(nm))]
        if ok_dg:
            variants.append(("degap.get_seq", "[degap-of-view]" if (rlo or rev) else "[after-degap]", lambda: degapped.get_seq(nm)))
        for label, tag, getter in variants:
            ok, sq = s.call(label, getter)
            if not ok:
                continue
            ok, txt = s.call(label + "/str", str, sq)
            if not ok or not s.eq(txt, want_seq, label + "/str", f"{what0} row {nm}"):
                continue
            for ap in (True, False):
                sig = f"{label}/get_features{'[partial]' if ap else ''}{tag}"
                ok, fts = s.call(sig, lambda: list(sq.get_features(allow_partial=ap)))
                if not ok:
                    continue
                got_r, bad = [], False
                for ft in fts:
                    ok2, sl = s.call(sig + "/get_slice", lambda: str(ft.get_slice()))
                    if ok2:
                        got_r.append((ft.name, sl))
                    else:
                        bad = True
                if bad:
                    continue
                want_r = [
                    (f["name"], expected_slice(ungapped, 0, f, rlo, rhi))
                    for f in case["features"]
                    if not f["on_alignment"] and f["seqid"] == nm and row_hits(f, ap)
                ]
                if sorted(x[0] for x in got_r) != sorted(x[0] for x in want_r):
                    s.fail(sig + "/membership", f"{what0} row {nm}: returned {sorted(got_r)} expected {sorted(want_r)}")
                elif sorted(got_r) != sorted(want_r):
                    s.fail(sig + "/residues", f"{what0} row {nm}: returned {sorted(got_r)} expected {sorted(want_r)}")
                if label == "degap.get_seq":
                    s.cls("degapped-view")

    # ---- collection-level query on the degapped collection (SequenceCollection.get_features takes no window: only
    # asserted for the whole forward alignment, where every row feature lies inside)
    if ok_dg and not moved:
        sig = "degap.get_features[after-degap]"
        ok, fts = s.call(sig, lambda: list(degapped.get_features(allow_partial=True)))
        if ok:
            got_c, bad = [], False
            for ft in fts:
                ok2, sl = s.call(sig + "/get_slice", lambda: str(ft.get_slice()))
                if ok2:
                    got_c.append((ft.name, sl))
                else:
                    bad = True
            want_c = [(f["name"], expected_slice(rows[f["seqid"]].replace("-", ""), 0, f, 0, L)) for f in case["features"] if not f["on_alignment"]]
            if not bad:
                s.eq(sorted(got_c), sorted(want_c), sig + "/features", f"{what0}")

    # ---- every row feature of the other rows projected onto the target row
    tgt = case["project_to"]
    want_p, empty_src = [], False
    for f in case["features"]:
        if f["on_alignment"] or f["seqid"] == tgt or not row_hits(f, True):
            continue
        kept = [c for c in exp[f["name"]][1] if lo <= c < hi]
        if not kept:
            empty_src = True
        t2 = shown(tgt, kept).replace("-", "")
        want_p.append((f["name"], rc(t2) if f["strand"] == "-" else t2))
    pc = "[source-feature-without-residues-in-view]" if empty_src else (rc_circ or gap_circ)
    ok, pfs = s.call("get_projected_features" + pc, lambda: view.get_projected_features(seqid=tgt, on_alignment=False, allow_partial=True))
    if ok:
        got_p, bad = [], False
        for pf in pfs:
            ok2, sl = s.call("get_projected_features/get_slice" + pc, lambda: str(pf.get_slice()))
            if ok2:
                got_p.append((pf.name, sl.replace("-", "")))
            else:
                bad = True
        if not bad:
            s.eq(sorted(got_p), sorted(want_p), "get_projected_features/slices" + pc, f"{what0} projected to {tgt}")
            if want_p:
                s.cls("projection-all")
    got_names = sorted(ft.name for ft in feats)
    want_names = sorted(nm for nm, (f, cols) in exp.items() if cols and min(cols) < hi and max(cols) + 1 > lo)
    # a row feature is found through its sequence: envelope in sequence coordinates; we only require that
    # every returned feature is expected-or-envelope-overlapping and that fully-inside features are returned
    inside = sorted(nm for nm, (f, cols) in exp.items() if cols and all(lo <= c < hi for c in cols))
    s.check(set(inside) <= set(got_names), "get_features/missing" + circ, f"{what0}: returned {got_names}, features entirely inside the view {inside}")
    s.check(set(got_names) <= set(exp), "get_features/unknown", f"{what0}: returned {got_names}")
    del want_names
    for ft in feats:
        f, cols = exp.get(ft.name, (None, None))
        if f is None:
            continue
        kept = [c for c in cols if lo <= c < hi]
        if 0 < len(kept) < len(cols):
            s.cls("partial-feature")
        ok, sl = s.call("feature.get_slice" + circ, lambda: ft.get_slice())
        if not ok:
            continue
        if kept:
            # allow_gaps=True: "if on an alignment, includes the gap positions" = every column from the first to the
            # last retained column of the feature, all rows, read on the feature's strand
            ok, slg = s.call("feature.get_slice[allow_gaps]" + circ, lambda: ft.get_slice(allow_gaps=True))
            if ok and hasattr(slg, "to_dict"):
                ok, dgaps = s.call("feature.get_slice[allow_gaps]/to_dict", slg.to_dict)
                if ok:
                    cover = list(range(min(kept), max(kept) + 1))
                    want_g = {nm: (rc_gapped(shown(nm, cover)) if f["strand"] == "-" else shown(nm, cover)) for nm in rows}
                    s.eq(dgaps, want_g, "feature/slice[allow_gaps]" + circ, f"{what0}: feature {f['name']}")
                    s.cls("allow-gaps")
        if f["on_alignment"]:
            ok, d = s.call("feature.get_slice/to_dict", sl.to_dict)
            if ok:
                want = {}
                for nm in rows:
                    txt = shown(nm, kept)
                    want[nm] = rc_gapped(txt) if f["strand"] == "-" else txt
                s.eq(d, want, "alignment-feature/slice" + circ, f"{what0}: feature {f['name']}")
        else:
            txt = shown(f["seqid"], kept).replace("-", "")
            want = rc(txt) if f["strand"] == "-" else txt
            # the slice of a row feature bound to the alignment is the alignment restricted to the feature's columns
            if hasattr(sl, "to_dict"):
                ok, dd = s.call("row-feature/slice/to_dict", sl.to_dict)
                got_txt = dd.get(f["seqid"], "") if ok else None
            else:
                got_txt = str(sl)
            if got_txt is not None:
                s.eq(got_txt.replace("-", ""), want, "row-feature/slice" + circ, f"{what0}: feature {f['name']}")
            # projection onto another row: same alignment columns
            tgt = case["project_to"]
            if tgt != f["seqid"] and kept:
                ok, pf = s.call("get_projected_feature" + circ, lambda: view.get_projected_feature(seqid=tgt, feature=ft))
                if ok:
                    ok, psl = s.call("get_projected_feature/get_slice", lambda: str(pf.get_slice()))
                    if ok:
                        t2 = shown(tgt, kept).replace("-", "")
                        want2 = rc(t2) if f["strand"] == "-" else t2
                        s.eq(psl.replace("-", ""), want2, "get_projected_feature/slice" + circ, f"{what0}: feature {f['name']} projected to {tgt}")
                        s.cls("projection")
    s.nontrivial = rev and any(0 < len([c for c in cols if lo <= c < hi]) < len(cols) for f, cols in exp.values())
    return s


def rc_gapped(s):
    return "".join(COMP.get(c, c) for c in reversed(s))


# ------------------------------------------------------- collection level
def upper(name):
    return name.upper()


@st.composite
def coll_cases(draw):
    """sequence collections (old/new implementation; made directly or by degapping an alignment view), features on several
    sequences, collection-level histories, then one sequence taken out and viewed"""
    impl = draw(st.sampled_from(["new", "old"]))
    source = "unaligned" if impl == "new" else draw(st.sampled_from(["unaligned", "unaligned", "aln-degap"]))
    nseq = draw(st.integers(2, 3))
    names = [f"s{r}" for r in range(nseq)]
    rows = None
    if source == "aln-degap":
        L = draw(st.integers(6, 20))
        rows = {}
        for nm in names:
            chars = draw(st.lists(st.sampled_from("ACGTACGT--"), min_size=L, max_size=L))
            if all(c == "-" for c in chars):
                chars[0] = "A"
            rows[nm] = "".join(chars)
        seqs = {nm: r.replace("-", "") for nm, r in rows.items()}
    else:
        seqs = {}
        for nm in names:
            n_ = draw(st.integers(6, 24))
            seqs[nm] = "".join(draw(st.lists(st.sampled_from("ACGT"), min_size=n_, max_size=n_)))
    load = "add_feature" if source == "aln-degap" else draw(st.sampled_from(["add_feature", "db", "gff", "copy_annotations", "copy_annotations-gffdb"]))
    feats = []
    for i in range(draw(st.integers(1, 4))):
        sid = draw(st.sampled_from(names))
        f = draw(feature_st(len(seqs[sid]), 0, i))
        if load == "gff":
            f["name"] = f"f{i}"  # records sharing an ID are merged
        f["seqid"] = sid
        feats.append(f)
    decoy = draw(st.booleans())
    # the view of the alignment that is degapped
    view = {nm: [0, len(sq)] for nm, sq in seqs.items()}
    crev = False
    aln_hist = []
    if rows is not None:
        lo, hi = 0, L
        for _ in range(draw(st.integers(0, 2))):
            n = hi - lo
            if draw(st.integers(0, 2)) == 0:
                aln_hist.append(["rc"])
                crev = not crev
                continue
            if n < 2:
                continue
            a = draw(st.integers(0, n - 1))
            b = draw(st.integers(a + 1, n))
            aln_hist.append(["slice", a, b])
            if crev:
                lo, hi = hi - b, hi - a
            else:
                lo, hi = lo + a, lo + b
        view = {nm: [len(r[:lo].replace("-", "")), len(r[:hi].replace("-", ""))] for nm, r in rows.items()}
    # collection-level history
    present = list(names)
    hist = []
    kinds = ["rc", "rc", "take", "take", "degap"] + (["copy"] if impl == "old" else [])
    for _ in range(draw(st.integers(0, 3))):
        kind = draw(st.sampled_from(kinds))
        if kind == "take":
            if len(present) < 2:
                continue
            keep = draw(st.lists(st.sampled_from(present), min_size=1, max_size=len(present), unique=True))
            negate = draw(st.booleans())
            given = [nm for nm in present if nm not in keep] if negate else keep
            if not given:
                continue
            hist.append(["take", given, negate, draw(st.booleans())])
            present = [nm for nm in present if nm in keep]
        else:
            hist.append([kind])
            if kind == "rc":
                crev = not crev
    if draw(st.integers(0, 4)) == 4:
        hist.append(["rename"])  # always last: what later operations do with renamed sequences is outside the domain
    # collection-level queries
    cqueries = [{"allow_partial": True}, {"allow_partial": False}]
    maxlen = max(len(sq) for sq in seqs.values())
    for _ in range(draw(st.integers(0, 3))):
        q = {"allow_partial": draw(st.booleans())}
        if draw(st.booleans()):
            q["seqid"] = draw(st.sampled_from(present))
        if draw(st.integers(0, 2)) == 0:
            q["biotype"] = draw(st.sampled_from(["gene", "exon", "cds"]))
        if draw(st.integers(0, 3)) == 0:
            q["name"] = draw(st.sampled_from([f["name"] for f in feats]))
        if impl == "new" and draw(st.booleans()):
            a = draw(st.integers(0, maxlen - 1))
            q["start"], q["stop"] = a, draw(st.integers(a + 1, maxlen))
        cqueries.append(q)
    # one sequence is taken out and viewed
    cands = [nm for nm in present if view[nm][1] > view[nm][0]]
    case = {"impl": impl, "source": source, "seqs": seqs, "rows": rows, "aln_history": aln_hist, "features": feats, "load": load, "decoy": decoy,
            "history": hist, "coll_queries": cqueries, "target": None, "seq_history": [], "queries": []}
    if not cands:
        return case
    tgt = draw(st.sampled_from(cands))
    case["target"] = tgt
    tfeats = [f for f in feats if f["seqid"] == tgt]
    lo, hi = view[tgt]
    V = list(range(lo, hi))
    if crev:
        V = V[::-1]
    rev = crev
    strided = False
    shist = []
    for _ in range(draw(st.integers(0, 4))):
        n = len(V)
        kind = draw(st.sampled_from(["slice", "slice", "rc", "copy", "stride", "rc", "slice", "deepcopy", "degap"]))
        if kind in ("slice", "stride"):
            if n < 2:
                continue
            k = draw(st.sampled_from([2, 2, 3])) if kind == "stride" else 1
            pts = set()
            if k == 1 and not strided:
                for f in tfeats:
                    for s_, e_ in f["spans"]:
                        for x in (s_, e_):
                            v = (max(V) + 1 - x) if rev else (x - min(V))
                            for d in (-1, 0, 1, 2):
                                if 0 <= v + d <= n:
                                    pts.add(v + d)
            pts = sorted(pts)
            if len(pts) >= 2 and draw(st.integers(0, 9)) < 6:
                i = draw(st.integers(0, len(pts) - 2))
                j = draw(st.integers(i + 1, len(pts) - 1))
                a, b = pts[i], pts[j]
            else:
                a = draw(st.integers(0, n - 1))
                b = draw(st.integers(a + 1, n))
            shist.append(["slice", a, b, k])
            V = V[a:b:k]
            strided = strided or k > 1
        elif kind == "rc":
            if strided:
                continue
            shist.append(["rc"])
            V = V[::-1]
            rev = not rev
        else:
            shist.append([kind])
    case["seq_history"] = shist
    if strided:
        return case
    lo, hi = min(V), max(V) + 1
    n = hi - lo
    lattice = {0, n}
    for f in tfeats:
        for s_, e_ in f["spans"]:
            for x in (s_, e_):
                v = (hi - x) if rev else (x - lo)
                for d in (-1, 0, 1):
                    if 0 <= v + d <= n:
                        lattice.add(v + d)
    lattice = sorted(lattice)
    queries = []
    for _ in range(draw(st.integers(1, 4))):
        q = {"allow_partial": draw(st.booleans())}
        if draw(st.integers(0, 2)) == 0:
            q["biotype"] = draw(st.sampled_from(["gene", "exon", "cds"]))
        if draw(st.integers(0, 3)) == 0:
            q["name"] = draw(st.sampled_from([f["name"] for f in feats]))
        if draw(st.integers(0, 2)) > 0 and len(lattice) >= 2:
            i = draw(st.integers(0, len(lattice) - 2))
            j = draw(st.integers(i + 1, len(lattice) - 1))
            q["start"], q["stop"] = lattice[i], lattice[j]
            form = draw(st.sampled_from(["plain", "plain", "plain", "start-only", "stop-only", "negative", "swapped"]))
            if form != "plain":
                q["form"] = form
        queries.append(q)
    case["queries"] = queries
    return case


DECOY_SEQID = "other-seq"


def build_collection(case, s, pre):
    """returns (collection, set of seqids with records in its db) or None after a recorded failure"""
    from cogent3 import load_annotations, make_aligned_seqs, make_unaligned_seqs
    from cogent3.core.annotation_db import BasicAnnotationDb, GffAnnotationDb

    new = case["impl"] == "new"
    feats = case["features"]
    names = list(case["seqs"])
    db_seqids = {f["seqid"] for f in feats}

    def record(f, sid=None):
        return dict(seqid=sid or f["seqid"], biotype=f["biotype"], name=f["name"], spans=[tuple(x) for x in f["spans"]], strand=f["strand"])

    def add_decoys(db):
        longest = max(len(sq) for sq in case["seqs"].values())
        for biotype in ("gene", "exon", "cds"):
            db.add_feature(seqid=DECOY_SEQID, biotype=biotype, name="shared", spans=[(0, longest)], strand="+")

    if case["source"] == "aln-degap":
        rows = case["rows"]
        L = len(next(iter(rows.values())))
        ok, aln = s.call(pre + "construct", lambda: make_aligned_seqs(dict(rows), moltype="dna", array_align=False))
        if not ok:
            return None
        for f in feats:
            ok, _ = s.call(pre + "add_feature", lambda: aln.add_feature(on_alignment=False, **record(f)))
            if not ok:
                return None
        if case["decoy"]:
            add_decoys(aln.annotation_db)
            db_seqids.add(DECOY_SEQID)
            # an alignment-level feature is no feature of any sequence of the degapped collection
            ok, _ = s.call(pre + "add_feature[alignment]", lambda: aln.add_feature(biotype="gene", name="shared", spans=[(0, L)], on_alignment=True))
            if not ok:
                return None
        view = aln
        for op in case["aln_history"]:
            if op[0] == "rc":
                ok, view = s.call(pre + "aln.rc", view.rc)
            else:
                ok, view = s.call(pre + "aln.slice", lambda: view[op[1] : op[2]])
            if not ok:
                return None
        ok, coll = s.call(pre + "aln.degap", view.degap)
        return (coll, db_seqids) if ok else None

    ok, coll = s.call(pre + "construct", lambda: make_unaligned_seqs(dict(case["seqs"]), moltype="dna", new_type=new))
    if not ok:
        return None
    load = case["load"]
    if load == "add_feature":
        for f in feats:
            ok, _ = s.call(pre + "add_feature", lambda: coll.add_feature(**record(f)))
            if not ok:
                return None
    elif load == "db":
        db = GffAnnotationDb()
        for f in feats:
            db.add_feature(**record(f))
        ok, _ = s.call(pre + "set-annotation_db", lambda: setattr(coll, "annotation_db", db))
        if not ok:
            return None
    elif load == "gff":
        text = gff_text([(f["seqid"], f) for f in feats])
        if hasattr(coll, "annotate_from_gff"):
            ok, _ = s.call(pre + "annotate_from_gff", lambda: with_gff_file(text, coll.annotate_from_gff))
        else:
            ok, _ = s.call(pre + "load_annotations", lambda: setattr(coll, "annotation_db", with_gff_file(text, lambda path: load_annotations(path=path, seqids=names))))
        if not ok:
            return None
    else:
        # copy_annotations(db): "Only copies annotations for records with seqid in self.names"; the source db always
        # holds records of another seqid.  A source of the collection's own db class is copied record by record; a
        # GffAnnotationDb source makes copy_annotations build the union of the two dbs (which holds every record)
        srcdb = BasicAnnotationDb() if load == "copy_annotations" else GffAnnotationDb()
        for f in feats:
            srcdb.add_feature(**record(f))
        add_decoys(srcdb)
        ok, _ = s.call(pre + "copy_annotations", lambda: coll.copy_annotations(srcdb))
        if not ok:
            return None
        if load != "copy_annotations":
            db_seqids.add(DECOY_SEQID)
    if case["decoy"]:
        add_decoys(coll.annotation_db)
        db_seqids.add(DECOY_SEQID)
    return coll, db_seqids


def exec_coll(case) -> Soft:
    s = Soft("C04/")
    impl = case["impl"]
    new = impl == "new"
    pre = f"coll/{impl}/"
    seqs = case["seqs"]
    feats = case["features"]
    built = build_collection(case, s, pre)
    if built is None:
        return s
    coll, db_seqids = built
    s.cls(impl, "source:" + case["source"], "load:" + case["load"])
    # ---- model of the collection: sequences present (by original seqid), the interval of each that is shown, orientation
    view = {nm: (0, len(sq)) for nm, sq in seqs.items()}
    crev = False
    if case["source"] == "aln-degap":
        rows = case["rows"]
        lo, hi = 0, len(next(iter(rows.values())))
        for op in case["aln_history"]:
            if op[0] == "rc":
                crev = not crev
            elif crev:
                lo, hi = hi - op[2], hi - op[1]
            else:
                lo, hi = lo + op[1], lo + op[2]
        view = {nm: (len(r[:lo].replace("-", "")), len(r[:hi].replace("-", ""))) for nm, r in rows.items()}
    of_views = any(view[nm] != (0, len(seqs[nm])) for nm in seqs)
    present = list(seqs)
    state0 = (list(present), crev, set(db_seqids))
    renamed = False
    cur = coll
    what0 = f"{impl} {case['source']} seqs {seqs} rows {case['rows']} aln history {case['aln_history']} load {case['load']} decoy {case['decoy']} features {feats} history {case['history']}"

    def reattach(nxt, prev):
        # new-style rc() / degap() are documented not to retain the annotation db: it is attached again
        if new:
            return s.call(pre + "set-annotation_db", lambda: setattr(nxt, "annotation_db", prev.annotation_db))[0]
        return True

    for op in case["history"]:
        kind = op[0]
        if kind == "rc":
            ok, nxt = s.call(pre + "rc", cur.rc)
            ok = ok and reattach(nxt, cur)
            crev = not crev
        elif kind == "degap":
            ok, nxt = s.call(pre + "degap", cur.degap)
            ok = ok and reattach(nxt, cur)
        elif kind == "copy":
            ok, nxt = s.call(pre + "copy", cur.copy)
        elif kind == "take":
            given, negate, copy_annot = op[1], op[2], op[3]
            if new:
                ok, nxt = s.call(pre + "take_seqs", lambda: cur.take_seqs(list(given), negate=negate, copy_annotations=copy_annot))
            else:
                ok, nxt = s.call(pre + "take_seqs", lambda: cur.take_seqs(list(given), negate=negate))
            present = [nm for nm in present if (nm in given) != negate]
            if not new or copy_annot:
                db_seqids = db_seqids & set(present)  # only the records of the selected sequences are copied
        else:
            ok, nxt = s.call(pre + "rename_seqs", lambda: cur.rename_seqs(upper))
            renamed = True
        if not ok:
            return s
        cur = nxt
        s.cls("coll-op:" + kind)

    def curname(nm):
        return nm.upper() if renamed else nm

    def shown(nm, flip):
        lo, hi = view[nm]
        txt = seqs[nm][lo:hi]
        return rc(txt) if flip else txt

    ok, d = s.call(pre + "to_dict", cur.to_dict)
    if not ok or not s.eq(d, {curname(nm): shown(nm, crev) for nm in present}, pre + "to_dict", what0):
        return s
    # records keyed by the old seqid: old-style renamed sequences keep them (pinned by test_seq_rename_preserves_annotations);
    # new-style renamed sequences carry a new seqid, what becomes of the records is not documented -> nothing is required
    # of them except that whatever is returned denotes the right residues
    relaxed = new and renamed
    foreign = bool(db_seqids - set(present)) or (relaxed and bool(db_seqids))
    # circumstance: old-style rename_seqs applied to reverse complemented sequences
    rtag = "[rename-of-reversed]" if (renamed and crev and not new) else ""

    def expected_records(names_present, q, strict_views):
        want = []
        ambiguous = False
        for f in feats:
            nm = f["seqid"]
            if nm not in names_present:
                continue
            if "seqid" in q and nm != q["seqid"]:
                continue
            if "biotype" in q and f["biotype"] != q["biotype"]:
                continue
            if "name" in q and f["name"] != q["name"]:
                continue
            fs, fe = min(x[0] for x in f["spans"]), max(x[1] for x in f["spans"])
            lo, hi = view[nm]
            if strict_views:
                if lo == hi:
                    continue
                hit = (fs < hi and fe > lo) if q["allow_partial"] else (lo <= fs and fe <= hi)
                if not hit:
                    continue
            if "start" in q:
                # new-style collection window, in absolute coordinates. The docstring calls start "not inclusive" and stop
                # "inclusive", the db treats the window as [start, stop): a feature is only judged when both readings agree
                verdicts = set()
                for ws in (q["start"], q["start"] + 1):
                    for we in (q["stop"], q["stop"] + 1):
                        verdicts.add((fs < we and fe > ws) if q["allow_partial"] else (ws <= fs and fe <= we))
                if len(verdicts) > 1:
                    ambiguous = True
                if True not in verdicts:
                    continue
            want.append((nm, f["name"], f["biotype"], expected_slice(seqs[nm], 0, f, lo, hi)))
        return want, ambiguous

    def collection_query(obj, q, names_present, is_foreign, label, name_of, views, tag=""):
        kw = {k: q[k] for k in ("seqid", "biotype", "name", "start", "stop") if k in q}
        if is_foreign and "seqid" not in q:
            tag += "[db-holds-other-seqids]"
        if views:
            tag += "[collection-of-views]"
        sig = pre + label + ("[partial]" if q["allow_partial"] else "") + ("[window]" if "start" in q else "") + tag
        ok, fts = s.call(sig, lambda: list(obj.get_features(allow_partial=q["allow_partial"], **kw)))
        if not ok:
            return
        got = []
        for ft in fts:
            ok2, sl = s.call(sig + "/get_slice", lambda: str(ft.get_slice()))
            if not ok2:
                return
            got.append((ft.seqid, ft.name, ft.biotype, sl))
        want, ambiguous = expected_records(names_present, q, views)
        if ambiguous:
            s.cls("ambiguous-collection-window")
            return
        want = [(name_of(nm), a, b, c) for nm, a, b, c in want]
        what = f"{what0} query {q}"
        if relaxed and obj is cur:
            unknown = [g for g in got if g not in want]
            s.check(not unknown, sig + "/wrong-feature", f"{what}: returned {sorted(got)}, possible {sorted(want)}")
            return
        if sorted(x[:3] for x in got) != sorted(x[:3] for x in want):
            s.fail(sig + "/membership", f"{what}: returned {sorted(got)} expected {sorted(want)}")
        elif sorted(got) != sorted(want):
            s.fail(sig + "/residues", f"{what}: returned {sorted(got)} expected {sorted(want)}")

    for q in case["coll_queries"]:
        q = dict(q)
        if "seqid" in q and relaxed:
            del q["seqid"]  # the original name is unknown to a renamed new-style collection (ValueError), the new one matches no record
        collection_query(cur, q, present, foreign, "get_features", curname, of_views, rtag)
    if of_views:
        s.cls("collection-of-views")
    if foreign:
        s.cls("db-holds-other-seqids")

    # ---- one sequence out of the collection, viewed
    nontriv = False
    tgt = case["target"]
    if tgt is not None and tgt in present:
        tfeats = [f for f in feats if f["seqid"] == tgt]
        spre = pre + "seq" + rtag + "/"
        ok, seq = s.call(spre + "get_seq", lambda: cur.get_seq(curname(tgt)))
        if not ok:
            return s
        lo, hi = view[tgt]
        V = list(range(lo, hi))
        if crev:
            V = V[::-1]
        rev = crev
        has_rc = crev
        strided = False
        dg = ""
        vw = seq
        for op in case["seq_history"]:
            kind = op[0]
            if kind == "slice":
                a, b, k = op[1], op[2], op[3]
                ok, vw2 = s.call(spre + ("stride" if k > 1 else "slice"), lambda: vw[a:b:k] if k > 1 else vw[a:b])
                V = V[a:b:k]
                strided = strided or k > 1
            elif kind == "rc":
                ok, vw2 = s.call(spre + "rc", vw.rc)
                V = V[::-1]
                rev = not rev
                has_rc = True
            elif kind == "copy":
                if new and min(V) > 0 and "[copy-" not in spre:
                    # circumstance: copy() of a new-style sequence that came out of a collection and does not start at
                    # position 0 of its parent; everything after it carries the tag
                    spre = pre + "seq[copy-of-sliced-collection-seq]" + rtag + "/"
                ok, vw2 = s.call(spre + "copy", vw.copy)
                s.cls("seq-copy")
            elif kind == "deepcopy":
                ok, vw2 = s.call(spre + "deepcopy", lambda: _copy.deepcopy(vw))
                s.cls("seq-copy")
            else:
                ok, vw2 = s.call(spre + "degap", vw.degap)
                dg = "[degap-of-view]" if (V[0] != 0 or rev or strided) else (dg or "[after-degap]")
            if not ok:
                return s
            vw = vw2
        want_str = "".join(seqs[tgt][i] for i in V)
        if rev:
            want_str = "".join(COMP[c] for c in want_str)
        ok, got = s.call(spre + "str", str, vw)
        if not ok or not s.eq(got, want_str, spre + "str", f"{what0} sequence {tgt} history {case['seq_history']}"):
            return s
        hist_txt = f"({impl} collection: {what0}) sequence {tgt} history {case['seq_history']}"
        if relaxed:
            ok, fts = s.call(spre + "get_features[partial]", lambda: list(vw.get_features(allow_partial=True)))
            if ok:
                Vset = set(V)
                possible = set()
                for f in tfeats:
                    idx = [i for a, b in f["spans"] for i in range(a, b) if i in Vset]
                    txt = "".join(seqs[tgt][i] for i in idx)
                    possible.add((f["name"], f["biotype"], rc(txt) if f["strand"] == "-" else txt))
                for ft in fts:
                    ok2, sl = s.call(spre + "get_features[partial]/get_slice", lambda: str(ft.get_slice()))
                    if ok2:
                        s.check((ft.name, ft.biotype, sl) in possible, spre + "get_features[partial]/wrong-feature", f"{hist_txt}: returned {(ft.name, ft.biotype, sl)}, possible {sorted(possible)}")
        elif strided:
            s.cls("strided")
            nontriv = whole_view_strided(s, spre, vw, seqs[tgt], 0, tfeats, V, hist_txt)
        else:
            s.cls("reversed-view" if rev else "forward-view")
            nontriv = run_queries(s, spre, vw, seqs[tgt], 0, tfeats, min(V), max(V) + 1, rev, has_rc, case["queries"], dg, hist_txt)

    # ---- the collection the history started from still answers as before, and so does a collection derived from it again
    present0, crev0, db0 = state0
    foreign0 = bool(db0 - set(present0))
    # circumstance: old-style take_seqs was applied to the very sequence objects of the source collection (copy() shares them)
    rest = [op[0] for op in case["history"]]
    while rest and rest[0] == "copy":
        rest.pop(0)
    stag = "[source-seqs-rebound-by-take_seqs]" if (not new and rest and rest[0] == "take") else ""
    for ap in (True, False):
        collection_query(coll, {"allow_partial": ap}, present0, foreign0, "source-after-history/get_features", lambda nm: nm, of_views, stag)
    ok, again = s.call(pre + "source-after-history/degap", coll.degap)
    if ok and reattach(again, coll):
        collection_query(again, {"allow_partial": True}, present0, foreign0, "source-after-history/degap.get_features", lambda nm: nm, of_views, stag)
    s.nontrivial = nontriv or (crev and len(case["history"]) > 1 and any(len(f["spans"]) > 1 or f["strand"] == "-" for f in feats))
    return s


# ------------------------------------- collections constructed FROM annotated sequences
@st.composite
def fromseq_cases(draw):
    """annotated make_seq parents (each with its own annotation db), views of them (slice / rc / positive stride), and a
    collection or alignment constructed from the views - the route 'an annotation_db is created by merging any annotation
    db's found in the sequences'"""
    impl = draw(st.sampled_from(["new", "old"]))
    route = draw(st.sampled_from(["list", "dict"] if impl == "new" else ["list", "dict", "aligned", "aligned"]))
    nseq = draw(st.integers(2, 3))
    parents = []
    for r in range(nseq):
        n_ = draw(st.integers(6, 24))
        parents.append([f"s{r}", "".join(draw(st.lists(st.sampled_from("ACGT"), min_size=n_, max_size=n_)))])
    whole_rows = route == "aligned" and draw(st.integers(0, 2)) == 0
    if whole_rows:
        # parents of equal length: the alignment is made from whole annotated sequences
        shortest = min(len(sq) for _, sq in parents)
        parents = [[name, sq[:shortest]] for name, sq in parents]
    feats = []
    for name, sq in parents:
        for _ in range(draw(st.sampled_from([0, 1, 1, 2]))):
            f = draw(feature_st(len(sq), 0, len(feats)))
            f["name"] = f"f{len(feats)}"  # distinct names: an alignment reports a row feature without its row
            f["seqid"] = name
            feats.append(f)
    if not feats:
        f = draw(feature_st(len(parents[0][1]), 0, 0))
        f["name"], f["seqid"] = "f0", parents[0][0]
        feats.append(f)
    views = {}
    if route == "aligned":
        # equal-length unit-step views, all on the same strand (as Alignment.rc() makes them)
        shortest = min(len(sq) for _, sq in parents)
        n = shortest if whole_rows else draw(st.integers(1, shortest))
        flip = draw(st.booleans())
        for name, sq in parents:
            a = draw(st.sampled_from([0, len(sq) - n])) if draw(st.integers(0, 3)) == 0 else draw(st.integers(0, len(sq) - n))
            ops = [] if (a == 0 and n == len(sq)) else [["slice", a, a + n, 1]]
            if flip:
                ops.append(["rc"])
            views[name] = ops
    else:
        for name, sq in parents:
            tfeats = [f for f in feats if f["seqid"] == name]
            V = list(range(len(sq)))
            rev = strided = False
            ops = []
            for _ in range(draw(st.sampled_from([0, 1, 1, 2, 3]))):
                n = len(V)
                kind = draw(st.sampled_from(["slice", "slice", "slice", "rc", "rc", "stride"]))
                if kind == "rc":
                    if strided:
                        continue
                    ops.append(["rc"])
                    V = V[::-1]
                    rev = not rev
                    continue
                if n < 2:
                    continue
                k = draw(st.sampled_from([2, 2, 3])) if kind == "stride" else 1
                pts = set()
                if k == 1 and not strided:
                    for f in tfeats:
                        for s_, e_ in f["spans"]:
                            for x in (s_, e_):
                                v = (max(V) + 1 - x) if rev else (x - min(V))
                                for d in (-1, 0, 1, 2):
                                    if 0 <= v + d <= n:
                                        pts.add(v + d)
                pts = sorted(pts)
                if len(pts) >= 2 and draw(st.integers(0, 9)) < 6:
                    i = draw(st.integers(0, len(pts) - 2))
                    j = draw(st.integers(i + 1, len(pts) - 1))
                    a, b = pts[i], pts[j]
                else:
                    a = draw(st.integers(0, n - 1))
                    b = draw(st.integers(a + 1, n))
                ops.append(["slice", a, b, k])
                V = V[a:b:k]
                strided = strided or k > 1
            views[name] = ops
    names = [p[0] for p in parents]
    cqueries = [{"allow_partial": True}, {"allow_partial": False}]
    for _ in range(draw(st.integers(0, 2))):
        q = {"allow_partial": draw(st.booleans())}
        if draw(st.booleans()):
            q["seqid"] = draw(st.sampled_from(names))
        if draw(st.integers(0, 2)) == 0:
            q["biotype"] = draw(st.sampled_from(["gene", "exon", "cds"]))
        if draw(st.integers(0, 3)) == 0:
            q["name"] = draw(st.sampled_from([f["name"] for f in feats]))
        cqueries.append(q)
    return {"impl": impl, "route": route, "as_dict": draw(st.booleans()), "parents": parents, "features": feats, "views": views,
            "repeat": draw(st.sampled_from([1, 1, 2, 3])), "coll_queries": cqueries}


def exec_fromseq(case) -> Soft:
    from cogent3 import make_aligned_seqs, make_seq, make_unaligned_seqs

    s = Soft("C04/")
    impl, route = case["impl"], case["route"]
    new = impl == "new"
    aligned = route == "aligned"
    pre = f"from-seqs/{impl}/{'aligned' if aligned else 'unaligned'}/"
    parents = {nm: sq for nm, sq in case["parents"]}
    names = [nm for nm, _ in case["parents"]]
    feats = case["features"]
    what0 = f"{impl} {route} parents {case['parents']} features {feats} views {case['views']} repeat {case['repeat']}"

    # ---- the annotated parents (each with its own annotation db) and the views of them
    src, vws, model = {}, {}, {}
    for nm in names:
        ok, sq = s.call(pre + "make_seq", lambda: make_seq(parents[nm], name=nm, moltype="dna", new_type=new))
        if not ok:
            return s
        for f in feats:
            if f["seqid"] != nm:
                continue
            ok, _ = s.call(pre + "seq.add_feature", lambda: sq.add_feature(biotype=f["biotype"], name=f["name"], spans=[tuple(x) for x in f["spans"]], strand=f["strand"]))
            if not ok:
                return s
        src[nm] = sq
        V = list(range(len(parents[nm])))
        rev = strided = False
        vw = sq
        for op in case["views"][nm]:
            if op[0] == "rc":
                ok, vw = s.call(pre + "seq.rc", vw.rc)
                V = V[::-1]
                rev = not rev
            else:
                a, b, k = op[1], op[2], op[3]
                ok, vw = s.call(pre + ("seq.stride" if k > 1 else "seq.slice"), lambda: vw[a:b:k] if k > 1 else vw[a:b])
                V = V[a:b:k]
                strided = strided or k > 1
            if not ok:
                return s
        vws[nm] = vw
        model[nm] = (V, rev, strided)

    def shown(nm):
        V, rev, _ = model[nm]
        txt = "".join(parents[nm][i] for i in V)
        return "".join(COMP[c] for c in txt) if rev else txt

    def is_view(nm):
        V, rev, _ = model[nm]
        return rev or V != list(range(len(parents[nm])))

    def wanted(nm, q):
        """features of member nm expected from a whole-member query: (exact records, records that must be
        returned when the member is strided, (name, biotype) that may also come back with an empty slice)"""
        V, rev, strided = model[nm]
        lo, hi = min(V), max(V) + 1
        Vset = set(V)
        exact, must, may_empty = [], [], []
        for f in feats:
            if f["seqid"] != nm or ("biotype" in q and f["biotype"] != q["biotype"]) or ("name" in q and f["name"] != q["name"]):
                continue
            if strided:
                idx = [i for a, b in f["spans"] for i in range(a, b) if i in Vset]
                txt = "".join(parents[nm][i] for i in idx)
                txt = rc(txt) if f["strand"] == "-" else txt
                (must if txt else may_empty).append((nm, f["name"], f["biotype"], txt))
                continue
            fs, fe = min(x[0] for x in f["spans"]), max(x[1] for x in f["spans"])
            hit = (fs < hi and fe > lo) if q["allow_partial"] else (lo <= fs and fe <= hi)
            if hit:
                exact.append((nm, f["name"], f["biotype"], expected_slice(parents[nm], 0, f, lo, hi)))
        return exact, must, may_empty

    def source_state(sig):
        """what the source sequences and their views answer, and how many records of its own seqid each source db holds"""
        state = {}
        for nm in names:
            for label, obj in (("parent", src[nm]), ("view", vws[nm])):
                ok, fts = s.call(sig + f"/{label}.get_features", lambda: sorted((ft.name, ft.biotype, str(ft.get_slice())) for ft in obj.get_features(allow_partial=True)))
                if not ok:
                    return None
                state[f"{label} {nm} features"] = fts
            db = src[nm].annotation_db
            if db is not None:
                ok, num = s.call(sig + "/num_matches", lambda: db.num_matches(seqid=nm))
                if not ok:
                    return None
                state[f"parent {nm} own records"] = num
        return state

    def db_sizes():
        return {nm: (len(src[nm].annotation_db) if src[nm].annotation_db is not None else 0) for nm in names}

    annotated = [nm for nm in names if any(f["seqid"] == nm for f in feats)]
    any_view = any(is_view(nm) for nm in names)
    # circumstances of confirmed findings (see known_findings.json): the rows of a new-style collection / an old-style
    # alignment are realised from the displayed characters of a view; several distinct dbs are merged again
    vtag = "[rows-realised-from-views]" if (any_view and (new or aligned)) else ""
    before = source_state(pre + "source-before")
    if before is None:
        return s

    def construct():
        if aligned:
            data = {nm: vws[nm] for nm in names} if case.get("as_dict") else [vws[nm] for nm in names]
            return make_aligned_seqs(data, moltype="dna", array_align=False)
        data = {nm: vws[nm] for nm in names} if route == "dict" else [vws[nm] for nm in names]
        return make_unaligned_seqs(data, moltype="dna", new_type=new)

    coll = None
    sizes1 = None
    for r in range(case["repeat"]):
        rtag = "[merged-again]" if (r > 0 and len(annotated) > 1) else ""
        ok, coll = s.call(pre + "construct", construct)
        if not ok:
            return s
        ok, d = s.call(pre + "to_dict", coll.to_dict)
        if not ok or not s.eq(d, {nm: shown(nm) for nm in names}, pre + "to_dict", what0):
            return s
        # ---- constructing a collection does not change what the source sequences answer
        after = source_state(pre + "source-after")
        if after is None:
            return s
        s.eq(after, before, pre + "source-changed" + rtag, what0)
        sizes = db_sizes()
        if r == 0:
            sizes1 = sizes
        else:
            s.eq(sizes, sizes1, pre + "source-db-grows-on-repeat" + rtag, f"{what0}: records in the source dbs after construction 1 {sizes1}, after construction {r + 1} {sizes}")
        # ---- collection-level queries
        for q in case["coll_queries"] if r == case["repeat"] - 1 else case["coll_queries"][:2]:
            kw = {k: q[k] for k in ("seqid", "biotype", "name") if k in q}
            ap = q["allow_partial"]
            if any(model[nm][2] for nm in names) and not ap:
                continue  # strided members: only the allow_partial=True reading is modelled
            sig = pre + "get_features" + ("[partial]" if ap else "") + vtag + rtag
            ok, fts = s.call(sig, lambda: list(coll.get_features(allow_partial=ap, **kw)))
            if not ok:
                continue
            owner = {f["name"]: f["seqid"] for f in feats}
            got, bad = [], False
            for ft in fts:
                row = owner.get(ft.name)
                ok2, sl = s.call(sig + "/get_slice", ft.get_slice)
                if not ok2:
                    bad = True
                    continue
                if hasattr(sl, "to_dict"):
                    # the slice of a row feature of an alignment is the alignment restricted to the feature's columns
                    ok2, dd = s.call(sig + "/get_slice/to_dict", sl.to_dict)
                    if not ok2:
                        bad = True
                        continue
                    txt = dd.get(row, "")
                else:
                    txt = str(sl)
                    if ft.seqid != row:
                        s.fail(sig + "/seqid", f"{what0} query {q}: feature {ft.name} reported for {ft.seqid!r}, belongs to {row!r}")
                got.append((row, ft.name, ft.biotype, txt))
            if bad:
                continue
            exact, must, may_empty = [], [], []
            for nm in names:
                if "seqid" in q and q["seqid"] != nm:
                    continue
                e_, m_, y_ = wanted(nm, q)
                exact += e_
                must += m_
                may_empty += y_
            what = f"{what0} query {q}"
            loose = {x[:3] for x in may_empty}
            got_firm = sorted(g for g in got if not (g[:3] in loose and not g[3]))
            want_firm = sorted(exact + must)
            if sorted(x[:3] for x in got_firm) != sorted(x[:3] for x in want_firm):
                s.fail(sig + "/membership", f"{what}: returned {sorted(got)} expected {want_firm}")
            elif got_firm != want_firm:
                s.fail(sig + "/residues", f"{what}: returned {sorted(got)} expected {want_firm}")
        s.cls("construction:" + str(r + 1))
    s.cls(impl, "route:" + route, "from-views" if any_view else "from-whole-seqs", "dbs:" + ("several" if len(annotated) > 1 else "one"))

    # ---- the member sequences of the last collection
    nontriv = False
    mtag_r = "[merged-again]" if (case["repeat"] > 1 and len(annotated) > 1) else ""
    for nm in names:
        V, rev, strided = model[nm]
        mtag = ("[rows-realised-from-views]" if (is_view(nm) and (new or aligned)) else "") + mtag_r
        spre = pre + "seq/"
        ok, sq = s.call(spre + "get_seq", lambda: coll.get_seq(nm))
        if not ok:
            continue
        ok, txt = s.call(spre + "str", str, sq)
        if not ok or not s.eq(txt, shown(nm), spre + "str", f"{what0} member {nm}"):
            continue
        tfeats = [f for f in feats if f["seqid"] == nm]
        hist_txt = f"({what0}) member {nm}"
        if strided:
            s.cls("strided-member")
            nontriv = whole_view_strided(s, spre + "strided" + mtag + "/", sq, parents[nm], 0, tfeats, V, hist_txt) or nontriv
        else:
            lo, hi = min(V), max(V) + 1
            qs = [{"allow_partial": True}, {"allow_partial": False}]
            if hi - lo > 1:
                qs.append({"allow_partial": True, "start": 1, "stop": hi - lo})
            nontriv = run_queries(s, spre, sq, parents[nm], 0, tfeats, lo, hi, rev, rev, qs, mtag, hist_txt) or nontriv
    s.nontrivial = nontriv or (any_view and any((len(f["spans"]) > 1 or f["strand"] == "-") and model[f["seqid"]][1] for f in feats))
    return s


SUBS = [
    Sub("sequence", exec_seq, strategy=seq_cases(), quick=2400, thorough=320_000, shards_quick=16),
    Sub("alignment", exec_aln, strategy=aln_cases(), quick=800, thorough=64_000, shards_quick=16),
    Sub("strided", exec_strided, strategy=strided_cases(), quick=1200, thorough=96_000, shards_quick=16),
    Sub("collection", exec_coll, strategy=coll_cases(), quick=1200, thorough=96_000, shards_quick=16),
    Sub("from-seqs", exec_fromseq, strategy=fromseq_cases(), quick=800, thorough=96_000, shards_quick=16),
]

KNOWN_PREDICATES = {}

# thorough tier: coverage-guided campaigns (atheris/libFuzzer mutating the bytes Hypothesis draws from)
FUZZ = {
    "subs": ['sequence', 'alignment', 'strided'],
    "targets": ['cogent3.core.sequence', 'cogent3.core.alignment', 'cogent3.core.annotation', 'cogent3.core.annotation_db', 'cogent3.core.location', 'cogent3.parse.gff'],
    "execs_thorough": 40_000, "jobs_thorough": 4, "execs_quick": 1000, "jobs_quick": 2,
}

META = {
    "technique": "Hypothesis-generated features, view histories and query windows against an index-set model of features and views (sequence and alignment level)",
    "level_text": "Collections and alignments are also constructed from annotated sequences and their slice / rc / strided views (the merged-db route), repeatedly, and must answer like their source sequences while leaving those untouched. Old- and new-style sequence collections (also those obtained by degapping alignment views) are annotated through every loading route, put through rc / take_seqs / degap / copy / rename histories and queried at collection level and through sequences taken out of them, with one-sided, negative and swapped windows, seq[feature] and get_slice(complete=True). Thousands of generated cases per run place single- and multi-span features of either strand on old- and new-style sequences (with and without an annotation offset; added through the API or loaded from generated GFF3 text) and on gapped alignments, apply slice/rc/copy/degap histories, and compare every feature returned by window queries, its residues and its coordinates with a model that works on plain parent indices; alignment-level queries filtered by seqid, biotype, name and on_alignment are compared as exact name sets with and without partial matches; the row sequences of a view and of the collection obtained by degapping it are queried against the same model; projections through gapped rows (one feature, and all features of the other rows) are compared column by column.",
    "level_note": "Trusts the index model (about 60 lines). Features added to already sliced views and strided views are outside the domain (see assumptions).",
    "design_ref": "DESIGN.md section 1, C04",
}
