"""C19 — file writes are all-or-nothing; interrupted runs resume to the same result.

Fault enumeration.  The file-system call boundaries inside each write are
discovered by a dry run under ``sys.setprofile`` (C-level calls owned by the
``posix`` module, ``_io.open`` and write/flush/close of io objects); then, for
EVERY boundary k, the write is repeated in a forked child with (a) an
``OSError`` raised at boundary k, (b) the process killed (``os._exit``) at
boundary k.  The parent inspects the directory afterwards.

Oracle: the destination holds exactly the old bytes (or is absent if it was
absent) or exactly the bytes an unfaulted write produces; after a handled
failure no other entry remains in the directory unless the fault hit a removal
call of the clean-up itself.  A zip archive written as a whole is judged the same
way on the contents of its members; when one member is added to an archive, the
archive must stay sound, keep its old members, and hold the new member completely
or not at all.  apply_to runs are killed before every store write and at every
boundary inside one store write, resumed, and compared with an uninterrupted run.
"""

from __future__ import annotations

import bz2
import gzip
import io
import json
import os
import shutil
import sys
import tempfile
import zipfile

from hypothesis import strategies as st

from vlib.core import HarnessError, Soft, Sub

PROPERTY_ID = "C19"
LEVEL = "fault_enumeration"
ISOLATION = "subprocess"
RULE = (
    "faults sub-checks: a case is (writer, content seed, destination absent / pre-existing, optional formatting failure). "
    "Writers: atomic_write directly (plain, .gz, .bz2; also with tmpdir= naming an existing directory of the caller that holds another file, "
    "and with tmpdir= the destination's own directory, which holds an unrelated file: those entries of the caller must still be there with their bytes after "
    "every completed, failed or killed write, and after a handled failure the caller's directory holds nothing else), Alignment / ArrayAlignment / SequenceCollection / new-type "
    "SequenceCollection .write (fasta, phylip, json, gz), PhyloNode.write (newick, xml, json), Table.write (tsv, csv, tsv.gz, "
    "json, pickle), DictArray.write, ScoredTreeCollection.write. zip targets (faults_zip, and in faults_all_writers): "
    "atomic_write('x.txt.zip') and object writers given an 'x.<fmt>.zip' path (the path names a whole archive: old bytes or a "
    "sound archive with the complete new content), and atomic_write(member, in_zip=archive) in the three calling forms of the "
    "library tests / docstring, the first of them also with tmpdir= a directory of the caller, its non-context form (write(); close()) and open_('x.txt.zip', 'wt') (one member is added: the "
    "archive, absent or pre-existing with another member, must stay absent / a sound archive holding the old member unchanged, "
    "the new member absent or complete; judged with ZipFile.testzip / namelist / read). Formatting failures: an exception in "
    "the with block (atomic_write, open_), an unknown format (fasta writers), a formatter argument that is refused (phylip, "
    "paml), info / params / cells that json or pickle refuse, a writer callable that raises or a delimiter csv refuses "
    "(Table.write), a later tree of a collection without newick; and, for atomic_write / open_, a KeyboardInterrupt raised in "
    "the with block (the process is interrupted while writing: nothing may be committed). For every case ALL file-system call boundaries of the write "
    "are enumerated and each is faulted twice (OSError raised / process killed) in a forked child: evaluations = number of "
    "faulted runs. resume sub-check: apply_to over n inputs into a directory or sqlite store is killed at the start of the "
    "(j+1)-th store write for EVERY j, then re-run in append mode and compared with an uninterrupted run. resume_inside: "
    "apply_to into a directory store is killed at EVERY file-system call boundary inside one store write (between the record "
    "file and its checksum, and inside either), resumed in append mode, and completed / not-completed records with their "
    "contents and the validate() table are compared with an uninterrupted run. Non-trivial = a fault at a boundary after the "
    "temporary file is complete with a pre-existing destination (distinct (writer, boundary, kind) triples), a formatting "
    "failure after the temporary file was opened over a pre-existing destination, a resume with at least one completed and one "
    "missing record, or a kill inside a store write that was resumed."
)
ASSUMPTIONS = [
    "a boundary is a C-level call made during the write whose owner is the posix module, _io.open, or an io object method write/flush/close/writelines/truncate/__exit__ (the close of a with block); calls made by the import machinery (a module imported lazily during the write) are not boundaries; the dry run and the faulted run execute the same code up to the fault, so index k names the same call",
    "durability across power loss (fsync ordering) is not modelled: only process death with an intact page cache",
    "after a kill, left-over temporaries are allowed; after a handled failure they are allowed only when the injected fault was inside shutil.rmtree (a failed removal cannot be required to have removed)",
    "the complete new content is defined by an unfaulted write of the same object in the same process (writer correctness is C06/C20's subject); compressed files are compared after decompression; a zip archive written as a whole is compared by the contents of its members (atomic_write names the member with a random uuid)",
    "zip, whole archive: atomic_write('x.zip') without in_zip stages a new archive and renames it over the destination (tests/test_util/test_io.py::test_writes_compressed_formats), so the destination is the old bytes or a sound archive with exactly the new content; members of a pre-existing archive are not expected to survive",
    "zip, member added (in_zip=, open_ in write mode: test_atomic_write_noncontext, test_aw_zip_from_path, test_open_writes_zip, atomic_write docstring): all-or-nothing applies to the archive as the path being written: it stays a sound archive holding every old member with its bytes, the new member is absent or complete, and an archive that did not exist does not appear unless it holds the complete member (an empty or unreadable archive is 'absence not left untouched')",
    "object writers (Alignment.write etc.) are nowhere documented or tested to accept a .zip path: one that refuses it without any injected fault (aln.write('x.fasta.zip'), tree.write('x.nwk.zip')) is not a violation of this property, but the refusal is a handled failure and is judged as one (destination untouched, no temporaries); coverage class zip-write-refused",
    "atomic_write(path, tmpdir=d): the docstring says 'directory where temporary file will be created' and the constructor refuses a directory that does not exist, so d is an existing directory "
    "owned by the caller; no test of the library passes tmpdir. The property ('exactly the new content', 'no temporary files', 'previous content untouched') is read as: the write may create and must remove "
    "its own temporaries inside d, and d itself and every other entry in it (the destination included when d is the destination's directory) are not the write's to remove. "
    "d is on the same file system as the destination (a rename across file systems is not atomic and not claimed)",
    "non-context use (aw.write(); aw.close()) offers no way to abandon a write, so temporaries are judged only for faults raised inside close()",
    "a formatting failure is any exception raised while the content is produced, by the library (unknown format, refused argument, unserialisable value) or by a callable / object the caller supplied (Table.write writer=, a tree without newick); which exception type the caller sees is not judged",
    "resume: inputs that already have a completed record must not be processed again; records that were not-completed may be processed again (directory store) or skipped (sqlite store), as each store's membership test documents",
    "resume_inside: 'the same store as an uninterrupted run' is what the data store API shows: names and contents of completed and not-completed records (absolute paths inside not-completed records made relative) and the counts of validate(); files the API does not list (orphan checksum, left-over temporary directory after the kill) are not compared. Only the directory store is driven: the sqlite store writes a record and its checksum in one INSERT, with no boundary visible between",
]

SCRATCH = os.path.join(os.path.dirname(os.path.dirname(os.path.abspath(__file__))), ".scratch")
POSIX_FS = {
    "mkdir", "open", "stat", "lstat", "unlink", "remove", "rename", "replace", "rmdir", "scandir", "listdir",
    "close", "fstat", "chmod", "utime", "link", "symlink", "fsync", "ftruncate", "truncate", "access", "mkfifo",
    "sendfile", "copy_file_range",
}
IO_METHODS = {"write", "flush", "close", "writelines", "truncate", "__exit__"}  # __exit__: the close made by a with block


def is_fs_call(cfunc) -> bool:
    name = getattr(cfunc, "__name__", "")
    mod = getattr(cfunc, "__module__", None)
    if mod == "posix" and name in POSIX_FS:
        return True
    if mod in ("_io", "io") and name == "open":
        return True
    slf = getattr(cfunc, "__self__", None)
    if slf is not None and not isinstance(slf, type(sys)) and isinstance(slf, io.IOBase) and name in IO_METHODS:
        return True
    return False


AW_FILE = os.path.join("cogent3", "util", "io.py")


def frame_flags(frame):
    """(inside shutil.rmtree, inside atomic_write.close() / __exit__ = the commit and clean-up phase, inside the import machinery)"""
    rm = aw = imp = False
    f = frame
    while f is not None:
        co = f.f_code
        if co.co_filename.startswith("<frozen importlib"):
            imp = True
        elif co.co_name in ("rmtree", "_rmtree_safe_fd", "_rmtree_unsafe") and co.co_filename.endswith("shutil.py"):
            rm = True
        elif co.co_name in ("close", "__exit__") and co.co_filename.endswith(AW_FILE):
            aw = True
        f = f.f_back
    return rm, aw, imp


class Boundaries:
    """profile function: records boundaries; optionally faults the k-th"""

    def __init__(self, fault_at=None, kind=None):
        self.calls = []
        self.fault_at = fault_at
        self.kind = kind
        self.done = False

    def __call__(self, frame, event, arg):
        if event != "c_call" or self.done or not is_fs_call(arg):
            return
        rm, aw, imp = frame_flags(frame)
        if imp:
            # a module imported lazily during the write (e.g. by zipfile) is not part of the write: whether it happens
            # depends on what the forking parent has already imported, and would shift the boundary numbering
            return
        idx = len(self.calls)
        self.calls.append((getattr(arg, "__name__", "?"), rm, aw))
        if self.fault_at is not None and idx == self.fault_at:
            self.done = True
            if self.kind == "kill":
                os._exit(137)
            raise OSError(28, "No space left on device (injected)")


# ------------------------------------------------------------------ writers
class _Unpicklable:
    """a table cell that cannot be pickled or serialised to json"""

    def __reduce__(self):
        raise ValueError("this cell cannot be pickled (formatting failure made by the harness)")

    def __repr__(self):
        return "cell"


class _NoNewick:
    """stands for a tree whose newick string cannot be made"""

    def get_newick(self, with_distances=True, **kw):
        raise ValueError("no newick for this tree (formatting failure made by the harness)")


def _aln_rows(seed):
    import random

    rnd = random.Random(seed)
    n = rnd.randint(2, 4)
    L = rnd.randint(5, 70)
    return {f"seq{i}": "".join(rnd.choice("ACGT-") for _ in range(L)).replace("-", "A", 1) for i in range(n)}


def _with_block_exception(spec):
    """what leaves the with block of a bad_format case: a formatting failure, or (bad_exc = KeyboardInterrupt) the
    interruption of the process by SIGINT while the content is being written"""
    if spec.get("bad_exc") == "KeyboardInterrupt":
        return KeyboardInterrupt("interrupted (raised by the harness inside the with block)")
    return ValueError("formatting failed (injected by the harness inside the with block)")


def make_writer(spec, seed):
    """returns (filename, callable(path) performing the write)"""
    import cogent3
    from cogent3 import make_aligned_seqs, make_table, make_tree, make_unaligned_seqs
    from cogent3.util.io import atomic_write

    kind = spec["writer"]
    bad = spec.get("bad_format", False)
    if kind in ZIP_WRITERS and kind.startswith(("atomic", "open_")):
        _, fname, member, _ = ZIP_WRITERS[kind]
        text = "".join(f"line {i} of {seed}\n" for i in range(1 + seed % 40))

        def opener(path):
            if kind == "atomic.zip":  # tests/test_util/test_io.py::test_writes_compressed_formats
                return atomic_write(path, mode="wt")
            if kind in ("atomic.inzip", "atomic.inzip.noctx"):  # test_atomic_write_noncontext: path beside the archive
                return atomic_write(path[: -len(".zip")], in_zip=path, mode="w")
            if kind == "atomic.inzip.tmpdir":  # the same with the temporary file in a directory of the caller
                return atomic_write(path[: -len(".zip")], in_zip=path, mode="w", tmpdir=os.path.join(os.path.dirname(path), CALLER_DIR))
            if kind == "atomic.inzip.bool":  # test_aw_zip_from_path: archive name inferred from path
                return atomic_write(path, in_zip=True, mode="w")
            if kind == "atomic.inzip.rel":  # the form of the atomic_write docstring: member path relative to the archive
                return atomic_write(member, in_zip=path, mode="w")
            if kind == "open_.zip":  # test_open_writes_zip
                from cogent3.util.io import open_

                return open_(path, "wt")
            raise HarnessError(f"unknown zip writer {kind}")

        if kind.endswith(".noctx"):

            def w(path):
                aw = opener(path)
                aw.write(text)
                aw.close()

        else:

            def w(path):
                with opener(path) as f:
                    f.write(text)
                    if bad:
                        raise _with_block_exception(spec)

        return fname, w
    if kind.startswith("atomic"):
        suffix = {"atomic.plain": "out.txt", "atomic.gz": "out.txt.gz", "atomic.bz2": "out.txt.bz2", "atomic.tmpdir": "out.txt", "atomic.tmpdir.own": "out.txt.gz"}[kind]
        text = "".join(f"line {i} of {seed}\n" for i in range(1 + seed % 40))

        def w(path):
            kw = {}
            if kind == "atomic.tmpdir":  # tmpdir: "directory where temporary file will be created": a directory of the caller
                kw["tmpdir"] = os.path.join(os.path.dirname(path), CALLER_DIR)
            elif kind == "atomic.tmpdir.own":  # ... which may be the directory of the destination itself
                kw["tmpdir"] = os.path.dirname(path)
            with atomic_write(path, mode="wt", **kw) as f:
                f.write(text)
                if bad:
                    raise _with_block_exception(spec)

        return suffix, w
    if kind.startswith(("aln", "arr", "coll", "newcoll")):
        cls, fmt = kind.split(".", 1)
        rows = _aln_rows(seed)
        if cls == "aln":
            obj = make_aligned_seqs(rows, moltype="dna", array_align=False)
        elif cls == "arr":
            obj = make_aligned_seqs(rows, moltype="dna", array_align=True)
        elif cls == "coll":
            obj = make_unaligned_seqs({k: v.replace("-", "") for k, v in rows.items()}, moltype="dna")
        else:
            obj = make_unaligned_seqs({k: v.replace("-", "") for k, v in rows.items()}, moltype="dna", new_type=True)
        fname = "out." + fmt
        if bad and fmt.startswith("json"):
            # to_json raises TypeError inside the with block of the writer
            obj.info["unserialisable"] = {1, 2}
            return fname, lambda path: obj.write(path)
        if bad and fmt.startswith("fasta"):
            return fname, lambda path: obj.write(path, format="nonsense-format")
        if bad:
            # the formatter rejects the argument (TypeError) after the temporary file has been opened
            return fname, lambda path: obj.write(path, nonsense_argument=1)
        return fname, lambda path: obj.write(path)
    if kind.startswith("tree."):
        tree = make_tree(f"((a:0.1,b:0.{1 + seed % 9}):0.05,c:0.3,(d:0.1,e:0.2):0.{1 + seed % 7})")
        fname = "out." + kind.split(".", 1)[1]
        if bad:
            tree.params["unserialisable"] = {1, 2}  # json.dumps raises TypeError inside the with block
        return fname, lambda path: tree.write(path)
    if kind.startswith("table"):
        fmt = kind.split(".", 1)[1]
        rows = [[f"r{i}", i * seed % 17, i / 7] for i in range(1 + seed % 9)]
        fname = "out." + fmt
        if bad and fmt.startswith(("pickle", "json")):
            # a cell that can be neither pickled nor serialised: the failure comes after earlier cells were written
            rows = [r[:2] + [_Unpicklable()] for r in rows]
        t = make_table(header=["name", "n", "x"], data=rows, title="t")
        if bad and fmt.startswith("tsv"):

            def raising_writer(rows, has_header=False):
                raise ValueError("formatting failed (raised by the writer callable given to Table.write)")

            return fname, lambda path: t.write(path, writer=raising_writer)
        if bad and fmt.startswith("csv"):
            return fname, lambda path: t.write(path, sep="ab")  # csv.writer refuses the delimiter inside the with block
        return fname, lambda path: t.write(path)
    if kind.startswith("dictarray."):
        from cogent3.util.dict_array import DictArrayTemplate

        darr = DictArrayTemplate(["a", "b"], ["x", "y", "z"]).wrap([[1, 2, seed % 11], [4, 5, 6]])
        if bad:
            return "out." + kind.split(".", 1)[1], lambda path: darr.write(path, format="nonsense-format")
        return "out." + kind.split(".", 1)[1], lambda path: darr.write(path)
    if kind == "treecoll":
        from cogent3.phylo.tree_collection import ScoredTreeCollection

        trees = ScoredTreeCollection([(-(i + seed % 5), make_tree(f"(a:0.{i + 1},b:0.2,c:0.3)")) for i in range(3)])
        if bad:
            trees[1 + seed % 2] = (trees[1 + seed % 2][0], _NoNewick())  # the first tree(s) are written, then formatting fails
        return "out.trees", lambda path: trees.write(path)
    raise HarnessError(f"unknown writer {kind}")
    del cogent3


WRITERS = [
    "atomic.plain", "atomic.gz", "atomic.bz2",
    "aln.fasta", "aln.phylip", "aln.json", "aln.fasta.gz", "arr.fasta", "arr.paml", "coll.fasta", "coll.json", "newcoll.fasta", "newcoll.json",
    "tree.nwk", "tree.json", "tree.xml",
    "table.tsv", "table.csv", "table.tsv.gz", "table.json", "table.pickle",
    "dictarray.tsv", "treecoll",
    "atomic.tmpdir", "atomic.tmpdir.own",
]
# writers that hand atomic_write a directory of their own for the temporary file (tmpdir=): entries (relative to the run
# directory) that exist before the write and must still be there, with their bytes, whatever happens to the write
CALLER_DIR = "scratch"
CALLER_ENTRY = b"a file of the caller that has nothing to do with the write\n"
SIDE_ENTRIES = {
    "atomic.tmpdir": {f"{CALLER_DIR}/other.txt": CALLER_ENTRY},
    "atomic.tmpdir.own": {"unrelated.txt": CALLER_ENTRY},
    "atomic.inzip.tmpdir": {f"{CALLER_DIR}/other.txt": CALLER_ENTRY},
}
CAN_FAIL_FORMAT = {
    "atomic.tmpdir", "atomic.tmpdir.own",
    "atomic.plain", "atomic.gz", "aln.fasta", "arr.fasta", "coll.fasta", "newcoll.fasta",
    "aln.fasta.gz", "aln.phylip", "arr.paml", "aln.json", "coll.json", "newcoll.json", "tree.json",
    "table.tsv", "table.csv", "table.tsv.gz", "table.json", "table.pickle", "dictarray.tsv", "treecoll",
}
# zip targets.  writer: (semantics, archive file name, name of the member the write adds (None: not chosen by the caller),
# name of the member a pre-existing archive holds).  "replace": the path names the whole archive, which the write replaces
# (atomic_write(x.zip) without in_zip stages a new archive and renames it over the destination).  "append": the write adds
# one member to the archive (in_zip=...), every other member must survive.
ZIP_WRITERS = {
    "atomic.zip": ("replace", "out.txt.zip", None, "keep.txt"),
    "atomic.inzip": ("append", "out.txt.zip", "out.txt", "keep.txt"),
    "atomic.inzip.bool": ("append", "out.txt.zip", "out.txt", "keep.txt"),
    "atomic.inzip.rel": ("append", "out.zip", "out/seqs.tsv", "out/keep.tsv"),
    "atomic.inzip.noctx": ("append", "out.txt.zip", "out.txt", "keep.txt"),
    "atomic.inzip.tmpdir": ("append", "out.txt.zip", "out.txt", "keep.txt"),
    "open_.zip": ("append", "out.txt.zip", "out.txt", "keep.txt"),
    "aln.fasta.zip": ("replace", "out.fasta.zip", None, "keep.txt"),
    "aln.json.zip": ("replace", "out.json.zip", None, "keep.txt"),
    "table.tsv.zip": ("replace", "out.tsv.zip", None, "keep.txt"),
    "tree.json.zip": ("replace", "out.json.zip", None, "keep.txt"),
    "tree.nwk.zip": ("replace", "out.nwk.zip", None, "keep.txt"),
    "dictarray.tsv.zip": ("replace", "out.tsv.zip", None, "keep.txt"),
}
ZIP_CAN_FAIL_FORMAT = {"atomic.zip", "atomic.inzip", "atomic.inzip.rel", "open_.zip", "atomic.inzip.tmpdir"}
ZIP_KEEP = b"OLD MEMBER kept from an earlier run\n"


def old_archive(member_name) -> bytes:
    """bytes of the pre-existing archive: one stored member with a fixed date"""
    buf = io.BytesIO()
    with zipfile.ZipFile(buf, "w") as z:
        z.writestr(zipfile.ZipInfo(member_name, date_time=(2020, 1, 1, 0, 0, 0)), ZIP_KEEP)
    return buf.getvalue()


def zip_state(path):
    """(members, None) = {member name: bytes} of a sound archive, or (None, reason) when the file is not one"""
    try:
        with zipfile.ZipFile(path) as z:
            bad = z.testzip()
            if bad is not None:
                return None, f"testzip reports a corrupt member {bad!r}"
            names = z.namelist()
            if len(set(names)) != len(names):
                return None, f"duplicated member names {names}"
            return {n: z.read(n) for n in names}, None
    except Exception as e:  # noqa: BLE001 - an unreadable archive is the observation, reported with its reason
        return None, f"{type(e).__name__}: {e}"


def read_logical(path):
    """file content, decompressed"""
    with open(path, "rb") as f:
        data = f.read()
    try:
        if path.endswith(".gz"):
            return gzip.decompress(data)
        if path.endswith(".bz2"):
            return bz2.decompress(data)
    except Exception:  # noqa: BLE001 - partial/corrupt content is simply "different"
        return b"<undecodable>" + data
    return data


def run_child(fn, path, fault_at, kind):
    """fork; child performs the write with the fault; returns (exit status, boundaries seen or None)"""
    r, wfd = os.pipe()
    pid = os.fork()
    if pid == 0:
        status = 4
        try:
            os.close(r)
            prof = Boundaries(fault_at, kind)
            raised = None
            sys.setprofile(prof)
            try:
                fn(path)
            except BaseException as e:  # noqa: BLE001
                raised = e
            finally:
                sys.setprofile(None)
            payload = json.dumps({"calls": prof.calls, "raised": type(raised).__name__ if raised is not None else None}).encode()
            os.write(wfd, payload)
            status = 3 if raised is not None else 0
        except BaseException:  # noqa: BLE001
            status = 4
        finally:
            os._exit(status)
    os.close(wfd)
    chunks = []
    while True:
        b = os.read(r, 65536)
        if not b:
            break
        chunks.append(b)
    os.close(r)
    _, st_ = os.waitpid(pid, 0)
    code = os.waitstatus_to_exitcode(st_)
    info = json.loads(b"".join(chunks)) if chunks else None
    return code, info


def exec_faults(case) -> Soft:
    s = Soft("C19/")
    os.makedirs(SCRATCH, exist_ok=True)
    root = tempfile.mkdtemp(prefix="c19.", dir=SCRATCH)
    try:
        _faults(s, case, root)
    finally:
        shutil.rmtree(root, ignore_errors=True)
    return s


def _faults(s, case, root):
    writer = case["writer"]
    bad = case.get("bad_format", False)
    fname, fn = make_writer(case, case["seed"])
    zspec = ZIP_WRITERS.get(writer)
    OLD = old_archive(zspec[3]) if zspec else b"OLD CONTENT kept from an earlier run\n"
    tag = writer + (("[interrupt]" if case.get("bad_exc") == "KeyboardInterrupt" else "[format-error]") if bad else "")
    # tgt: what the judge needs to know about the destination
    tgt = {
        "fname": fname,
        "existing": case["existing"],
        "OLD": OLD,
        "zip": zspec[0] if zspec else None,
        "member": zspec[2] if zspec else None,
        "old_members": {zspec[3]: ZIP_KEEP} if zspec and case["existing"] else {},
        "new": None,
        # without a with block there is no way to abandon the write: temporaries are judged only for faults inside close()
        "noctx": writer.endswith(".noctx"),
        # entries of the caller (tmpdir= writers) that must survive
        "side": SIDE_ENTRIES.get(writer, {}),
        # the directory passed as tmpdir is the one that holds the destination
        "tmpdir_is_parent": writer == "atomic.tmpdir.own",
    }

    def fresh_dir(i):
        d = os.path.join(root, f"run{i}")
        os.makedirs(d)
        p = os.path.join(d, fname)
        if case["existing"]:
            with open(p, "wb") as f:
                f.write(OLD)
        for rel, data in tgt["side"].items():
            os.makedirs(os.path.dirname(os.path.join(d, rel)), exist_ok=True)
            with open(os.path.join(d, rel), "wb") as f:
                f.write(data)
        return d, p

    # dry run: boundaries and the complete new content
    d0, p0 = fresh_dir("dry")
    code, info = run_child(fn, p0, None, None)
    if code == 4 or info is None:
        raise HarnessError(f"dry run of {writer} failed in the harness (exit {code})")
    calls = info["calls"]
    K = len(calls)
    dest = f"destination {'pre-existing' if case['existing'] else 'absent'}"
    if bad:
        # a formatting failure is itself the fault under test
        s.check(code == 3, f"{tag}/format-error-not-raised", f"{writer}: write with an unusable format returned normally")
        _judge(s, tag + "/format-error", d0, p0, tgt, handled=True, fault_in_rmtree=False, what=f"{writer} formatting failure, {dest}")
        if case["existing"] and any(c[0] == "open" for c in calls):
            # the failure came after the temporary file had been opened, with a destination to lose
            s.extra_nontrivial.append(f"{tag}/format-error")
    elif code != 0 and zspec and not writer.startswith(("atomic", "open_")):
        # no docstring or library test promises that this writer accepts a .zip path (only atomic_write / open_ are pinned):
        # a refusal is not a violation, but it is a handled failure and must leave the directory as it was
        s.cls(f"zip-write-refused:{writer}")
        _judge(s, tag + "/write-refused", d0, p0, tgt, handled=True, fault_in_rmtree=False, what=f"{writer} raised {info['raised']} without any injected fault, {dest}")
        s.evals = 1
        return
    else:
        if code != 0:
            s.fail(f"{tag}/unfaulted-write-raises", f"{writer}: {info}")
            return
        _judge_side(s, d0, tgt, f"{writer} unfaulted write, {dest}")
        if not os.path.exists(p0):
            s.fail(LOST_WITH_DIR if tgt["tmpdir_is_parent"] else f"{tag}/unfaulted-write-no-file", f"{writer} unfaulted write, {dest}: no destination afterwards; the run directory holds {_listing(d0)}")
            return
        if tgt["zip"]:
            members, why = zip_state(p0)
            if members is None:
                s.fail(f"{tag}/unfaulted-write-unsound-archive", f"{writer}, {dest}: {why}")
                return
            if tgt["zip"] == "append":
                want = set(tgt["old_members"]) | {tgt["member"]}
                if set(members) != want or any(members[k] != v for k, v in tgt["old_members"].items()):
                    s.fail(f"{tag}/unfaulted-write-wrong-members", f"{writer}, {dest}: archive holds {sorted(members)}, expected {sorted(want)} with the old member unchanged")
                    return
                tgt["new"] = members[tgt["member"]]
            else:
                tgt["new"] = sorted(members.values())  # the member name is a random uuid: contents are compared
        else:
            tgt["new"] = read_logical(p0)
        s.check(not _leftovers(d0, tgt), f"{tag}/unfaulted-write-leftovers", f"{writer}: {_listing(d0)}")
    s.cls(f"writer:{writer}", "existing" if case["existing"] else "absent", f"K={min(K, 40)}")
    evals = 1
    # the commit point: first rename/replace of the run; for an append into an archive, the opening of the archive
    # (the first open made inside close() / __exit__)
    if tgt["zip"] == "append":
        commit = next((i for i, c in enumerate(calls) if c[0] == "open" and c[2] and not c[1]), None)
    else:
        commit = next((i for i, c in enumerate(calls) if c[0] in ("rename", "replace")), None)
    for k in range(K):
        name_k, rm_k, close_k = calls[k]
        for kind in ("raise", "kill"):
            d, p = fresh_dir(f"{k}{kind}")
            code, info2 = run_child(fn, p, k, kind)
            evals += 1
            what = f"{writer} seed {case['seed']} {dest}: {kind} at boundary {k}/{K} ({name_k}{' in rmtree' if rm_k else ''}); calls {[c[0] for c in calls]}"
            if kind == "kill":
                if code != 137:
                    # the boundary was not reached in this run (nondeterministic call sequence): inconclusive, not a violation
                    s.cls("kill-boundary-not-reached")
                    continue
                _judge(s, f"{tag}/kill@{name_k}", d, p, tgt, handled=False, fault_in_rmtree=rm_k, what=what)
            else:
                if code == 4:
                    raise HarnessError(f"child failed in harness: {what}")
                _judge(s, f"{tag}/oserror@{name_k}{'[rmtree]' if rm_k else ''}", d, p, tgt, handled=not tgt["noctx"] or close_k, fault_in_rmtree=rm_k, what=what + f"; caller saw {info2 and info2['raised']}")
            if case["existing"] and commit is not None and k >= commit - 2:
                s.extra_nontrivial.append(f"{tag}/{k}/{kind}")
            shutil.rmtree(d, ignore_errors=True)
    s.evals = evals
    s.nontrivial = bool(s.extra_nontrivial)


def _judge(s, sig, d, p, tgt, handled, fault_in_rmtree, what):
    fname, existing, OLD, new = tgt["fname"], tgt["existing"], tgt["OLD"], tgt["new"]
    present = os.path.exists(p)
    if present and tgt["zip"] == "append":
        _judge_archive(s, sig, p, tgt, what)
    elif present:
        raw_old = open(p, "rb").read() == OLD
        if tgt["zip"]:
            members, why = (None, None) if raw_old else zip_state(p)
            ok = raw_old or (new is not None and members is not None and sorted(members.values()) == new)
            shown = why if members is None else f"members {sorted(members)}"
        else:
            data = read_logical(p)
            ok = raw_old or (new is not None and data == new)
            shown = f"{data[:60]!r}…"
        if not ok:
            s.fail(sig + "/destination-partial-or-foreign", f"{what}: destination holds {shown} (neither the old nor the complete new content)")
        if not existing and raw_old:
            s.fail(sig + "/destination-appeared", what)
    else:
        if existing:
            # (one signature when the destination went with the caller's directory: same root cause at every boundary)
            s.fail(LOST_WITH_DIR if tgt["tmpdir_is_parent"] else sig + "/destination-lost", f"{what}: the pre-existing destination is gone; directory: {_listing(d)}")
    if handled and not fault_in_rmtree:
        extra = _leftovers(d, tgt)
        if extra:
            s.fail(sig + "/temporary-left-behind", f"{what}: directory also holds {extra}")
    _judge_side(s, d, tgt, what)


LOST_WITH_DIR = "caller-tmpdir/destination-removed-with-directory-of-caller"


def _listing(d):
    """every entry below d (relative paths), or a note that d itself is gone"""
    if not os.path.isdir(d):
        return "<the directory itself has been removed>"
    out = []
    for top, dirs, files in os.walk(d):
        rel = os.path.relpath(top, d)
        out.extend(os.path.normpath(os.path.join(rel, x)) + ("/" if x in dirs else "") for x in dirs + files)
    return sorted(out)


def _leftovers(d, tgt):
    """entries below d that are neither the destination nor an entry the caller had put there"""
    if not os.path.isdir(d):
        return []
    side = tgt["side"]
    keep = {tgt["fname"]} | set(side) | {os.path.dirname(rel) + "/" for rel in side if os.path.dirname(rel)}
    return [x for x in _listing(d) if x not in keep]


def _judge_side(s, d, tgt, what):
    """tmpdir= writers: the directory the caller supplied for the temporary file, and everything else the caller keeps
    there, is the caller's: it must be there afterwards, whether the write completed, failed or died.  One root cause,
    so one signature whatever the writer and the faulted call"""
    for rel, data in tgt["side"].items():
        q = os.path.join(d, rel)
        if not os.path.isfile(q):
            s.fail("caller-tmpdir/entry-of-caller-removed", f"{what}: {rel!r}, which the caller kept in the directory passed as tmpdir, is gone; the run directory now holds {_listing(d)}")
        elif open(q, "rb").read() != data:
            s.fail("caller-tmpdir/entry-of-caller-changed", f"{what}: {rel!r} no longer holds the caller's bytes")


def _judge_archive(s, sig, p, tgt, what):
    """a member was being added to the archive at p: the archive must be sound, hold every old member unchanged, and the
    new member is either absent or complete; an archive that did not exist stays absent unless the member is complete"""
    old, member, new = tgt["old_members"], tgt["member"], tgt["new"]
    # one root cause (the member is appended to the archive itself, not to a staged copy): the signature names only the
    # kind of damage, the writer and the faulted call are in the message
    sig = "zip-append/in-place-append"
    members, why = zip_state(p)
    if members is None:
        s.fail(sig + ("/archive-corrupted" if tgt["existing"] else "/unsound-archive-appeared"), f"{what}: the archive cannot be read: {why}; size {os.path.getsize(p)}")
        return
    lost = sorted(k for k, v in old.items() if members.get(k) != v)
    if lost:
        s.fail(sig + "/old-member-lost", f"{what}: the archive holds {sorted(members)}; members of the pre-existing archive that are missing or changed: {lost}")
    added = sorted(k for k in members if k not in old)
    if not added:
        if not tgt["existing"]:
            s.fail(sig + "/empty-archive-appeared", f"{what}: there was no archive before the write, now there is one without the member")
    elif added != [member] or new is None or members[member] != new:
        got = members.get(member)
        s.fail(sig + "/new-member-partial-or-foreign", f"{what}: members added {added}; {member!r} holds {got[:60] if got is not None else None!r}…, not the complete new content")


@st.composite
def fault_cases(draw):
    writer = draw(st.sampled_from(WRITERS))
    bad = writer in CAN_FAIL_FORMAT and draw(st.integers(0, 5)) == 0
    case = {"writer": writer, "seed": draw(st.integers(0, 10_000)), "existing": draw(st.booleans()), "bad_format": bad}
    if bad and writer.startswith("atomic") and draw(st.booleans()):
        case["bad_exc"] = "KeyboardInterrupt"
    return case


def enum_fault_cases(tier):
    out = []
    for w in WRITERS + list(ZIP_WRITERS):
        for ex in (False, True):
            out.append({"writer": w, "seed": 7, "existing": ex, "bad_format": False})
    for w in sorted(CAN_FAIL_FORMAT | ZIP_CAN_FAIL_FORMAT):
        # with an absent destination only for the writers enumerated that way from the start (the fixed replays name them)
        for ex in (False, True) if w in ("atomic.plain", "atomic.gz", "aln.fasta", "arr.fasta", "coll.fasta", "newcoll.fasta", "atomic.inzip") else (True,):
            out.append({"writer": w, "seed": 7, "existing": ex, "bad_format": True})
    for w in ("atomic.plain", "atomic.gz", "atomic.zip", "open_.zip", "atomic.tmpdir"):
        out.append({"writer": w, "seed": 7, "existing": True, "bad_format": True, "bad_exc": "KeyboardInterrupt"})
    return out


@st.composite
def zip_fault_cases(draw):
    writer = draw(st.sampled_from(list(ZIP_WRITERS)))
    bad = writer in ZIP_CAN_FAIL_FORMAT and draw(st.integers(0, 5)) == 0
    case = {"writer": writer, "seed": draw(st.integers(0, 10_000)), "existing": draw(st.booleans()), "bad_format": bad}
    if bad and draw(st.booleans()):
        case["bad_exc"] = "KeyboardInterrupt"
    return case


# ------------------------------------------------------------------- resume
@st.composite
def resume_cases(draw):
    n = draw(st.integers(2, 8))
    short = draw(st.lists(st.booleans(), min_size=n, max_size=n))
    return {"store": draw(st.sampled_from(["dir", "sqlite"])), "n": n, "short": short, "seed": draw(st.integers(0, 999))}


def _make_inputs(root, case):
    import random

    rnd = random.Random(case["seed"])
    ind = os.path.join(root, "inputs")
    os.makedirs(ind)
    for i in range(case["n"]):
        L = 5 if case["short"][i] else 30
        with open(os.path.join(ind, f"in{i}.fasta"), "w") as f:
            for nm in ("a", "b"):
                f.write(f">{nm}\n{''.join(rnd.choice('ACGT') for _ in range(L))}\n")
    return ind


def _build_app(out):
    from cogent3 import get_app

    loader = get_app("load_unaligned", moltype="dna", format="fasta") + get_app("min_length", length=10)
    if type(out).__name__ == "DataStoreSqlite":
        return loader + get_app("write_db", data_store=out)  # the writer documented for sqlite stores
    return loader + get_app("write_seqs", data_store=out, format="fasta")


def _open_out(root, case, mode):
    from cogent3 import open_data_store

    if case["store"] == "dir":
        return open_data_store(os.path.join(root, "out"), suffix="fasta", mode=mode)
    return open_data_store(os.path.join(root, "out.sqlitedb"), mode=mode)


def _store_state(out):
    comp = {str(m.unique_id): m.read() for m in out.completed}
    nc = sorted(os.path.basename(str(m.unique_id)) for m in out.not_completed)
    return comp, nc


def _run_apply(root, case, die_at, inside=None, record=None):
    """runs apply_to in a forked child; the child dies at the start of the (die_at+1)-th store write, or, with inside=k,
    at the k-th file-system call boundary inside that write.  record=path: every store write is profiled (no fault) and
    the boundaries of each are written to path as a JSON list (one [method, call names] per store write, in run order)."""
    pid = os.fork()
    if pid == 0:
        code = 4
        try:
            from cogent3 import open_data_store

            ins = open_data_store(os.path.join(root, "inputs"), suffix="fasta", mode="r")
            out = _open_out(root, case, "w" if die_at is None or not os.path.exists(os.path.join(root, "started")) else "a")
            open(os.path.join(root, "started"), "w").close()
            count = [0]
            seen = []
            for meth in ("write", "write_not_completed"):
                orig = getattr(out, meth)

                def hooked(*a, _orig=orig, _meth=meth, **kw):
                    if die_at is not None and count[0] == die_at:
                        if inside is None:
                            os._exit(137)
                        sys.setprofile(Boundaries(inside, "kill"))
                        try:
                            return _orig(*a, **kw)
                        finally:
                            sys.setprofile(None)
                    count[0] += 1
                    if record is None:
                        return _orig(*a, **kw)
                    prof = Boundaries()
                    sys.setprofile(prof)
                    try:
                        return _orig(*a, **kw)
                    finally:
                        sys.setprofile(None)
                        seen.append([_meth, [c[0] for c in prof.calls]])

                setattr(out, meth, hooked)
            app = _build_app(out)
            app.apply_to(ins, show_progress=False, logger=False)
            if record is not None:
                with open(record, "w") as f:
                    json.dump(seen, f)
            if hasattr(out, "unlock"):
                out.unlock(force=True)
            if hasattr(out, "close"):
                out.close()
            code = 0
        except BaseException:  # noqa: BLE001
            import traceback

            with open(os.path.join(root, "child-error.txt"), "w") as f:
                f.write(traceback.format_exc())
            code = 3
        finally:
            os._exit(code)
    _, st_ = os.waitpid(pid, 0)
    return os.waitstatus_to_exitcode(st_)


def exec_resume(case) -> Soft:
    s = Soft("C19/resume/")
    os.makedirs(SCRATCH, exist_ok=True)
    top = tempfile.mkdtemp(prefix="c19r.", dir=SCRATCH)
    try:
        _resume(s, case, top)
    finally:
        shutil.rmtree(top, ignore_errors=True)
    return s


def _resume(s, case, top):
    n = case["n"]
    store = case["store"]
    # reference: uninterrupted run
    ref_root = os.path.join(top, "ref")
    os.makedirs(ref_root)
    _make_inputs(ref_root, case)
    code = _run_apply(ref_root, case, None)
    if code != 0:
        err = open(os.path.join(ref_root, "child-error.txt")).read() if os.path.exists(os.path.join(ref_root, "child-error.txt")) else ""
        s.fail(f"{store}/uninterrupted-run-failed", f"exit {code}: {err[-400:]}")
        return
    out = _open_out(ref_root, case, "r")
    want = _store_state(out)
    if hasattr(out, "close"):
        out.close()
    s.cls(f"store:{store}", f"n={n}")
    evals = 1
    for j in range(n):
        root = os.path.join(top, f"j{j}")
        os.makedirs(root)
        _make_inputs(root, case)
        code = _run_apply(root, case, j)
        if code != 137:
            s.fail(f"{store}/interrupt-not-reached", f"prefix {j} of {n}: child exit {code}")
            continue
        # state left by the dead process
        try:
            mid_out = _open_out(root, case, "r")
            mid = _store_state(mid_out)
            if hasattr(mid_out, "close"):
                mid_out.close()
        except Exception as e:  # noqa: BLE001
            s.fail(f"{store}/store-unreadable-after-kill", f"prefix {j}: {type(e).__name__}: {e}")
            continue
        # resume in append mode with a fresh app; record which identifiers are written
        written_path = os.path.join(root, "resumed-writes.txt")
        pid = os.fork()
        if pid == 0:
            code = 4
            try:
                from cogent3 import open_data_store

                ins = open_data_store(os.path.join(root, "inputs"), suffix="fasta", mode="r")
                out2 = _open_out(root, case, "a")
                for meth in ("write", "write_not_completed"):
                    orig = getattr(out2, meth)

                    def hooked(*a, _orig=orig, _m=meth, **kw):
                        with open(written_path, "a") as f:
                            f.write(f"{_m}\t{kw.get('unique_id')}\n")
                        return _orig(*a, **kw)

                    setattr(out2, meth, hooked)
                _build_app(out2).apply_to(ins, show_progress=False, logger=False)
                if hasattr(out2, "unlock"):
                    out2.unlock(force=True)
                if hasattr(out2, "close"):
                    out2.close()
                code = 0
            except BaseException:  # noqa: BLE001
                import traceback

                with open(os.path.join(root, "child-error.txt"), "w") as f:
                    f.write(traceback.format_exc())
                code = 3
            finally:
                os._exit(code)
        _, st_ = os.waitpid(pid, 0)
        code = os.waitstatus_to_exitcode(st_)
        evals += 1
        what = f"{store} store, {n} inputs (short: {case['short']}), killed at the start of store write {j + 1}"
        if code != 0:
            err = open(os.path.join(root, "child-error.txt")).read() if os.path.exists(os.path.join(root, "child-error.txt")) else ""
            s.fail(f"{store}/resume-raises", f"{what}: resumed apply_to failed: {err[-500:]}")
            continue
        out3 = _open_out(root, case, "r")
        got = _store_state(out3)
        if hasattr(out3, "close"):
            out3.close()
        s.eq(sorted(got[0]), sorted(want[0]), f"{store}/resume/completed-membership", what)
        s.check(all(got[0].get(k) == v for k, v in want[0].items()), f"{store}/resume/completed-content", what)
        s.eq(got[1], want[1], f"{store}/resume/not-completed-membership", what)
        rewritten = []
        if os.path.exists(written_path):
            for line in open(written_path):
                meth, uid = line.rstrip("\n").split("\t")
                stem = os.path.basename(uid).replace(".fasta", "")
                if any(os.path.basename(k).replace(".fasta", "") == stem for k in mid[0]):
                    rewritten.append(uid)
        s.check(not rewritten, f"{store}/resume/completed-processed-again", f"{what}: records already completed were written again: {rewritten}")
        if mid[0] and len(mid[0]) < len(want[0]):
            s.extra_nontrivial.append(f"{store}/{n}/{j}/{case['short']}")
    s.evals = evals
    s.nontrivial = bool(s.extra_nontrivial)


# ------------------------------------------------- resume, killed inside a record
@st.composite
def resume_inside_cases(draw):
    n = draw(st.integers(2, 5))
    short = draw(st.lists(st.booleans(), min_size=n, max_size=n))
    return {"store": "dir", "n": n, "short": short, "seed": draw(st.integers(0, 999)), "record": draw(st.integers(0, n - 1))}


def _full_state(root, case):
    """what the data store API shows: completed records with content, not-completed records with content (paths made
    relative to root), and the validate() table"""
    out = _open_out(root, case, "r")
    try:
        comp = {str(m.unique_id): m.read() for m in out.completed}
        nc = {os.path.basename(str(m.unique_id)): m.read().replace(root, "<ROOT>") for m in out.not_completed}
        v = out.validate()
        val = {str(row[0]): row[1] for row in v.to_list()}
    finally:
        if hasattr(out, "close"):
            out.close()
    return {"completed": comp, "not_completed": nc, "validate": val}


def _resume_child(root, case):
    """re-runs apply_to in append mode with a fresh app in a forked child; returns its exit status"""
    pid = os.fork()
    if pid == 0:
        code = 4
        try:
            from cogent3 import open_data_store

            ins = open_data_store(os.path.join(root, "inputs"), suffix="fasta", mode="r")
            out2 = _open_out(root, case, "a")
            _build_app(out2).apply_to(ins, show_progress=False, logger=False)
            if hasattr(out2, "unlock"):
                out2.unlock(force=True)
            if hasattr(out2, "close"):
                out2.close()
            code = 0
        except BaseException:  # noqa: BLE001
            import traceback

            with open(os.path.join(root, "child-error.txt"), "w") as f:
                f.write(traceback.format_exc())
            code = 3
        finally:
            os._exit(code)
    _, st_ = os.waitpid(pid, 0)
    return os.waitstatus_to_exitcode(st_)


def exec_resume_inside(case) -> Soft:
    s = Soft("C19/resume/")
    os.makedirs(SCRATCH, exist_ok=True)
    top = tempfile.mkdtemp(prefix="c19i.", dir=SCRATCH)
    try:
        _resume_inside(s, case, top)
    finally:
        shutil.rmtree(top, ignore_errors=True)
    return s


def _resume_inside(s, case, top):
    n, store, j = case["n"], case["store"], case["record"]
    ref_root = os.path.join(top, "ref")
    os.makedirs(ref_root)
    _make_inputs(ref_root, case)
    rec = os.path.join(ref_root, "boundaries.json")
    code = _run_apply(ref_root, case, None, record=rec)
    if code != 0:
        err = open(os.path.join(ref_root, "child-error.txt")).read() if os.path.exists(os.path.join(ref_root, "child-error.txt")) else ""
        s.fail(f"{store}/uninterrupted-run-failed", f"exit {code}: {err[-400:]}")
        return
    want = _full_state(ref_root, case)
    with open(rec) as f:
        per_write = json.load(f)
    if len(per_write) != n:
        raise HarnessError(f"{len(per_write)} store writes recorded for {n} inputs")
    meth_j, calls = per_write[j]  # j counts store writes in the order apply_to makes them (not the order of the input names)
    kind_j = "not-completed" if meth_j == "write_not_completed" else "completed"
    s.cls(f"inside:{store}", f"record:{kind_j}", f"K={len(calls)}")
    evals = 1
    for k in range(len(calls)):
        root = os.path.join(top, f"k{k}")
        os.makedirs(root)
        _make_inputs(root, case)
        code = _run_apply(root, case, j, inside=k)
        what = f"{store} store, {n} inputs (short: {case['short']}), killed inside store write {j + 1} (a {kind_j} record) at boundary {k}/{len(calls)} ({calls[k]}); calls {calls}"
        if code != 137:
            s.cls("kill-boundary-not-reached")
            shutil.rmtree(root, ignore_errors=True)
            continue
        sig = f"{store}/inside-{kind_j}"
        try:
            _full_state(root, case)
        except Exception as e:  # noqa: BLE001
            s.fail(f"{sig}/store-unreadable-after-kill", f"{what}: {type(e).__name__}: {e}")
            continue
        code = _resume_child(root, case)
        evals += 1
        if code != 0:
            err = open(os.path.join(root, "child-error.txt")).read() if os.path.exists(os.path.join(root, "child-error.txt")) else ""
            s.fail(f"{sig}/resume-raises", f"{what}: resumed apply_to failed: {err[-500:]}")
            continue
        got = _full_state(root, case)
        want_here = json.loads(json.dumps(want).replace(ref_root, root))
        s.eq(sorted(got["completed"]), sorted(want_here["completed"]), f"{sig}/completed-membership", what)
        diff = sorted(k_ for k_, v in want_here["completed"].items() if k_ in got["completed"] and got["completed"][k_] != v)
        s.check(not diff, f"{sig}/completed-content", f"{what}: records whose content differs from the uninterrupted run: {diff}; e.g. {got['completed'][diff[0]][:80]!r}" if diff else what)
        s.eq(sorted(got["not_completed"]), sorted(want_here["not_completed"]), f"{sig}/not-completed-membership", what)
        diff = sorted(k_ for k_, v in want_here["not_completed"].items() if k_ in got["not_completed"] and got["not_completed"][k_] != v)
        s.check(not diff, f"{sig}/not-completed-content", f"{what}: not-completed records whose content differs from the uninterrupted run: {diff}; e.g. {got['not_completed'][diff[0]][:80]!r}" if diff else what)
        s.eq(got["validate"], want_here["validate"], f"{sig}/validate", what)
        s.extra_nontrivial.append(f"{kind_j}/{k}/{calls[k]}")
        shutil.rmtree(root, ignore_errors=True)
    s.evals = evals
    s.nontrivial = bool(s.extra_nontrivial)


SUBS = [
    Sub("faults_all_writers", exec_faults, enumerate=enum_fault_cases, exhaustive=True),
    Sub("faults", exec_faults, strategy=fault_cases(), quick=48, thorough=1600, shards_quick=16),
    Sub("faults_zip", exec_faults, strategy=zip_fault_cases(), quick=16, thorough=600, shards_quick=8),
    Sub("resume_inside", exec_resume_inside, strategy=resume_inside_cases(), quick=12, thorough=300, shards_quick=4),
    Sub("resume", exec_resume, strategy=resume_cases(), quick=24, thorough=640, shards_quick=12),
]

KNOWN_PREDICATES = {}

META = {
    "technique": "exhaustive fault enumeration: every file-system call boundary of every writer, discovered by a profiled dry run, is faulted (OSError raised / process killed in a forked child); every prefix of an apply_to run, and every boundary inside one store write, is killed and resumed; contents generated by Hypothesis",
    "level_text": "For each of 25 writer/format combinations (atomic_write also with a caller-supplied tmpdir, whose other entries must survive) and 13 zip targets (whole archives and members added to an archive, absent or pre-existing with another member), with the destination absent and pre-existing, every C-level file-system call made during the write (typically 12-40) is turned into a raised OSError and into real process death, and the directory is inspected from the parent: old-or-new destination (archives: sound, old members kept, new member absent or complete), no temporaries after handled failures. Formatting failures are injected for every writer kind (unknown format, refused formatter argument, unserialisable info / params / cells, raising writer callable, tree without newick, exception in the with block). apply_to runs over 2-8 inputs into both store kinds are killed before every store write, and at every boundary inside one write of a directory store, and resumed in append mode; records, contents and validate() are compared with an uninterrupted run.",
    "level_note": "Boundaries are those visible to sys.setprofile as C calls (posix.*, _io.open, io object write/flush/close/__exit__); faults inside C code that makes several system calls (e.g. one BufferedWriter.flush, one sqlite INSERT) are one boundary. Power-loss durability is out of scope.",
    "design_ref": "DESIGN.md section 1, C19",
}
