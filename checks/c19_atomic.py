"""C19 — file writes are all-or-nothing; interrupted runs resume to the same result.

Fault enumeration.  The file-system call boundaries inside each write are
discovered by a dry run under ``sys.setprofile`` (C-level calls owned by the
``posix`` module, ``_io.open`` and write/flush/close of io objects); then, for
EVERY boundary k, the write is repeated in a forked child with (a) an
``OSError`` raised at boundary k, (b) the process killed (``os._exit``) at
boundary k.  The parent inspects the directory afterwards.

Oracle: the destination holds exactly the old bytes (or is absent if it was
absent) or exactly the bytes an unfaulted write produces; after a handled
failure no other entry remains in the directory unless the fault hit a removal
call of the clean-up itself.
"""

from __future__ import annotations

import bz2
import gzip
import io
import json
import os
import shutil
import sys
import tempfile

from hypothesis import strategies as st

from vlib.core import HarnessError, Soft, Sub

PROPERTY_ID = "C19"
LEVEL = "fault_enumeration"
ISOLATION = "subprocess"
RULE = (
    "faults sub-check: a case is (writer, content seed, destination absent / pre-existing, optional formatting failure). "
    "Writers: atomic_write directly (plain, .gz, .bz2), Alignment / ArrayAlignment / SequenceCollection / new-type "
    "SequenceCollection .write (fasta, phylip, json, gz), PhyloNode.write (newick, xml, json), Table.write (tsv, csv, tsv.gz, "
    "json, pickle), DictArray.write, ScoredTreeCollection.write. For every case ALL file-system call boundaries of the write are "
    "enumerated and each is faulted twice (OSError raised / process killed) in a forked child: evaluations = number of faulted "
    "runs. resume sub-check: apply_to over n inputs into a directory or sqlite store is killed at the start of the (j+1)-th "
    "store write for EVERY j, then re-run in append mode and compared with an uninterrupted run. Non-trivial = a fault at a "
    "boundary after the temporary file is complete with a pre-existing destination (distinct (writer, boundary, kind) triples), "
    "or a resume with at least one completed and one missing record."
)
ASSUMPTIONS = [
    "a boundary is a C-level call made during the write whose owner is the posix module, _io.open, or an io object method write/flush/close/writelines; the dry run and the faulted run execute the same code up to the fault, so index k names the same call",
    "durability across power loss (fsync ordering) is not modelled: only process death with an intact page cache",
    "after a kill, left-over temporaries are allowed; after a handled failure they are allowed only when the injected fault was inside shutil.rmtree (a failed removal cannot be required to have removed)",
    "the complete new content is defined by an unfaulted write of the same object in the same process (writer correctness is C06/C20's subject); compressed files are compared after decompression",
    "resume: inputs that already have a completed record must not be processed again; records that were not-completed may be processed again (directory store) or skipped (sqlite store), as each store's membership test documents",
]

SCRATCH = os.path.join(os.path.dirname(os.path.dirname(os.path.abspath(__file__))), ".scratch")
POSIX_FS = {
    "mkdir", "open", "stat", "lstat", "unlink", "remove", "rename", "replace", "rmdir", "scandir", "listdir",
    "close", "fstat", "chmod", "utime", "link", "symlink", "fsync", "ftruncate", "truncate", "access", "mkfifo",
}
IO_METHODS = {"write", "flush", "close", "writelines", "truncate"}


def is_fs_call(cfunc) -> bool:
    name = getattr(cfunc, "__name__", "")
    mod = getattr(cfunc, "__module__", None)
    if mod == "posix" and name in POSIX_FS:
        return True
    if mod in ("_io", "io") and name == "open":
        return True
    slf = getattr(cfunc, "__self__", None)
    if slf is not None and not isinstance(slf, type(sys)) and isinstance(slf, io.IOBase) and name in IO_METHODS:
        return True
    return False


def in_rmtree(frame) -> bool:
    f = frame
    while f is not None:
        if f.f_code.co_name in ("rmtree", "_rmtree_safe_fd", "_rmtree_unsafe") and f.f_code.co_filename.endswith("shutil.py"):
            return True
        f = f.f_back
    return False


class Boundaries:
    """profile function: records boundaries; optionally faults the k-th"""

    def __init__(self, fault_at=None, kind=None):
        self.calls = []
        self.fault_at = fault_at
        self.kind = kind
        self.done = False

    def __call__(self, frame, event, arg):
        if event != "c_call" or self.done or not is_fs_call(arg):
            return
        idx = len(self.calls)
        self.calls.append((getattr(arg, "__name__", "?"), in_rmtree(frame)))
        if self.fault_at is not None and idx == self.fault_at:
            self.done = True
            if self.kind == "kill":
                os._exit(137)
            raise OSError(28, "No space left on device (injected)")


# ------------------------------------------------------------------ writers
def _aln_rows(seed):
    import random

    rnd = random.Random(seed)
    n = rnd.randint(2, 4)
    L = rnd.randint(5, 70)
    return {f"seq{i}": "".join(rnd.choice("ACGT-") for _ in range(L)).replace("-", "A", 1) for i in range(n)}


def make_writer(spec, seed):
    """returns (filename, callable(path) performing the write)"""
    import cogent3
    from cogent3 import make_aligned_seqs, make_table, make_tree, make_unaligned_seqs
    from cogent3.util.io import atomic_write

    kind = spec["writer"]
    bad = spec.get("bad_format", False)
    if kind.startswith("atomic"):
        suffix = {"atomic.plain": "out.txt", "atomic.gz": "out.txt.gz", "atomic.bz2": "out.txt.bz2"}[kind]
        text = "".join(f"line {i} of {seed}\n" for i in range(1 + seed % 40))

        def w(path):
            with atomic_write(path, mode="wt") as f:
                f.write(text)
                if bad:
                    raise ValueError("formatting failed (injected by the harness inside the with block)")

        return suffix, w
    if kind.startswith(("aln", "arr", "coll", "newcoll")):
        cls, fmt = kind.split(".", 1)
        rows = _aln_rows(seed)
        if cls == "aln":
            obj = make_aligned_seqs(rows, moltype="dna", array_align=False)
        elif cls == "arr":
            obj = make_aligned_seqs(rows, moltype="dna", array_align=True)
        elif cls == "coll":
            obj = make_unaligned_seqs({k: v.replace("-", "") for k, v in rows.items()}, moltype="dna")
        else:
            obj = make_unaligned_seqs({k: v.replace("-", "") for k, v in rows.items()}, moltype="dna", new_type=True)
        fname = "out." + fmt
        if bad:
            return fname, lambda path: obj.write(path, format="nonsense-format")
        return fname, lambda path: obj.write(path)
    if kind.startswith("tree."):
        tree = make_tree(f"((a:0.1,b:0.{1 + seed % 9}):0.05,c:0.3,(d:0.1,e:0.2):0.{1 + seed % 7})")
        fname = {"tree.nwk": "out.nwk", "tree.json": "out.json", "tree.xml": "out.xml"}[kind]
        return fname, lambda path: tree.write(path)
    if kind.startswith("table"):
        t = make_table(header=["name", "n", "x"], data=[[f"r{i}", i * seed % 17, i / 7] for i in range(1 + seed % 9)], title="t")
        fname = "out." + kind.split(".", 1)[1]
        if bad:
            return fname, lambda path: t.write(path, format="nonsense-format")
        return fname, lambda path: t.write(path)
    if kind == "dictarray.tsv":
        from cogent3.util.dict_array import DictArrayTemplate

        darr = DictArrayTemplate(["a", "b"], ["x", "y", "z"]).wrap([[1, 2, seed % 11], [4, 5, 6]])
        return "out.tsv", lambda path: darr.write(path)
    if kind == "treecoll":
        from cogent3.phylo.tree_collection import ScoredTreeCollection

        trees = ScoredTreeCollection([(-(i + seed % 5), make_tree(f"(a:0.{i + 1},b:0.2,c:0.3)")) for i in range(3)])
        return "out.trees", lambda path: trees.write(path)
    raise HarnessError(f"unknown writer {kind}")
    del cogent3


WRITERS = [
    "atomic.plain", "atomic.gz", "atomic.bz2",
    "aln.fasta", "aln.phylip", "aln.json", "aln.fasta.gz", "arr.fasta", "arr.paml", "coll.fasta", "coll.json", "newcoll.fasta", "newcoll.json",
    "tree.nwk", "tree.json", "tree.xml",
    "table.tsv", "table.csv", "table.tsv.gz", "table.json", "table.pickle",
    "dictarray.tsv", "treecoll",
]
CAN_FAIL_FORMAT = {"atomic.plain", "atomic.gz", "aln.fasta", "arr.fasta", "coll.fasta", "newcoll.fasta"}


def read_logical(path):
    """file content, decompressed"""
    with open(path, "rb") as f:
        data = f.read()
    try:
        if path.endswith(".gz"):
            return gzip.decompress(data)
        if path.endswith(".bz2"):
            return bz2.decompress(data)
    except Exception:  # noqa: BLE001 - partial/corrupt content is simply "different"
        return b"<undecodable>" + data
    return data


def run_child(fn, path, fault_at, kind):
    """fork; child performs the write with the fault; returns (exit status, boundaries seen or None)"""
    r, wfd = os.pipe()
    pid = os.fork()
    if pid == 0:
        status = 4
        try:
            os.close(r)
            prof = Boundaries(fault_at, kind)
            raised = None
            sys.setprofile(prof)
            try:
                fn(path)
            except BaseException as e:  # noqa: BLE001
                raised = e
            finally:
                sys.setprofile(None)
            payload = json.dumps({"calls": prof.calls, "raised": type(raised).__name__ if raised is not None else None}).encode()
            os.write(wfd, payload)
            status = 3 if raised is not None else 0
        except BaseException:  # noqa: BLE001
            status = 4
        finally:
            os._exit(status)
    os.close(wfd)
    chunks = []
    while True:
        b = os.read(r, 65536)
        if not b:
            break
        chunks.append(b)
    os.close(r)
    _, st_ = os.waitpid(pid, 0)
    code = os.waitstatus_to_exitcode(st_)
    info = json.loads(b"".join(chunks)) if chunks else None
    return code, info


def exec_faults(case) -> Soft:
    s = Soft("C19/")
    os.makedirs(SCRATCH, exist_ok=True)
    root = tempfile.mkdtemp(prefix="c19.", dir=SCRATCH)
    try:
        _faults(s, case, root)
    finally:
        shutil.rmtree(root, ignore_errors=True)
    return s


def _faults(s, case, root):
    writer = case["writer"]
    bad = case.get("bad_format", False)
    fname, fn = make_writer(case, case["seed"])
    OLD = b"OLD CONTENT kept from an earlier run\n"
    tag = writer + ("[format-error]" if bad else "")

    def fresh_dir(i):
        d = os.path.join(root, f"run{i}")
        os.makedirs(d)
        p = os.path.join(d, fname)
        if case["existing"]:
            with open(p, "wb") as f:
                f.write(OLD)
        return d, p

    # dry run: boundaries and the complete new content
    d0, p0 = fresh_dir("dry")
    code, info = run_child(fn, p0, None, None)
    if code == 4 or info is None:
        raise HarnessError(f"dry run of {writer} failed in the harness (exit {code})")
    calls = info["calls"]
    K = len(calls)
    if bad:
        # a formatting failure is itself the fault under test
        s.check(code == 3, f"{tag}/format-error-not-raised", f"{writer}: write with an unusable format returned normally")
        _judge(s, tag + "/format-error", d0, p0, fname, case["existing"], OLD, None, handled=True, fault_in_rmtree=False, what=f"{writer} formatting failure, destination {'pre-existing' if case['existing'] else 'absent'}")
        new = None
    else:
        if code != 0:
            s.fail(f"{tag}/unfaulted-write-raises", f"{writer}: {info}")
            return
        if not os.path.exists(p0):
            s.fail(f"{tag}/unfaulted-write-no-file", f"{writer}: {os.listdir(d0)}")
            return
        new = read_logical(p0)
        s.check(sorted(os.listdir(d0)) == [fname], f"{tag}/unfaulted-write-leftovers", f"{writer}: {os.listdir(d0)}")
    s.cls(f"writer:{writer}", "existing" if case["existing"] else "absent", f"K={min(K, 40)}")
    evals = 1
    # the commit point: first rename/replace of the run
    commit = next((i for i, (nm, _) in enumerate(calls) if nm in ("rename", "replace")), None)
    for k in range(K):
        name_k, rm_k = calls[k]
        for kind in ("raise", "kill"):
            d, p = fresh_dir(f"{k}{kind}")
            code, info2 = run_child(fn, p, k, kind)
            evals += 1
            what = f"{writer} seed {case['seed']} destination {'pre-existing' if case['existing'] else 'absent'}: {kind} at boundary {k}/{K} ({name_k}{' in rmtree' if rm_k else ''}); calls {[c[0] for c in calls]}"
            if kind == "kill":
                if code != 137:
                    # the boundary was not reached in this run (nondeterministic call sequence): inconclusive, not a violation
                    s.cls("kill-boundary-not-reached")
                    continue
                _judge(s, f"{tag}/kill@{name_k}", d, p, fname, case["existing"], OLD, new, handled=False, fault_in_rmtree=rm_k, what=what)
            else:
                if code == 4:
                    raise HarnessError(f"child failed in harness: {what}")
                _judge(s, f"{tag}/oserror@{name_k}{'[rmtree]' if rm_k else ''}", d, p, fname, case["existing"], OLD, new, handled=True, fault_in_rmtree=rm_k, what=what + f"; caller saw {info2 and info2['raised']}")
            if case["existing"] and commit is not None and k >= commit - 2:
                s.extra_nontrivial.append(f"{tag}/{k}/{kind}")
            shutil.rmtree(d, ignore_errors=True)
    s.evals = evals
    s.nontrivial = bool(s.extra_nontrivial)


def _judge(s, sig, d, p, fname, existing, OLD, new, handled, fault_in_rmtree, what):
    present = os.path.exists(p)
    if present:
        data = read_logical(p)
        raw_old = open(p, "rb").read() == OLD
        ok = raw_old or (new is not None and data == new)
        if not ok:
            s.fail(sig + "/destination-partial-or-foreign", f"{what}: destination holds {data[:60]!r}… (neither the old nor the complete new content)")
        if not existing and raw_old:
            s.fail(sig + "/destination-appeared", what)
    else:
        if existing:
            s.fail(sig + "/destination-lost", f"{what}: the pre-existing destination is gone; directory: {sorted(os.listdir(d))}")
    if handled and not fault_in_rmtree:
        extra = sorted(x for x in os.listdir(d) if x != fname)
        if extra:
            s.fail(sig + "/temporary-left-behind", f"{what}: directory also holds {extra}")


@st.composite
def fault_cases(draw):
    writer = draw(st.sampled_from(WRITERS))
    bad = writer in CAN_FAIL_FORMAT and draw(st.integers(0, 5)) == 0
    return {"writer": writer, "seed": draw(st.integers(0, 10_000)), "existing": draw(st.booleans()), "bad_format": bad}


def enum_fault_cases(tier):
    out = []
    for w in WRITERS:
        for ex in (False, True):
            out.append({"writer": w, "seed": 7, "existing": ex, "bad_format": False})
    for w in sorted(CAN_FAIL_FORMAT):
        for ex in (False, True):
            out.append({"writer": w, "seed": 7, "existing": ex, "bad_format": True})
    return out


# ------------------------------------------------------------------- resume
@st.composite
def resume_cases(draw):
    n = draw(st.integers(2, 8))
    short = draw(st.lists(st.booleans(), min_size=n, max_size=n))
    return {"store": draw(st.sampled_from(["dir", "sqlite"])), "n": n, "short": short, "seed": draw(st.integers(0, 999))}


def _make_inputs(root, case):
    import random

    rnd = random.Random(case["seed"])
    ind = os.path.join(root, "inputs")
    os.makedirs(ind)
    for i in range(case["n"]):
        L = 5 if case["short"][i] else 30
        with open(os.path.join(ind, f"in{i}.fasta"), "w") as f:
            for nm in ("a", "b"):
                f.write(f">{nm}\n{''.join(rnd.choice('ACGT') for _ in range(L))}\n")
    return ind


def _build_app(out):
    from cogent3 import get_app

    loader = get_app("load_unaligned", moltype="dna", format="fasta") + get_app("min_length", length=10)
    if type(out).__name__ == "DataStoreSqlite":
        return loader + get_app("write_db", data_store=out)  # the writer documented for sqlite stores
    return loader + get_app("write_seqs", data_store=out, format="fasta")


def _open_out(root, case, mode):
    from cogent3 import open_data_store

    if case["store"] == "dir":
        return open_data_store(os.path.join(root, "out"), suffix="fasta", mode=mode)
    return open_data_store(os.path.join(root, "out.sqlitedb"), mode=mode)


def _store_state(out):
    comp = {str(m.unique_id): m.read() for m in out.completed}
    nc = sorted(os.path.basename(str(m.unique_id)) for m in out.not_completed)
    return comp, nc


def _run_apply(root, case, die_at):
    """runs apply_to in a forked child; the child dies at the start of the (die_at+1)-th store write"""
    pid = os.fork()
    if pid == 0:
        code = 4
        try:
            from cogent3 import open_data_store

            ins = open_data_store(os.path.join(root, "inputs"), suffix="fasta", mode="r")
            out = _open_out(root, case, "w" if die_at is None or not os.path.exists(os.path.join(root, "started")) else "a")
            open(os.path.join(root, "started"), "w").close()
            count = [0]
            for meth in ("write", "write_not_completed"):
                orig = getattr(out, meth)

                def hooked(*a, _orig=orig, **kw):
                    if die_at is not None and count[0] == die_at:
                        os._exit(137)
                    count[0] += 1
                    return _orig(*a, **kw)

                setattr(out, meth, hooked)
            app = _build_app(out)
            app.apply_to(ins, show_progress=False, logger=False)
            if hasattr(out, "unlock"):
                out.unlock(force=True)
            if hasattr(out, "close"):
                out.close()
            code = 0
        except BaseException:  # noqa: BLE001
            import traceback

            with open(os.path.join(root, "child-error.txt"), "w") as f:
                f.write(traceback.format_exc())
            code = 3
        finally:
            os._exit(code)
    _, st_ = os.waitpid(pid, 0)
    return os.waitstatus_to_exitcode(st_)


def exec_resume(case) -> Soft:
    s = Soft("C19/resume/")
    os.makedirs(SCRATCH, exist_ok=True)
    top = tempfile.mkdtemp(prefix="c19r.", dir=SCRATCH)
    try:
        _resume(s, case, top)
    finally:
        shutil.rmtree(top, ignore_errors=True)
    return s


def _resume(s, case, top):
    n = case["n"]
    store = case["store"]
    # reference: uninterrupted run
    ref_root = os.path.join(top, "ref")
    os.makedirs(ref_root)
    _make_inputs(ref_root, case)
    code = _run_apply(ref_root, case, None)
    if code != 0:
        err = open(os.path.join(ref_root, "child-error.txt")).read() if os.path.exists(os.path.join(ref_root, "child-error.txt")) else ""
        s.fail(f"{store}/uninterrupted-run-failed", f"exit {code}: {err[-400:]}")
        return
    out = _open_out(ref_root, case, "r")
    want = _store_state(out)
    if hasattr(out, "close"):
        out.close()
    s.cls(f"store:{store}", f"n={n}")
    evals = 1
    for j in range(n):
        root = os.path.join(top, f"j{j}")
        os.makedirs(root)
        _make_inputs(root, case)
        code = _run_apply(root, case, j)
        if code != 137:
            s.fail(f"{store}/interrupt-not-reached", f"prefix {j} of {n}: child exit {code}")
            continue
        # state left by the dead process
        try:
            mid_out = _open_out(root, case, "r")
            mid = _store_state(mid_out)
            if hasattr(mid_out, "close"):
                mid_out.close()
        except Exception as e:  # noqa: BLE001
            s.fail(f"{store}/store-unreadable-after-kill", f"prefix {j}: {type(e).__name__}: {e}")
            continue
        # resume in append mode with a fresh app; record which identifiers are written
        written_path = os.path.join(root, "resumed-writes.txt")
        pid = os.fork()
        if pid == 0:
            code = 4
            try:
                from cogent3 import open_data_store

                ins = open_data_store(os.path.join(root, "inputs"), suffix="fasta", mode="r")
                out2 = _open_out(root, case, "a")
                for meth in ("write", "write_not_completed"):
                    orig = getattr(out2, meth)

                    def hooked(*a, _orig=orig, _m=meth, **kw):
                        with open(written_path, "a") as f:
                            f.write(f"{_m}\t{kw.get('unique_id')}\n")
                        return _orig(*a, **kw)

                    setattr(out2, meth, hooked)
                _build_app(out2).apply_to(ins, show_progress=False, logger=False)
                if hasattr(out2, "unlock"):
                    out2.unlock(force=True)
                if hasattr(out2, "close"):
                    out2.close()
                code = 0
            except BaseException:  # noqa: BLE001
                import traceback

                with open(os.path.join(root, "child-error.txt"), "w") as f:
                    f.write(traceback.format_exc())
                code = 3
            finally:
                os._exit(code)
        _, st_ = os.waitpid(pid, 0)
        code = os.waitstatus_to_exitcode(st_)
        evals += 1
        what = f"{store} store, {n} inputs (short: {case['short']}), killed at the start of store write {j + 1}"
        if code != 0:
            err = open(os.path.join(root, "child-error.txt")).read() if os.path.exists(os.path.join(root, "child-error.txt")) else ""
            s.fail(f"{store}/resume-raises", f"{what}: resumed apply_to failed: {err[-500:]}")
            continue
        out3 = _open_out(root, case, "r")
        got = _store_state(out3)
        if hasattr(out3, "close"):
            out3.close()
        s.eq(sorted(got[0]), sorted(want[0]), f"{store}/resume/completed-membership", what)
        s.check(all(got[0].get(k) == v for k, v in want[0].items()), f"{store}/resume/completed-content", what)
        s.eq(got[1], want[1], f"{store}/resume/not-completed-membership", what)
        rewritten = []
        if os.path.exists(written_path):
            for line in open(written_path):
                meth, uid = line.rstrip("\n").split("\t")
                stem = os.path.basename(uid).replace(".fasta", "")
                if any(os.path.basename(k).replace(".fasta", "") == stem for k in mid[0]):
                    rewritten.append(uid)
        s.check(not rewritten, f"{store}/resume/completed-processed-again", f"{what}: records already completed were written again: {rewritten}")
        if mid[0] and len(mid[0]) < len(want[0]):
            s.extra_nontrivial.append(f"{store}/{n}/{j}/{case['short']}")
    s.evals = evals
    s.nontrivial = bool(s.extra_nontrivial)


SUBS = [
    Sub("faults_all_writers", exec_faults, enumerate=enum_fault_cases, exhaustive=True),
    Sub("faults", exec_faults, strategy=fault_cases(), quick=48, thorough=4000, shards_quick=16),
    Sub("resume", exec_resume, strategy=resume_cases(), quick=24, thorough=1600, shards_quick=12),
]

KNOWN_PREDICATES = {}

META = {
    "technique": "exhaustive fault enumeration: every file-system call boundary of every writer, discovered by a profiled dry run, is faulted (OSError raised / process killed in a forked child); every prefix of an apply_to run is killed and resumed; contents generated by Hypothesis",
    "level_text": "For each of 23 writer/format combinations, with the destination absent and pre-existing, every C-level file-system call made during the write (typically 12-40) is turned into a raised OSError and into real process death, and the directory is inspected from the parent: old-or-new destination, no temporaries after handled failures. Formatting failures are injected through unusable formats. apply_to runs over 2-8 inputs into both store kinds are killed before every store write and resumed in append mode.",
    "level_note": "Boundaries are those visible to sys.setprofile as C calls (posix.*, _io.open, io object write/flush/close); faults inside C code that makes several system calls (e.g. one BufferedWriter.flush) are one boundary. Power-loss durability is out of scope.",
    "design_ref": "DESIGN.md section 1, C19",
}
