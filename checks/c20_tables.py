"""C20 — tables follow the list-of-rows model and survive delimited round trips.

Oracle: the harness keeps every table as a header (list of str) plus a list of
row lists of plain Python values and re-implements each relational operation
on that representation (stable multi-pass ``list.sort``, list comprehensions,
``collections.Counter``, nested-loop joins, ``zip``).  The same operations are
also asked of the table built with ``index_name=`` (model: the index column is
reported first; what is documented about the result's index is asserted, see
ASSUMPTIONS).  Real tables are observed
through ``header``, ``shape``, ``columns[c].tolist()``, ``to_list()`` and
``array``.  Round trips write a real file and read it back with
``load_table`` / ``load_delimited``; expectations are stated on cell text and
numeric value only.
"""

from __future__ import annotations

import collections
import itertools
import os
import shutil
import tempfile

from hypothesis import strategies as st

from vlib.core import Soft, Sub

PROPERTY_ID = "C20"
LEVEL = "exploration"
RULE = (
    "ops: a case is a generated table (1-6 columns of kinds int, float, bool, string key, integer key, unique id, text; 0-8 rows; "
    "optional missing values (None) in int/float/text columns; column names incl. blanks, delimiters and quotes; optional index column), "
    "a second table holding its key columns, some under a different name, optionally an id column of the same value type and its own "
    "index (0-6 rows, for joins), a third table with the same columns in any order where an int column may be float and vice versa "
    "(0-4 rows, for appending) and 3 operations with generated arguments out of sorted, filtered, count, count_unique, distinct_values, "
    "filtered_by_column, inner_join/joined, cross_join, appended, transposed, get_columns/[rows, columns], to_list(columns), "
    "with_new_column, with_new_header, to_dict/columns.to_dict/array. Joins are asked as natural join, with columns_self and "
    "columns_other given as names or as positions (list or bare value, names differing between the tables), with only one of the two "
    "given, and with neither (join on the two index columns; ValueError unless both tables have one). Every operation except "
    "to_list(columns) and the dict/array observers is also run on the table built with index_name=. Every result is compared (header, "
    "shape, rows, to_list) with the same operation on the list of rows, a result's index_name must be readable and, when set, name the "
    "first column with unique values (dropped after cross_join, transposed and selections without the index column, kept by get_columns "
    "and selections with it), and the receiver is re-observed to be unchanged. roundtrip: a generated table (text cells over letters, digits, blank, comma, tab, both "
    "quotes, '|', ';', line feed and carriage return, plus empty, blank-edged and literal-looking cells and digit strings longer than an int64; int cells up to 1e12 "
    "and a few beyond the int64 range) is written with Table.write as tsv, csv, tsv.gz, csv.gz, csv.bz2, tsv.bz2, "
    "txt with sep ';' or '|', json, pickle and loaded with load_table, and rendered with to_csv/to_tsv and parsed with load_delimited; per case one further "
    "way of calling Table.write is exercised: writer=separator_formatter(sep), compress=True (tsv, csv, json, pickle: the .gz file must exist, be gzip data and load), "
    "pickle.gz/json.gz by suffix, format= on a name without suffix (csv, tsv, json, pickle), sep= alone on a name without suffix and on a .tsv name. "
    "chain: tables as for ops; a first operation (inner_join, cross_join, appended, transposed, filtered, sorted; on the plain or the indexed table) is compared "
    "with the model, then its result is the receiver of two further generated operations (any of the ops list, each compared with the model of that operation "
    "applied to the model of the intermediate result, which is re-observed afterwards) and is written and loaded in two of tsv, csv, tsv.gz, csv.bz2, txt+sep, json, pickle. "
    "Non-trivial (ops) = at least 2 rows, a duplicated key value, at least two column kinds and at least one operation evaluated; "
    "non-trivial (roundtrip) = a text cell containing a delimiter, quote or line break character, or at least 2 rows with a numeric and a text column; "
    "non-trivial (chain) = an intermediate result of at least 2 rows and 2 columns that went through at least two further steps. "
    "Distinct = distinct case encodings."
)
ASSUMPTIONS = [
    "column names are unique, non-empty and carry no leading/trailing blanks (Columns strips names) and no line breaks; cells of the ops and chain sub-checks hold no line breaks; all text is ASCII",
    "floats are finite (no nan/inf); integers of the ops and chain sub-checks fit easily in int64; numeric cells are compared by value with ==, bool/number/str/None classes must agree (an int column appended to a float column may come back as float of equal value)",
    "round trip, line breaks: text cells may hold line feeds and carriage returns ('\\n', '\\r', '\\r\\n', anywhere in the cell); they are cell text like any other (the statement singles out cells that need quoting; the csv module, which the writer and reader use, quotes them) and must come back unchanged through Table.write + load_table and to_csv/to_tsv + load_delimited; failures of tables holding a carriage return carry the tag [cell-with-cr]",
    "round trip, integers beyond int64: an int column may hold values outside [-2**63, 2**63) (make_table must hold them as integers, not as floats: checked under make_table[int-beyond-int64]); written as digits they must load as numbers of exactly that value (int, or float only when the float equals the integer); tables holding such integers or digit strings carry the tag [integer-beyond-int64] in the delimited signatures",
    "round trip, text column that is all digits: the library casts such a column to numbers by design (cast_str_to_array: int, else float, else complex, pinned by test_cast_str_to_array), so 'same cell' means: the loaded value is a number that Python's int()/float() reads from the written text ('00000000000000000000001' -> 1, a 30-digit string -> that integer or the float float() gives for it), or the text itself; loading must never raise whatever the length of the digit string",
    "sort keys are columns without missing values; reverse columns are a subset of the sort columns (or given alone); sorting is asked only of tables with at least one row; ties are expected in original order (stable), reported under its own signature",
    "filter/count callbacks return genuine bool; ordering comparisons are only made on columns without missing values; string expressions are used only when all column names are identifiers",
    "the key columns of the two joined tables have the same kind (and value type for id columns); a key column may have another name in the second table; non-key column names of the second table do not collide with the first table's names or the prefix",
    "inner_join result (docstring, tests/test_util/test_table.py::test_inner_join_col_naming, test_joined_diff_indexing): header = the receiver's header followed by the other table's columns that are not in columns_other, each with col_prefix prepended, in the other table's order; one row per pair (receiver row, other row) with equal key tuples, receiver order first, then other order; columns given as int are positions in the header of the table they are given for (an index column is reported first); the position 0 given as a bare int is a column index like any other",
    "inner_join with only one of columns_self/columns_other: the same column labels are used for both tables (source comment, doc/cookbook/tables.rst joined(columns_self=...)); it is asked only with key columns named alike in both tables, and as positions only where these name the same columns in both tables",
    "inner_join without key columns and use_index=True (default) joins on the two index columns when both tables have one (docstring); otherwise it must refuse with ValueError",
    "index column (Table docstring: 'row identifiers ... All column values must be unique'; Columns.order: reported first): whether sorted, filtered, inner_join, appended, with_new_column, with_new_header, filtered_by_column keep the index is not documented and not asserted, only that index_name of the result can be read and, if set, names the first column and its values are unique; cross_join and transposed drop it (source comments, test_transposed), get_columns keeps it unless with_index=False, a [rows, columns] selection keeps it exactly when the index column is selected; index_name of a result is read before its header (a table filled after construction moves the index column to the front only then)",
    "row slices of an indexed table are asked only when the index values are text: with integer index values a slice bound is looked up as a label first (DictArrayTemplate.interpret_index), so a row number is ambiguous",
    "appended: tables may list the same columns in any order; the result follows the receiver's column order and cells are matched by column name; an int column appended to a float column (or the reverse) is compared by value",
    "transposed(): the column used as header must have unique values (otherwise the documented ValueError is the expected outcome); it is asked only when the stringified values are unique, non-blank and differ from the new column name",
    "column selection (get_columns, [:, columns]) and row slices are asked only of tables with at least one row: Table.__getitem__ deliberately leaves out columns that hold no data, so a zero-row selection has no header to compare",
    "to_list(columns) and the dict/array observers are run on tables without an index column (to_list(columns) of an indexed table goes through get_columns and so includes the index column; what it should return is not documented)",
    "delimited round trip, text column: a loaded cell must be the written text; a loaded non-str value is accepted when Python's int/float/complex parser or the literals True/False/None read the written text as that value (type inference of a delimited file; e.g. a column of '12','7' may come back as int, 'j' as 1j)",
    "delimited round trip, text column holding non-numeric cells: a cell whose whole text is one Python literal is legitimately read as that literal ('1,2' -> (1, 2), '()' -> (), a fully quoted cell such as '\"x\"' -> 'x'); this inference is pinned by tests/test_util/test_table.py::test_cast_str_to_array, so such cells are compared with ast.literal_eval of the text. Text that is not a literal (names, operators, calls) must come back as written",
    "delimited round trip: a missing value (None) is written as an empty cell and may come back as '' or None; numeric cells must come back as int/float of equal value, bool cells as bool; leading/trailing blanks of cells must survive (csv module semantics)",
    "title and legend are written by Table.write as extra first/last rows and are read back by passing with_title/with_legend; their own text is not asserted (the statement covers header and cells)",
    "to_csv/to_tsv are display formats honouring Table digits: float cells are compared to 0.5e-4 absolute (relative 1e-12 for large values), None cells are not compared",
    "write(format) is exercised for the documented suffixes tsv, csv, txt(+sep), json, pickle and the compression suffixes gz, bz2; the 'pkl' suffix is only a reader alias and is not written",
    "write(compress=True) (docstring: 'gzips the file and appends .gz to the filename (if not already added)'): the file name + '.gz' must exist and start with the gzip magic, the uncompressed name must not be left behind, and load_table of the .gz file returns the table; asked for tsv, csv, json and pickle (the docstring makes no exception for a format)",
    "write(format=...) on a name without suffix (docstring: 'Will try and guess from filename if not specified'): csv/tsv are read back with load_table(path, sep=...), json/pickle through a copy of the file that carries the suffix (load_table picks the reader by suffix); write(sep=...) alone overrides the separator a suffix implies ('a character delimiter for fields')",
    "write(writer=...) (docstring: 'a function for formatting the data for output'): the writers the library offers are made by format.table.separator_formatter ('Returns a writer for a delimited tabular file. The writer has a has_header argument ... Default format is string. Does not currently handle Titles or Legends'); expected file = header line and one line per row, cells as str() joined by sep; asked only of tables with at least two columns whose text holds no quote or line break and leaves one of ',', tab, ';', '|' unused (the formatter does no quoting); None cells are not compared",
    "chain: the model of an intermediate result is the model of the first operation; whether the result keeps an index is read from the result (where documented it is asserted first) and the model lists the index column first accordingly; title and legend of the intermediate result are read from it (they decide with_title/with_legend on loading and the text of an appended source column); the table appended in a chain holds, per column, the receiver's kind of number and type of id (a mixed int/float column would leave open whether a cell prints as 5 or 5.0 in a later transposition: the unspecified corner of values that are equal but print differently); a first-step transposed is asked of tables with an id column and 1-3 further columns of one kind",
    "sorting is stable (the statement's list-of-rows model: list.sort keeps ties in order; why_tests_cant: 'stable multi-key sorting'); ties of tables with more than 16 rows are reported under sorted/tie-order[more-than-16-rows]",
]

SCRATCH = os.path.join(os.path.dirname(os.path.dirname(os.path.abspath(__file__))), ".scratch")

ID_NAMES = ["a", "b1", "val", "n", "x", "y2", "score", "tag"]
ODD_NAMES = ["b c", "x,y", 'q"r', "t\tab", "it's", "p|q", "s;t", "#h", "1st", "A B,C"]
KEY_S = ["k", "key id"]
KEY_I = ["g", "grp,2"]
UID = ["id", "row id"]
EXTRA = ["v", "w2", "w x", 'z"q', "u,v"]
TEXT_ALPHABET = "abXY01 ,\t\"'|;"
TEXT_TOKENS = [
    "", "", " ", "True", "None", "12", "1e5", "j", "nan", "0012", '"', "''", '"x"', "a,b", "1,2", 'say "hi"', "it's", " lead",
    "trail ", "\t", "id", "N/A", "-", "#c", "a\tb", "x;y", "p|q", ',"', '",', "a, b", "'q", "1|2", "abs", "1/0",
]
# round trip only: digit strings and integers beyond the int64 range, cells holding line breaks
RT_TOKENS = [
    "123456789012345678901234567890", "00000000000000000000001", "9223372036854775808", "-9223372036854775809", "18446744073709551616",
    "123456789012345678901234567890", "00000000000000000000001", "a\nb", "cr\rhere", "x\r\ny", "\n", "\r", "\r\n", "end\n", "end\r", "\nstart", "two\n\nbreaks", "a,\nb",
    '"\n', "1\n", "a\tb\rc",
]
BIG_INTS = [2**63, 2**63 + 1, 2**64, 2**64 + 1, -(2**63) - 1, 10**30, 2**63 - 1, -(2**63), 123456789012345678901234567890]
INT64 = (-(2**63), 2**63 - 1)
NICE_FLOATS = [0.0, 0.5, -1.0, 2.5, 1e-7, -2.5e10, 1e22, 0.1, 3.0, 1234.5678, -0.25, 1.5e-300, 6.02e23, 1.0]
KEY_S_VALUES = ["a", "b", "c", "ab", "B"]


# ------------------------------------------------------------- generators
def _cell(kind, rt=False):
    """rt: cells of the round trip sub-check (long digit strings, integers beyond int64, line breaks in text)"""
    if kind == "int" and rt:
        return st.one_of(st.integers(-5, 5), st.integers(-10**12, 10**12), st.integers(-5, 5), st.sampled_from(BIG_INTS))
    if kind == "text" and rt:
        return st.one_of(
            st.sampled_from(TEXT_TOKENS),
            st.text(alphabet=TEXT_ALPHABET, min_size=0, max_size=6),
            st.sampled_from(TEXT_TOKENS),
            st.text(alphabet=TEXT_ALPHABET, min_size=0, max_size=6),
            st.sampled_from(RT_TOKENS),
            st.text(alphabet=TEXT_ALPHABET + "\n\r", min_size=1, max_size=6),
        )
    if kind == "int":
        return st.one_of(st.integers(-5, 5), st.integers(-10**12, 10**12))
    if kind == "float":
        return st.one_of(st.sampled_from(NICE_FLOATS), st.floats(-1e6, 1e6, allow_nan=False, allow_infinity=False, width=64))
    if kind == "bool":
        return st.booleans()
    if kind == "ks":
        return st.sampled_from(KEY_S_VALUES)
    if kind == "ki":
        return st.integers(1, 3)
    if kind == "text":
        return st.one_of(st.sampled_from(TEXT_TOKENS), st.text(alphabet=TEXT_ALPHABET, min_size=0, max_size=6))
    raise ValueError(kind)


@st.composite
def _column(draw, kind, n, allow_missing, uid_prefix="r", rt=False):
    if kind == "uid":
        perm = draw(st.permutations(list(range(n)))) if n else []
        if draw(st.booleans()):
            return [f"{uid_prefix}{i}" for i in perm]
        off = draw(st.sampled_from([0, 1, 100]))
        return [i + off for i in perm]
    vals = draw(st.lists(_cell(kind, rt), min_size=n, max_size=n))
    if allow_missing and kind in ("int", "float", "text") and n and draw(st.integers(0, 3)) == 0:
        mask = draw(st.lists(st.integers(0, 2), min_size=n, max_size=n))
        vals = [None if m == 0 else v for v, m in zip(vals, mask)]
    return vals


def _rows(cols, n):
    return [[c[i] for c in cols] for i in range(n)]


@st.composite
def table_st(draw, max_rows=8, allow_missing=True, with_keys=True, min_rows=0, uid_weight=4, rt=False):
    plain = draw(st.booleans())
    free_names = list(draw(st.permutations(ID_NAMES if plain else ID_NAMES[:4] + ODD_NAMES)))
    spec = []  # (name, kind)
    if with_keys:
        if draw(st.integers(0, 9)) < 6:
            spec.append((KEY_S[0] if plain else draw(st.sampled_from(KEY_S)), "ks"))
        if draw(st.integers(0, 9)) < 4:
            spec.append((KEY_I[0] if plain else draw(st.sampled_from(KEY_I)), "ki"))
    if draw(st.integers(0, 9)) < uid_weight:
        spec.append((UID[0] if plain else draw(st.sampled_from(UID)), "uid"))
    nfree = draw(st.integers(0 if spec else 1, 3))
    for i in range(nfree):
        spec.append((free_names[i], draw(st.sampled_from(["int", "float", "bool", "text", "text"]))))
    spec = list(draw(st.permutations(spec)))
    n = draw(st.sampled_from([0, 1, 2, 3, 3, 4, 4, 5, 6, 7, 8]))
    n = max(min_rows, min(n, max_rows))
    cols = [draw(_column(k, n, allow_missing, rt=rt)) for _, k in spec]
    return {"header": [nm for nm, _ in spec], "kinds": [k for _, k in spec], "rows": _rows(cols, n)}


def _uid_column(t):
    for ci, k in enumerate(t["kinds"]):
        if k == "uid":
            return [r[ci] for r in t["rows"]]
    return None


@st.composite
def op_cases(draw, first=None):
    t = draw(table_st(uid_weight=6) if first is None else first)
    # second table: the key columns of the first (some under a different name), plus extras,
    # optionally a unique id column of the same value type as the first table's (usable as index)
    keys = [(nm, k) for nm, k in zip(t["header"], t["kinds"]) if k in ("ks", "ki")]
    spec, pairs = [], []
    for nm, k in keys:
        other = nm + "2" if draw(st.integers(0, 3)) == 0 else nm
        spec.append((other, k))
        pairs.append([nm, other])
    if not spec:
        spec = [("k", "ks")]
    extras = list(draw(st.permutations(EXTRA)))
    for i in range(draw(st.integers(0, 2))):
        spec.append((extras[i], draw(st.sampled_from(["int", "text", "float", "ki"]))))
    t_uid = _uid_column(t)
    j_uid = None
    if draw(st.integers(0, 9)) < (8 if t_uid is not None else 2):
        j_uid = draw(st.sampled_from(["jid", "j id"]))
        spec.append((j_uid, "uid"))
    spec = list(draw(st.permutations(spec)))
    n2 = draw(st.integers(0, 6))
    cols = []
    for _, k in spec:
        if k != "uid":
            cols.append(draw(_column(k, n2, True)))
            continue
        # same value type as the first table's ids, shifted so that the two id sets overlap partly
        perm = draw(st.permutations(list(range(n2)))) if n2 else []
        shift = draw(st.sampled_from([0, 0, 1, 2]))
        as_text = isinstance(t_uid[0], str) if t_uid else draw(st.booleans())
        off = 0 if as_text or not t_uid else min(t_uid)
        cols.append([f"r{i + shift}" if as_text else i + off + shift for i in perm])
    j = {"header": [nm for nm, _ in spec], "kinds": [k for _, k in spec], "rows": _rows(cols, n2), "title": "U"}
    if t_uid is not None and j_uid is not None:
        t_uid_name = t["header"][t["kinds"].index("uid")]
        pairs.append([t_uid_name, j_uid])
    j["keys"] = pairs
    j["index"] = draw(st.integers(0, 3)) > 0  # honoured when the table has an id column and at least one row
    # third table: the same columns as the first, in any order; an int column may be float there and vice versa
    n3 = draw(st.integers(0, 4))
    swap = {"int": "float", "float": "int"}
    pk = [swap[k] if k in swap and draw(st.integers(0, 3)) == 0 else k for k in t["kinds"]]
    cols = [draw(_column(k, n3, True, uid_prefix="s")) for k in pk]
    order = list(draw(st.permutations(list(range(len(pk)))))) if draw(st.booleans()) else list(range(len(pk)))
    p = {
        "header": [t["header"][i] for i in order],
        "kinds": [pk[i] for i in order],
        "rows": _rows([cols[i] for i in order], n3),
        "title": draw(st.sampled_from(["second", "t 2", ""])),
    }
    t["title"] = draw(st.sampled_from(["", "", "first"]))
    ops = []
    for _ in range(3):
        ops.append(
            {
                "op": draw(st.sampled_from(OPS)),
                "a": draw(st.integers(0, 10**6)),
                "b": draw(st.integers(0, 10**6)),
                "c": draw(st.integers(0, 10**6)),
                "f1": draw(st.booleans()),
                "f2": draw(st.booleans()),
                "ix": draw(st.integers(0, 2)) > 0,  # run this operation on the table built with index_name= (when it has an id column and rows)
            }
        )
    t["index"] = draw(st.integers(0, 3)) > 0  # honoured only when an id (uid) column exists and the table has rows
    return {"t": t, "j": j, "p": p, "ops": ops}


@st.composite
def rt_cases(draw):
    t = draw(table_st(with_keys=draw(st.booleans()), rt=True))
    t["title"] = draw(st.sampled_from(["", "", "", "My title", "A, B"]))
    t["legend"] = draw(st.sampled_from(["", "", "", "some legend", "x;y, z"]))
    t["index"] = draw(st.integers(0, 3)) == 0
    # "wv": which of the other ways of calling Table.write is exercised (see WRITE_VARIANTS)
    return {"t": t, "sep": draw(st.sampled_from([";", "|"])), "wv": draw(st.integers(0, len(WRITE_VARIANTS) - 1))}


# other ways of calling Table.write (one per case): (label, file name, keyword arguments, name of the file that must exist,
# suffix to give a copy of the file so that load_table recognises it, strict comparison)
WRITE_VARIANTS = [
    ("writer", None, None, None, None, None),  # writer=separator_formatter(sep), see _write_with_writer
    ("compress=True", "c.tsv", {"compress": True}, "c.tsv.gz", None, False),
    ("compress=True", "c.csv", {"compress": True}, "c.csv.gz", None, False),
    ("compress=True+json", "c.json", {"compress": True}, "c.json.gz", None, True),
    ("compressed-pickle", "c.pickle", {"compress": True}, "c.pickle.gz", None, True),
    ("compressed-pickle", "d.pickle.gz", {}, "d.pickle.gz", None, True),
    ("json.gz", "d.json.gz", {}, "d.json.gz", None, True),
    ("format=", "plain_csv", {"format": "csv"}, "plain_csv", ",", False),
    ("format=", "plain_tsv", {"format": "tsv"}, "plain_tsv", "\t", False),
    ("format=", "plain_json", {"format": "json"}, "plain_json", ".json", True),
    ("format=", "plain_pickle", {"format": "pickle"}, "plain_pickle", ".pickle", True),
    ("sep=", "plain_sep", {"sep": "SEP"}, "plain_sep", "SEP", False),
    ("sep=", "named.tsv", {"sep": "SEP"}, "named.tsv", "SEP", False),
    ("writer", None, None, None, None, None),
]


FIRST_OPS = ["inner_join", "inner_join", "appended", "appended", "transposed", "transposed", "filtered", "filtered", "cross_join", "sorted"]
SAME_KIND = ["int", "float", "text", "bool", "ks", "ki"]


@st.composite
def transposable_st(draw):
    """a table whose transpose has columns of one kind: a unique id column plus 1-3 columns of the same kind"""
    plain = draw(st.booleans())
    names = list(draw(st.permutations(ID_NAMES if plain else ID_NAMES[:3] + ODD_NAMES)))
    kind = draw(st.sampled_from(SAME_KIND))
    spec = [(UID[0] if plain else draw(st.sampled_from(UID)), "uid")] + [(names[i], kind) for i in range(draw(st.integers(1, 3)))]
    spec = list(draw(st.permutations(spec)))
    n = draw(st.integers(1, 5))
    cols = [draw(_column(k, n, True)) for _, k in spec]
    return {"header": [nm for nm, _ in spec], "kinds": [k for _, k in spec], "rows": _rows(cols, n)}


@st.composite
def chain_cases(draw):
    """tables as for the ops sub-check; ops[0] is the first operation, ops[1:] are each applied to its result"""
    first = draw(st.sampled_from(FIRST_OPS))
    case = draw(op_cases(first=transposable_st() if first == "transposed" else table_st(uid_weight=6, max_rows=6)))
    case["ops"][0]["op"] = first
    case["formats"] = list(draw(st.permutations(CHAIN_FORMATS)))[:2]
    case["sep"] = draw(st.sampled_from([";", "|"]))
    return case


CHAIN_FORMATS = ["t.tsv", "t.csv", "t.tsv.gz", "t.csv.bz2", "t.txt", "json", "pickle"]

OPS = (
    ["sorted"] * 5
    + ["filtered"] * 3
    + ["count", "count_unique", "count_unique", "distinct_values", "distinct_values", "filtered_by_column"]
    + ["inner_join"] * 4
    + ["cross_join"] * 2
    + ["appended"] * 3
    + ["transposed"] * 2
    + ["get_columns"] * 2
    + ["slice", "to_list", "with_new_column", "with_new_column", "with_new_header", "observers"]
)


# ------------------------------------------------------------------ model
def norm(v):
    """cell -> (class, value); numpy scalars become python values"""
    item = getattr(v, "item", None)
    if item is not None and not isinstance(v, (str, bytes, int, float, bool)):
        try:
            v = item()
        except Exception:  # noqa: BLE001
            pass
    if isinstance(v, bool):
        return ("b", v)
    if isinstance(v, (int, float)):
        return ("n", v)
    if v is None:
        return ("none",)
    if isinstance(v, str):
        return ("s", str(v))
    if isinstance(v, (tuple, list)):
        return ("seq", tuple(norm(e) for e in v))
    return ("other", repr(v))


def norm_rows(rows):
    return [[norm(v) for v in r] for r in rows]


def is_ident(name):
    import keyword

    return name.isidentifier() and not keyword.iskeyword(name)


def make_real(tab, with_index=False, **kw):
    from cogent3 import make_table

    rows = [list(r) for r in tab["rows"]]
    index_name = index_of(tab) if with_index else None
    return make_table(header=list(tab["header"]), data=rows, title=tab.get("title", ""), legend=tab.get("legend", ""), index_name=index_name, **kw)


def index_of(tab):
    if not tab.get("index") or not tab["rows"]:
        return None
    for nm, k in zip(tab["header"], tab["kinds"]):
        if k == "uid":
            return nm
    return None


def model_header(tab, with_index=False):
    """header as the table reports it: an index column comes first"""
    h = list(tab["header"])
    ix = index_of(tab) if with_index else None
    if ix is not None:
        h = [ix] + [c for c in h if c != ix]
    return h


def model_rows(tab, with_index=False):
    h0 = list(tab["header"])
    h = model_header(tab, with_index)
    pos = [h0.index(c) for c in h]
    return [[r[i] for i in pos] for r in tab["rows"]]


def observe_rows(table):
    cols = [table.columns[c].tolist() for c in table.header]
    n = table.shape[0]
    return [[col[i] for col in cols] for i in range(n)]


def check_index(s: Soft, sig, table, want, what):
    """what is documented about the index column of a table: reading ``index_name`` works, the named column
    exists, is reported first and holds unique values.  ``want``: "any" (kept or dropped is not specified),
    "dropped", or ("kept", name).  Returns (usable, index_name)"""
    ok, got = s.call(sig + "/index_name", lambda: table.index_name)
    if not ok:
        return False, None
    if want == "dropped":
        s.check(got is None, sig + "/index-not-dropped", f"{what}: index_name {got!r}")
    elif want != "any":
        s.eq(got, want[1], sig + "/index-not-kept", f"{what}: index_name")
    if got is None:
        s.cls("result-index:none")
        return True, None
    s.cls("result-index:kept")
    ok, hdr = s.call(sig + "/observe", lambda: list(table.header))
    if not ok:
        return False, got
    if not s.check(got in hdr, sig + "/index-not-a-column", f"{what}: index_name {got!r} header {hdr!r}"):
        return False, got
    s.check(hdr[0] == got, sig + "/index-not-first", f"{what}: index_name {got!r} header {hdr!r}")
    ok, vals = s.call(sig + "/observe", lambda: table.columns[got].tolist())
    if ok:
        s.check(len({norm(v) for v in vals}) == len(vals), sig + "/index-not-unique", f"{what}: index column {got!r} holds {vals!r}")
    return True, got


def compare(s: Soft, sig, table, want_header, want_rows, what, api=True, index="skip"):
    if index != "skip":
        # index_name is read first: a table made with index_name= but filled later only moves that column
        # to the front once the index has been looked at (Columns.order)
        usable, ix = check_index(s, sig, table, index, what)
        if not usable:
            return False
        if ix is not None and ix in want_header and want_header[0] != ix:
            pos = [list(want_header).index(ix)] + [i for i, c in enumerate(want_header) if c != ix]
            want_header = [want_header[i] for i in pos]
            want_rows = [[r[i] for i in pos] for r in want_rows]
    ok, hdr = s.call(sig + "/observe", lambda: list(table.header))
    if not ok:
        return False
    if not s.eq(hdr, list(want_header), sig + "/header", what):
        return False
    ok, got = s.call(sig + "/observe", observe_rows, table)
    if not ok:
        return False
    good = s.eq(norm_rows(got), norm_rows(want_rows), sig + "/rows", what)
    if good:
        ok, shape = s.call(sig + "/observe", lambda: tuple(table.shape))
        if ok:
            s.eq(tuple(shape), (len(want_rows), len(want_header)), sig + "/shape", what)
    if api and good:
        ok, tl = s.call(sig + "/to_list", table.to_list)
        if ok:
            want = [r[0] for r in want_rows] if len(want_header) == 1 else want_rows
            got_tl = [norm(v) for v in tl] if len(want_header) == 1 else norm_rows(tl)
            want_tl = [norm(v) for v in want] if len(want_header) == 1 else norm_rows(want)
            s.eq(got_tl, want_tl, sig + "/to_list", what)
    return good


def indexed_view(tab):
    """the table as reported when built with index_name=: the index column comes first"""
    h0 = list(tab["header"])
    h = model_header(tab, True)
    v = dict(tab)
    v["header"] = h
    v["kinds"] = [tab["kinds"][h0.index(c)] for c in h]
    v["rows"] = model_rows(tab, True)
    v["ix"] = index_of(tab)
    return v


def brief(tab):
    ix = f"index_name={tab['ix']!r} " if tab.get("ix") else ""
    return f"{ix}header={tab['header']!r} rows={tab['rows']!r}"[:500]


# ---- predicates (shared by filtered / count) ---------------------------
CMP = {
    "<": lambda a, b: a < b,
    "<=": lambda a, b: a <= b,
    "==": lambda a, b: a == b,
    "!=": lambda a, b: a != b,
    ">": lambda a, b: a > b,
    ">=": lambda a, b: a >= b,
}


def _clause(tab, a, b, c):
    """(column position, operator, constant) resolved from the abstract choices"""
    ncols = len(tab["header"])
    ci = a % ncols
    col = [r[ci] for r in tab["rows"]]
    kind = tab["kinds"][ci]
    has_none = any(v is None for v in col)
    if kind == "bool" or has_none or not col:
        op = ["==", "!="][b % 2]
    else:
        op = list(CMP)[b % 6]
    pool = [v for v in col if v is not None]
    if pool and c % 4:
        const = pool[c % len(pool)]
    else:
        const = {"int": 0, "float": 0.5, "bool": True, "ks": "b", "ki": 2, "text": "", "uid": "r1"}[kind]
        if kind == "uid" and pool and not isinstance(pool[0], str):
            const = 1
    return ci, op, const


def _pred_fn(clauses, joiner, tolerant=False):
    """tolerant (callbacks handed to the library): values that cannot be compared with the constant (the
    library passed another column's values) count as False instead of raising inside harness code"""

    def one(op, a, b):
        if not tolerant:
            return bool(CMP[op](a, b))
        try:
            return bool(CMP[op](a, b))
        except TypeError:
            return False

    def f(vals):
        res = [one(op, vals[i], const) for i, (_, op, const) in enumerate(clauses)]
        return all(res) if joiner == "and" else any(res)

    return f


def build_predicate(tab, step):
    """returns (description, columns argument, callback, model function on a full row)"""
    clauses = [_clause(tab, step["a"], step["b"], step["c"])]
    if step["f1"] and len(tab["header"]) > 1:
        second = _clause(tab, step["a"] // 7 + 1, step["b"] // 7, step["c"] // 7)
        if second[0] != clauses[0][0]:
            clauses.append(second)
    joiner = "and" if step["c"] % 2 else "or"
    names = [tab["header"][ci] for ci, _, _ in clauses]
    pf_model = _pred_fn(clauses, joiner)
    pf = _pred_fn(clauses, joiner, tolerant=True)

    def model(row):
        return pf_model([row[ci] for ci, _, _ in clauses])

    form = step["b"] % 3
    if form == 2 and all(is_ident(n) for n in tab["header"]):
        expr = f" {joiner} ".join(f"{tab['header'][ci]} {op} {const!r}" for ci, op, const in clauses)
        columns = None if step["f2"] else (names if len(names) > 1 or step["c"] % 2 else names[0])
        return f"expr {expr!r} columns={columns!r}", columns, expr, model
    if form == 0:
        # callable over the whole row
        # (a one-column table hands the bare value to the callback, as documented)
        single = len(tab["header"]) == 1

        def cb(row):
            return pf([row if single else row[ci] for ci, _, _ in clauses])

        return f"callable(row) {clauses!r} {joiner}", None, cb, model
    # callable over named columns: one column -> the bare value
    if len(names) == 1:
        def cb1(v):
            return pf([v])

        columns = names[0] if step["f2"] else [names[0]]
        return f"callable(value) {clauses!r} columns={columns!r}", columns, cb1, model

    def cb2(row):
        return pf([row[0], row[1]])

    return f"callable(row) {clauses!r} {joiner} columns={names!r}", names, cb2, model


# ---------------------------------------------------------------- ops sub
def exec_ops(case) -> Soft:
    s = Soft("C20/")
    t, j, p = case["t"], case["j"], case["p"]
    header, rows, kinds = t["header"], t["rows"], t["kinds"]
    ok, T = s.call("make_table", make_real, t)
    ok2, J = s.call("make_table", make_real, j)
    ok3, P = s.call("make_table", make_real, p)
    if not (ok and ok2 and ok3):
        return s
    if not compare(s, "make_table", T, header, rows, brief(t)):
        return s
    compare(s, "make_table", J, j["header"], j["rows"], brief(j))
    nrows, ncols = len(rows), len(header)
    s.cls("zero-row" if nrows == 0 else "one-row" if nrows == 1 else "rows>=2")
    if any(v is None for r in rows for v in r):
        s.cls("missing")
    dup_key = False
    for ci, k in enumerate(kinds):
        if k in ("ks", "ki"):
            vals = [r[ci] for r in rows]
            if len(set(vals)) < len(vals):
                dup_key = True
    if dup_key:
        s.cls("duplicate-keys")
    # the same table built with index_name= (only when it has an id column and rows)
    TI, tv = None, None
    if index_of(t) is not None:
        tv = indexed_view(t)
        ok, TI = s.call("make_table[index]", make_real, t, True)
        if ok and compare(s, "make_table[index]", TI, tv["header"], tv["rows"], brief(tv), index=("kept", tv["ix"])):
            s.cls("index")
        else:
            TI = None
    done = 0
    for step in case["ops"]:
        fn = globals()["op_" + step["op"]]
        # cases recorded before the "ix" field existed used the index in get_columns and in every second inner_join
        old_rule = step["op"] == "get_columns" or (step["op"] == "inner_join" and step["c"] % 2 == 0)
        use_ix = TI is not None and step["op"] in INDEXED_OPS and step.get("ix", old_rule)
        recv, model = (TI, tv) if use_ix else (T, t)
        ran = fn(s, step, model, j, p, recv, J, P)
        if ran:
            done += 1
            s.cls("op:" + step["op"])
            if use_ix:
                s.cls("indexed:" + step["op"])
            # receivers unchanged
            compare(s, step["op"] + "/receiver-mutated", recv, model["header"], model["rows"], f"receiver after {step['op']}", api=False)
            if step["op"] in ("inner_join", "cross_join"):
                compare(s, step["op"] + "/receiver-mutated", J, j["header"], j["rows"], f"other after {step['op']}", api=False)
    s.evals = max(1, done)
    s.nontrivial = nrows >= 2 and dup_key and len(set(kinds)) >= 2 and done > 0
    return s


# operations that are also run on the table built with index_name=
INDEXED_OPS = {
    "sorted", "filtered", "count", "count_unique", "distinct_values", "filtered_by_column", "inner_join", "cross_join",
    "appended", "transposed", "get_columns", "slice", "with_new_column", "with_new_header",
}


def sortable_columns(tab):
    return [ci for ci in range(len(tab["header"])) if all(r[ci] is not None for r in tab["rows"])]


def op_sorted(s, step, t, j, p, T, J, P):
    header, rows, kinds = t["header"], t["rows"], t["kinds"]
    if not rows:
        return False
    cand = sortable_columns(t)
    if not cand:
        return False
    a, b, c = step["a"], step["b"], step["c"]
    whole = step["f1"] and len(cand) == len(header) and a % 4 == 0
    if whole:
        cols = list(range(len(header)))
    else:
        k = 1 + a % min(3, len(cand))
        rot = b % len(cand)
        cols = (cand[rot:] + cand[:rot])[:k]
    rev = [ci for n, ci in enumerate(cols) if (c >> n) & 1]
    names = [header[ci] for ci in cols]
    rnames = [header[ci] for ci in rev]
    kw = {}
    if whole and not rev:
        pass  # sorted()
    elif whole:
        # only reverse given: "that order is used" -> the sort columns are the reverse columns
        cols = list(rev)
        names = list(rnames)
        kw = {"reverse": rnames[0] if len(rnames) == 1 and step["f2"] else rnames}
    else:
        kw = {"columns": names[0] if len(names) == 1 and step["f2"] else names}
        if rev:
            kw["reverse"] = rnames[0] if len(rnames) == 1 and step["f2"] else rnames
    want = list(rows)
    for ci in reversed(cols):
        want.sort(key=lambda r, ci=ci: r[ci], reverse=ci in rev)
    circ = ""
    if any(kinds[ci] == "bool" for ci in rev):
        circ = "[reverse-bool]"
    elif any(_prefix_related([r[ci] for r in rows]) for ci in rev if isinstance(rows[0][ci], str)):
        circ = "[reverse-text-prefix]"
    what = f"sorted({kw!r}) on {brief(t)}"
    ok, res = s.call("sorted" + circ, lambda: T.sorted(**kw))
    if not ok:
        return True
    if t.get("ix") and not check_index(s, "sorted", res, "any", what)[0]:
        return True
    ok, hdr = s.call("sorted/observe", lambda: list(res.header))
    ok2, got = s.call("sorted/observe", observe_rows, res)
    if not (ok and ok2):
        return True
    s.eq(hdr, header, "sorted/header", what)
    g, w = norm_rows(got), norm_rows(want)
    keys_g = [[r[ci] for ci in cols] for r in g]
    keys_w = [[r[ci] for ci in cols] for r in w]
    same_rows = sorted(map(repr, g)) == sorted(map(repr, w))
    s.check(same_rows, "sorted/row-multiset", f"{what}: got {got!r}")
    if same_rows:
        if s.check(keys_g == keys_w, "sorted/rows" + circ, f"{what}: key order got {keys_g!r} want {keys_w!r}"):
            # (tables of more than 16 rows only arise in the chain sub-check, from joins)
            s.check(g == w, "sorted/tie-order" + ("[more-than-16-rows]" if len(rows) > 16 else ""), f"{what}: got {got!r} want {want!r}")
    if len(cols) > 1 and rev and len(rev) < len(cols):
        s.cls("sorted:multi-key-partly-reversed")
    elif rev:
        s.cls("sorted:reversed")
    if len({repr(k) for k in keys_w}) < len(keys_w):
        s.cls("sorted:ties")
    return True


def _prefix_related(vals):
    vals = sorted(set(vals))
    return any(b.startswith(a) for a, b in zip(vals, vals[1:]))


def _index_listed_later(t, columns):
    """circumstance: the columns argument of an indexed table names the index column after another column"""
    ix = t.get("ix")
    return bool(ix) and isinstance(columns, (list, tuple)) and ix in list(columns)[1:]


def op_filtered(s, step, t, j, p, T, J, P):
    header, rows = t["header"], t["rows"]
    desc, columns, cb, model = build_predicate(t, step)
    want = [r for r in rows if model(r)]
    kw = {} if columns is None else {"columns": columns}
    sig = "filtered"
    if _index_listed_later(t, columns):
        sig = "filtered[index-column-listed-later]" if callable(cb) else "filtered[expression, index-column-listed-later]"
        s.cls("columns:index-column-listed-later")
    ok, res = s.call(sig, lambda: T.filtered(cb, **kw))
    if ok:
        compare(s, sig, res, header, want, f"filtered {desc} on {brief(t)}", index="any" if t.get("ix") else "skip")
        s.cls("filtered:none" if not want else "filtered:all" if len(want) == len(rows) else "filtered:some")
        s.cls("filtered:expr" if isinstance(cb, str) else "filtered:callable")
    return True


def op_count(s, step, t, j, p, T, J, P):
    rows = t["rows"]
    desc, columns, cb, model = build_predicate(t, step)
    want = sum(1 for r in rows if model(r))
    kw = {} if columns is None else {"columns": columns}
    sig = "count"
    if _index_listed_later(t, columns):
        sig = "count[index-column-listed-later]" if callable(cb) else "count[expression, index-column-listed-later]"
        s.cls("columns:index-column-listed-later")
    ok, res = s.call(sig, lambda: T.count(cb, **kw))
    if ok:
        s.eq(int(res), want, sig + "/value", f"count {desc} on {brief(t)}")
    return True


def _pick_columns(tab, a, b, kmax=3):
    n = len(tab["header"])
    k = 1 + a % min(kmax, n)
    rot = b % n
    idx = list(range(n))
    return (idx[rot:] + idx[:rot])[:k]


def op_count_unique(s, step, t, j, p, T, J, P):
    header, rows = t["header"], t["rows"]
    if step["f1"] and step["a"] % 3 == 0:
        cols, arg = list(range(len(header))), None
    else:
        cols = _pick_columns(t, step["a"], step["b"])
        arg = [header[ci] for ci in cols]
        if len(arg) == 1 and step["f2"]:
            arg = arg[0]
    if len(cols) == 1:
        want = collections.Counter(norm(r[cols[0]]) for r in rows)
    else:
        want = collections.Counter(tuple(norm(r[ci]) for ci in cols) for r in rows)
    ok, res = s.call("count_unique", lambda: T.count_unique(arg) if arg is not None else T.count_unique())
    if ok:
        ok, got = s.call("count_unique/observe", lambda: {(norm(k) if len(cols) == 1 else tuple(norm(e) for e in k)): int(v) for k, v in dict(res).items()})
        if ok:
            s.eq(got, dict(want), "count_unique/counts", f"count_unique({arg!r}) on {brief(t)}")
    return True


def op_distinct_values(s, step, t, j, p, T, J, P):
    header, rows = t["header"], t["rows"]
    cols = _pick_columns(t, step["a"], step["b"])
    arg = [header[ci] for ci in cols]
    if len(arg) == 1 and step["f2"]:
        arg = arg[0]
    if len(cols) == 1:
        want = {norm(r[cols[0]]) for r in rows}
    else:
        want = {tuple(norm(r[ci]) for ci in cols) for r in rows}
    sig = "distinct_values"
    if _index_listed_later(t, arg):
        sig = "distinct_values[index-column-listed-later]"
        s.cls("columns:index-column-listed-later")
    ok, res = s.call(sig, lambda: T.distinct_values(arg))
    if ok:
        ok, got = s.call(sig + "/observe", lambda: {(norm(k) if len(cols) == 1 else tuple(norm(e) for e in k)) for k in res})
        if ok:
            s.eq(got, want, sig + "/set", f"distinct_values({arg!r}) on {brief(t)}")
            s.eq(len(res), len(want), sig + "/size", f"distinct_values({arg!r}) on {brief(t)}")
    return True


def op_filtered_by_column(s, step, t, j, p, T, J, P):
    header, rows = t["header"], t["rows"]
    mode = step["a"] % 3

    def test(values):
        if mode == 0:
            return all(isinstance(v, (int, float)) and not isinstance(v, bool) for v in values)
        if mode == 1:
            return all(isinstance(v, str) for v in values)
        return len({repr(norm(v)) for v in values}) == len(values)

    keep = [ci for ci in range(len(header)) if test([r[ci] for r in rows])]
    sig = "filtered_by_column"
    index = "skip"
    if t.get("ix"):
        index = "any"
        if header.index(t["ix"]) not in keep:
            sig += "[index-column-not-selected]"
            s.cls("filtered_by_column:index-column-not-selected")
    ok, res = s.call(sig, lambda: T.filtered_by_column(lambda col: test(col.tolist())))
    if ok:
        want_rows = [[r[ci] for ci in keep] for r in rows] if keep else []
        if keep:
            compare(s, sig, res, [header[ci] for ci in keep], want_rows, f"filtered_by_column(mode {mode}) on {brief(t)}", index=index)
        else:
            ok, hdr = s.call("filtered_by_column/observe", lambda: list(res.header))
            if ok:
                s.eq(hdr, [], "filtered_by_column/header", f"no column selected on {brief(t)}")
    return True


def key_pairs(t, j):
    """[(name in the first table, name in the second)] of the columns the two tables can be joined on"""
    pairs = j.get("keys")
    if pairs is None:  # cases recorded before key columns could differ in name
        pairs = [[nm, nm] for nm, k in zip(t["header"], t["kinds"]) if k in ("ks", "ki") and nm in j["header"]]
    return [tuple(pr) for pr in pairs if pr[0] in t["header"] and pr[1] in j["header"]]


def _key_arg(names, header, as_int, bare):
    arg = [header.index(c) for c in names] if as_int else list(names)
    return arg[0] if bare and len(arg) == 1 else arg


def op_inner_join(s, step, t, j, p, T, J, P):
    header, rows = t["header"], t["rows"]
    pairs = key_pairs(t, j)
    a, b, c = step["a"], step["b"], step["c"]
    variant = a % 8
    prefix = "right_" if c % 3 else "r:"
    # the right-hand table may carry an index too
    right, rt = J, j
    if index_of(j) is not None and (c // 6) % 4:
        rt = indexed_view(j)
        ok, right = s.call("make_table[index]", make_real, j, True)
        if not ok or not compare(s, "make_table[index]", right, rt["header"], rt["rows"], brief(rt), index=("kept", rt["ix"])):
            return True
    rh, rrows = rt["header"], rt["rows"]
    lix, rix = t.get("ix"), rt.get("ix")
    if variant == 6 and not (lix and rix) and b % 4:
        variant = 1  # the refusal without two indexes is asked only now and then
    elif lix and rix and variant in (0, 2, 4, 7):
        variant = 6  # both tables indexed: ask the index default more often
    if not pairs and variant != 6:
        return False
    same = [pr for pr in pairs if pr[0] == pr[1]]
    pool = same if variant in (0, 3, 5) else pairs
    if variant != 6 and not pool:
        return False
    if variant == 0:
        chosen = list(same)  # natural join: every column of the same name is a key
    elif variant == 6:
        chosen = [(lix, rix)]  # the two index columns
    else:
        k = 1 + b % min(2, len(pool))
        rot = (b // 2) % len(pool)
        chosen = (pool[rot:] + pool[:rot])[:k]
    ks, ko = [pr[0] for pr in chosen], [pr[1] for pr in chosen]
    bare = step["f2"]
    form = (a // 8) % 4  # names/names, positions/positions, names/positions, positions/names
    self_int, other_int = form in (1, 3), form in (1, 2)
    tag, expect_error = "", False
    if variant == 0:
        if step["f2"]:
            call = lambda: T.joined(right, col_prefix=prefix)  # noqa: E731
            desc = "joined(other)"
        else:
            call = lambda: T.inner_join(right, use_index=False, col_prefix=prefix)  # noqa: E731
            desc = "inner_join(other, use_index=False)"
    elif variant == 6:
        # no key given: the documented default joins on the two index columns; without both there is nothing to
        # join on and the method refuses with ValueError
        call = lambda: T.inner_join(right, col_prefix=prefix)  # noqa: E731
        desc = "inner_join(other)"
        tag = "[index-default]"
        expect_error = not (lix and rix)
    elif variant in (3, 5):
        # one side given: "the same column labels will be used for both tables"; positions are used only
        # where they name the same columns in both tables
        hdr_g, hdr_o, names = (header, rh, ks) if variant == 3 else (rh, header, ko)
        pos = [hdr_g.index(c) for c in names]
        as_int = self_int and all(i < len(hdr_o) and hdr_o[i] == hdr_g[i] for i in pos)
        arg = _key_arg(names, hdr_g, as_int, bare)
        kw = {"columns_self" if variant == 3 else "columns_other": arg, "col_prefix": prefix}
        via_joined = step["f1"]
        call = lambda: (T.joined if via_joined else T.inner_join)(right, **kw)  # noqa: E731
        desc = f"{'joined' if via_joined else 'inner_join'}(other, {kw!r})"
        tag = "[one-side-given]"
        if arg == 0 and isinstance(arg, int):
            tag = "[bare-zero]"
        s.cls("join:one-side-given")
    else:
        arg_s = _key_arg(ks, header, self_int, bare)
        arg_o = _key_arg(ko, rh, other_int, bare)
        kw = {"columns_self": arg_s, "columns_other": arg_o, "col_prefix": prefix}
        if variant == 4:
            kw["use_index"] = False
        via_joined = variant == 2
        call = lambda: (T.joined if via_joined else T.inner_join)(right, **kw)  # noqa: E731
        desc = f"{'joined' if via_joined else 'inner_join'}(other, {kw!r})"
        if any(isinstance(x, int) and x == 0 for x in (arg_s, arg_o)):
            tag = "[bare-zero]"  # the position 0 given as a plain int
        if self_int or other_int:
            s.cls("join:positional-keys")
    if ks != ko:
        s.cls("join:different-key-names")
    if (lix and lix in ks[1:]) or (rix and rix in ko[1:]):
        tag += "[index-key-listed-later]"
        s.cls("join:index-key-listed-later")
    sig = ("natural_join" if variant == 0 else "inner_join") + tag
    if "[bare-zero]" in tag or "[index-key-listed-later]" in tag:
        pass  # one signature per circumstance
    elif lix and rix:
        sig += "[indexed-both]"
    elif lix:
        sig += "[indexed-left]"
    elif rix:
        sig += "[indexed-right]"
    what = f"{desc} of {brief(t)} with {brief(rt)}"
    if expect_error:
        ok, res = s.call(sig, call, allowed=(ValueError,))
        s.check(not ok, "inner_join[index-default]/joined-without-indexes", f"{what}: no ValueError")
        s.cls("join:index-default-refused")
        return True
    li = [header.index(x) for x in ks]
    ri = [rh.index(x) for x in ko]
    rest = [i for i, x in enumerate(rh) if x not in ko]
    want = []
    for r in rows:
        for q in rrows:
            if [r[i] for i in li] == [q[i] for i in ri]:
                want.append(list(r) + [q[i] for i in rest])
    want_header = list(header) + [prefix + rh[i] for i in rest]
    ok, res = s.call(sig, call)
    if ok:
        compare(s, sig, res, want_header, want, what, index="any" if lix else "skip")
        lk = [tuple(r[i] for i in li) for r in rows]
        rk = [tuple(q[i] for i in ri) for q in rrows]
        both = set(lk) & set(rk)
        if any(lk.count(x) > 1 and rk.count(x) > 1 for x in both):
            s.cls("join:duplicates-both-sides")
        elif any(rk.count(x) > 1 for x in both):
            s.cls("join:duplicates-right")
        s.cls("join:empty-result" if not want else "join:rows")
        if len(ks) > 1:
            s.cls("join:two-keys")
        if variant == 6:
            s.cls("join:index-default")
        if lix:
            s.cls("join:indexed-left")
        if rix:
            s.cls("join:indexed-right")
    if right is not J:
        compare(s, "inner_join/receiver-mutated", right, rh, rrows, "indexed other after inner_join", api=False)
    return True


def op_cross_join(s, step, t, j, p, T, J, P):
    header, rows = t["header"], t["rows"]
    prefix = "right_" if step["c"] % 3 else "r:"
    if step["f1"]:
        call = lambda: T.cross_join(J, col_prefix=prefix)  # noqa: E731
    else:
        prefix = "right_"
        call = lambda: T.joined(J, inner_join=False)  # noqa: E731
    want = [list(r) + list(q) for r, q in itertools.product(rows, j["rows"])]
    want_header = list(header) + [prefix + c for c in j["header"]]
    sig = "cross_join[zero-row]" if not want else "cross_join"
    ok, res = s.call(sig, call)
    if ok:
        # the index of the left table is dropped: a cross join repeats its values (comment in Table.cross_join)
        compare(s, sig, res, want_header, want, f"cross_join prefix={prefix!r} of {brief(t)} with {brief(j)}", index="dropped" if t.get("ix") else "skip")
    return True


def op_appended(s, step, t, j, p, T, J, P):
    header, rows = t["header"], t["rows"]
    new = None if step["a"] % 3 == 0 else ("src" if step["a"] % 3 == 1 else "from table")
    twice = step["f1"]
    as_list = step["f2"]
    tables = [P, P] if twice else [P]
    # the appended table may list the same columns in another order: cells are matched by column name and
    # the result follows the receiver's order ("All tables must have the same columns")
    pos = [p["header"].index(c) for c in header]
    prows = [[r[i] for i in pos] for r in p["rows"]]
    titles = [t.get("title", "")] + [p.get("title", "")] * len(tables)
    groups = [rows] + [prows] * len(tables)
    if new is None:
        want = [list(r) for g in groups for r in g]
        want_header = list(header)
    else:
        want = [[ti] + list(r) for ti, g in zip(titles, groups) for r in g]
        want_header = [new] + list(header)
    sig, index = "appended", "skip"
    if t.get("ix"):
        index = "any"
        ci = header.index(t["ix"])
        ids = [norm(r[ci]) for g in groups for r in g]
        if len(set(ids)) < len(ids):
            # the appended rows repeat values of the receiver's index column
            sig = "appended[index-values-repeated]"
            s.cls("appended:index-values-repeated")
    ok, res = s.call(sig, lambda: T.appended(new, tables) if as_list else T.appended(new, *tables))
    if ok:
        compare(s, sig, res, want_header, want, f"appended({new!r}, {len(tables)} table(s), list form {as_list}) of {brief(t)} with {brief(p)}", index=index)
        compare(s, "appended/receiver-mutated", P, p["header"], p["rows"], "appended table afterwards", api=False)
        if not rows or not p["rows"]:
            s.cls("appended:zero-row-member")
        if p["header"] != header:
            s.cls("appended:other-column-order")
        kinds_by_name = dict(zip(p["header"], p["kinds"]))
        if p["rows"] and rows and any(kinds_by_name[c] != k for c, k in zip(header, t["kinds"])):
            s.cls("appended:int-with-float-column")
    return True


def op_transposed(s, step, t, j, p, T, J, P):
    header, rows = t["header"], t["rows"]
    if not rows:
        return False
    uid = [ci for ci, k in enumerate(t["kinds"]) if k == "uid"]
    ci = uid[0] if uid and step["a"] % 4 else step["a"] % len(header)
    if t.get("ix") and step["a"] % 2:
        ci = (step["a"] // 2) % len(header)  # on an indexed table: more often a column other than the index
    vals = [r[ci] for r in rows]
    new = "new" if step["b"] % 2 else "old header"
    arg = None if ci == 0 and step["f1"] else header[ci]
    call = lambda: T.transposed(new, select_as_header=arg) if arg is not None else T.transposed(new)  # noqa: E731
    unique = len({repr(norm(v)) for v in vals}) == len(vals) and all(v is not None for v in vals)
    try:
        by_value = len(set(vals)) == len(vals)
    except TypeError:
        by_value = unique
    if unique and not by_value:
        # values that are equal but print differently (0.0 and -0.0, 1 and 1.0): whether they count as
        # distinct headers is not specified (distinct_values compares values, the new header their text)
        s.cls("transposed:equal-values-with-distinct-text")
        return False
    if not unique:
        if any(v is None for v in vals):
            return False
        ok, res = s.call("transposed", call, allowed=(ValueError,))
        s.check(not ok, "transposed/duplicate-header-accepted", f"transposed on non-unique column {header[ci]!r} of {brief(t)} did not raise")
        s.cls("transposed:duplicates-refused")
        return True
    names = [str(v).strip() for v in vals]
    if len(set(names)) != len(names) or any(not n for n in names) or new in names:
        return False
    others = [i for i in range(len(header)) if i != ci]
    want_header = [new] + names
    want = [[header[i]] + [r[i] for r in rows] for i in others]
    sig, index = "transposed", "skip"
    if t.get("ix"):
        # "on transpose, a row index_name becomes a column": the result has no index
        index = "dropped"
        if header[ci] != t["ix"]:
            sig = "transposed[indexed, other column as header]"
            s.cls("transposed:indexed-other-header")
    ok, res = s.call(sig, call)
    if ok:
        if others:
            compare(s, sig, res, want_header, want, f"transposed({new!r}, {arg!r}) of {brief(t)}", index=index)
        else:
            ok, hdr = s.call("transposed/observe", lambda: list(res.header))
            if ok:
                s.eq(sorted(hdr), sorted(want_header), "transposed/header", f"single column {brief(t)}")
        s.cls("transposed:ok")
    return True


def op_get_columns(s, step, t, j, p, T, J, P):
    header, rows = t["header"], t["rows"]
    if not rows:
        return False  # see ASSUMPTIONS: column selection is not asked of zero-row tables
    table = T
    cols = _pick_columns(t, step["a"], step["b"], kmax=len(header))
    if step["f1"]:
        cols = list(reversed(cols))
    names = [header[ci] for ci in cols]
    ix = t.get("ix")
    variant = step["c"] % 3
    sig = "get_columns"
    if variant == 0:
        call = lambda: table.get_columns(names)  # noqa: E731
        want_names = ([ix] + [c for c in names if c != ix]) if ix else names
        desc = f"get_columns({names!r})"
    elif variant == 1:
        call = lambda: table[:, names]  # noqa: E731
        want_names = names
        desc = f"[:, {names!r}]"
        sig = "getitem-columns"
    else:
        call = lambda: table.get_columns(names, with_index=False)  # noqa: E731
        want_names = names
        desc = f"get_columns({names!r}, with_index=False)"
    index = "skip"
    if ix:
        # a selected index column stays the index of the result and is therefore reported first (Columns.order);
        # get_columns includes it unless with_index=False; a selection without it has no index
        index = ("kept", ix) if ix in want_names else "dropped"
    want = [[r[header.index(c)] for c in want_names] for r in rows]
    ok, res = s.call(sig, call)
    if ok:
        compare(s, sig, res, want_names, want, f"{desc} of {brief(t)}", index=index)
    return True


def op_slice(s, step, t, j, p, T, J, P):
    header, rows = t["header"], t["rows"]
    if not rows:
        return False
    ix = t.get("ix")
    if ix and not isinstance(rows[0][header.index(ix)], str):
        return False  # see ASSUMPTIONS: with integer index values a row number is ambiguous
    n = len(rows)
    lo = step["a"] % n
    hi = lo + 1 + step["b"] % (n - lo)
    cols = _pick_columns(t, step["c"], step["a"], kmax=len(header))
    names = [header[ci] for ci in cols]
    if step["f1"]:
        call = lambda: T[lo:hi]  # noqa: E731
        want_names = header
        desc = f"[{lo}:{hi}]"
    else:
        call = lambda: T[lo:hi, names]  # noqa: E731
        want_names = names
        desc = f"[{lo}:{hi}, {names!r}]"
    index = "skip"
    if ix:
        index = ("kept", ix) if ix in want_names else "dropped"
    want = [[r[header.index(c)] for c in want_names] for r in rows[lo:hi]]
    ok, res = s.call("getitem-rows", call)
    if ok:
        compare(s, "getitem-rows", res, want_names, want, f"{desc} of {brief(t)}", index=index)
    return True


def op_to_list(s, step, t, j, p, T, J, P):
    header, rows = t["header"], t["rows"]
    cols = _pick_columns(t, step["a"], step["b"], kmax=len(header))
    names = [header[ci] for ci in cols]
    arg = names[0] if len(names) == 1 and step["f2"] else names
    ok, res = s.call("to_list(columns)", lambda: T.to_list(arg))
    if ok:
        if len(names) == 1:
            want = [norm(r[cols[0]]) for r in rows]
            got = [norm(v) for v in res]
        else:
            want = [[norm(r[ci]) for ci in cols] for r in rows]
            got = norm_rows(res)
        s.eq(got, want, "to_list(columns)/rows" + ("[zero-row]" if not rows else ""), f"to_list({arg!r}) of {brief(t)}")
    return True


def op_with_new_column(s, step, t, j, p, T, J, P):
    header, rows, kinds = t["header"], t["rows"], t["kinds"]
    numeric = [ci for ci, k in enumerate(kinds) if k in ("int", "float", "ki") and all(r[ci] is not None for r in rows)]
    if t.get("ix"):
        # an integer id column takes part in the arithmetic of an indexed table
        numeric += [ci for ci, k in enumerate(kinds) if k == "uid" and rows and isinstance(rows[0][ci], int)]
    texty = [ci for ci, k in enumerate(kinds) if k in ("text", "ks") and all(r[ci] is not None for r in rows)]
    new = "derived" if step["b"] % 2 else "new col"
    mode = step["a"] % 4
    ident = all(is_ident(n) for n in header)
    if mode == 0 and numeric:
        ci = numeric[step["c"] % len(numeric)]
        want_vals = [r[ci] * 2 + 1 for r in rows]
        if ident and step["f1"]:
            cb, columns, desc = f"{header[ci]} * 2 + 1", (None if step["f2"] else [header[ci]]), "expr"
        else:
            cb, columns, desc = (lambda v: v * 2 + 1), header[ci], "callable(value)"
    elif mode == 1 and len(numeric) >= 2:
        c1, c2 = numeric[step["c"] % len(numeric)], numeric[(step["c"] + 1) % len(numeric)]
        want_vals = [r[c1] + r[c2] for r in rows]
        if ident and step["f1"]:
            cb, columns, desc = f"{header[c1]} + {header[c2]}", None, "expr"
        else:
            cb, columns, desc = (lambda row: row[0] + row[1]), [header[c1], header[c2]], "callable(row)"
    elif mode == 2 and texty:
        ci = texty[step["c"] % len(texty)]
        want_vals = [len(r[ci]) for r in rows]
        cb, columns, desc = (lambda v: len(v)), [header[ci]], "callable(value) len"
    else:
        ci = step["c"] % len(header)
        const = rows[step["b"] % len(rows)][ci] if rows else 0
        want_vals = [r[ci] == const for r in rows]
        single = len(header) == 1  # a one-column table hands the bare value to the callback, as documented
        cb, columns, desc = (lambda row: bool((row if single else row[ci]) == const)), None, "callable(row) =="
    if not rows:
        return False
    want = [list(r) + [v] for r, v in zip(rows, want_vals)]
    kw = {} if columns is None else {"columns": columns}
    sig = "with_new_column"
    if callable(cb) and _index_listed_later(t, columns):
        sig = "with_new_column[index-column-listed-later]"
        s.cls("columns:index-column-listed-later")
    ok, res = s.call(sig, lambda: T.with_new_column(new, cb, **kw))
    if ok:
        compare(s, sig, res, list(header) + [new], want, f"with_new_column({new!r}, {desc} {cb if isinstance(cb, str) else ''} columns={columns!r}) of {brief(t)}", index="any" if t.get("ix") else "skip")
    return True


def op_with_new_header(s, step, t, j, p, T, J, P):
    header, rows = t["header"], t["rows"]
    cols = _pick_columns(t, step["a"], step["b"], kmax=2)
    old = [header[ci] for ci in cols]
    new = [f"renamed {i}" if step["f1"] else f"new{i}" for i in range(len(old))]
    want_header = [new[old.index(c)] if c in old else c for c in header]
    if len(old) == 1 and step["f2"]:
        call = lambda: T.with_new_header(old[0], new[0])  # noqa: E731
    else:
        call = lambda: T.with_new_header(old, new)  # noqa: E731
    sig, index = "with_new_header" + ("[zero-row]" if not rows else ""), "skip"
    if t.get("ix"):
        index = "any"
        if t["ix"] in old:
            sig = "with_new_header[index-column-renamed]"
            s.cls("with_new_header:index-column-renamed")
    ok, res = s.call(sig, call)
    if ok:
        compare(s, sig, res, want_header, rows, f"with_new_header({old!r}, {new!r}) of {brief(t)}", index=index)
    return True


def op_observers(s, step, t, j, p, T, J, P):
    header, rows = t["header"], t["rows"]
    what = brief(t)
    ok, d = s.call("columns.to_dict", T.columns.to_dict)
    if ok:
        want = {c: [norm(r[i]) for r in rows] for i, c in enumerate(header)}
        got = {c: [norm(v) for v in vals] for c, vals in d.items()}
        s.eq(got, want, "columns.to_dict/values", what)
        s.eq(list(d), list(header), "columns.to_dict/order", what)
    if rows:
        ok, arr = s.call("array", lambda: T.array.tolist())
        if ok:
            s.eq(norm_rows(arr), norm_rows(rows), "array/rows", what)
        ok, d = s.call("to_dict", T.to_dict)
        if ok:
            want = {i: {c: norm(r[k]) for k, c in enumerate(header)} for i, r in enumerate(rows)}
            ok, got = s.call("to_dict/observe", lambda: {int(i): {c: norm(v) for c, v in row.items()} for i, row in d.items()})
            if ok:
                s.eq(got, want, "to_dict/values", what)
    return True


# ------------------------------------------------------------ chain sub
def _result_model(header, kinds, rows, title=""):
    kinds = list(kinds)
    for ci, k in enumerate(kinds):
        vals = [r[ci] for r in rows]
        if k == "uid" and len({norm(v) for v in vals}) < len(vals):
            # an id column whose values are repeated in the result is an ordinary column from here on
            kinds[ci] = "text" if vals and isinstance(vals[0], str) else "int"
    return {"header": list(header), "kinds": kinds, "rows": [list(r) for r in rows], "title": title}


def _like_kinds(p, t):
    """the table to append with every column holding the receiver's kind of number (for a chain the mixed
    int/float column of the ops sub-check would leave open whether a cell prints as 5 or 5.0)"""
    kind_of = dict(zip(t["header"], t["kinds"]))
    id_text = {c: isinstance(t["rows"][0][ci], str) for ci, c in enumerate(t["header"]) if kind_of[c] == "uid" and t["rows"]}
    q = dict(p)
    q["kinds"] = [kind_of[c] for c in p["header"]]
    rows = []
    for r in p["rows"]:
        row = []
        for v, c, k in zip(r, p["header"], p["kinds"]):
            want = kind_of[c]
            if c in id_text and id_text[c] != isinstance(v, str):
                # ids of the receiver's type
                v = f"s{v}" if id_text[c] else 1000 + int(v[1:])
            elif v is not None and want != k and want == "int":
                v = int(v) if abs(v) < 1e12 else 7
            elif v is not None and want != k and want == "float":
                v = float(v)
            row.append(v)
        rows.append(row)
    q["rows"] = rows
    return q


def first_step(s, step, t, j, p, T, J):
    """runs the first operation of a chain; returns (result table, model of the result, index expectation) or None"""
    header, rows, kinds = t["header"], t["rows"], t["kinds"]
    op = step["op"]
    lix = t.get("ix")
    if op == "inner_join" and not key_pairs(t, j):
        op = "cross_join"
    if op == "transposed" and ("uid" not in kinds or not rows):
        op = "filtered"
    if op == "sorted" and not (rows and sortable_columns(t)):
        op = "filtered"
    if op == "filtered":
        desc, columns, cb, model = build_predicate(t, step)
        kw = {} if columns is None else {"columns": columns}
        ok, res = s.call("filtered", lambda: T.filtered(cb, **kw))
        m = _result_model(header, kinds, [r for r in rows if model(r)], t.get("title", ""))
        return (res, m, "any" if lix else "skip", "filtered", f"filtered {desc} on {brief(t)}") if ok else None
    if op == "sorted":
        cand = sortable_columns(t)
        cols = [cand[step["a"] % len(cand)]]
        if len(cand) > 1 and step["f1"]:
            cols.append(cand[(step["a"] + 1) % len(cand)])
        rev = [ci for n, ci in enumerate(cols) if (step["c"] >> n) & 1]
        kw = {"columns": [header[ci] for ci in cols]}
        if rev:
            kw["reverse"] = [header[ci] for ci in rev]
        want = list(rows)
        for ci in reversed(cols):
            want.sort(key=lambda r, ci=ci: r[ci], reverse=ci in rev)
        ok, res = s.call("sorted", lambda: T.sorted(**kw))
        m = _result_model(header, kinds, want, t.get("title", ""))
        return (res, m, "any" if lix else "skip", "sorted", f"sorted({kw!r}) on {brief(t)}") if ok else None
    if op == "inner_join":
        pairs = key_pairs(t, j)
        if step["a"] % 2 and len(pairs) > 1:
            pairs = [pairs[step["b"] % len(pairs)]]
        ks, ko = [pr[0] for pr in pairs], [pr[1] for pr in pairs]
        jh = j["header"]
        li, ri = [header.index(x) for x in ks], [jh.index(x) for x in ko]
        rest = [i for i, x in enumerate(jh) if x not in ko]
        want = [list(r) + [q[i] for i in rest] for r in rows for q in j["rows"] if [r[i] for i in li] == [q[i] for i in ri]]
        ok, res = s.call("inner_join", lambda: T.inner_join(J, columns_self=ks, columns_other=ko, col_prefix="L_"))
        m = _result_model(list(header) + ["L_" + jh[i] for i in rest], list(kinds) + [j["kinds"][i] for i in rest], want)
        return (res, m, "any" if lix else "skip", "inner_join", f"inner_join({ks!r}, {ko!r}) of {brief(t)} with {brief(j)}") if ok else None
    if op == "cross_join":
        want = [list(r) + list(q) for r, q in itertools.product(rows, j["rows"])]
        sig = "cross_join" if want else "cross_join[zero-row]"
        ok, res = s.call(sig, lambda: T.cross_join(J, col_prefix="L_"))
        m = _result_model(list(header) + ["L_" + c for c in j["header"]], list(kinds) + list(j["kinds"]), want)
        return (res, m, "dropped" if lix else "skip", sig, f"cross_join of {brief(t)} with {brief(j)}") if ok else None
    if op == "appended":
        q = _like_kinds(p, t)
        ok, Q = s.call("make_table", make_real, q)
        if not ok:
            return None
        new = "origin" if step["a"] % 2 else None
        pos = [q["header"].index(c) for c in header]
        prows = [[r[i] for i in pos] for r in q["rows"]]
        if new is None:
            want, wh, wk = [list(r) for r in rows + prows], list(header), list(kinds)
        else:
            want = [[t.get("title", "")] + list(r) for r in rows] + [[q.get("title", "")] + list(r) for r in prows]
            wh, wk = [new] + list(header), ["text"] + list(kinds)
        sig = "appended"
        if lix:
            ci = header.index(lix)
            ids = [norm(r[ci]) for r in rows + prows]
            if len(set(ids)) < len(ids):
                sig = "appended[index-values-repeated]"
        ok, res = s.call(sig, lambda: T.appended(new, Q))
        m = _result_model(wh, wk, want)
        return (res, m, "any" if lix else "skip", sig, f"appended({new!r}) of {brief(t)} with {brief(q)}") if ok else None
    if op == "transposed":
        ci = kinds.index("uid")
        names = [str(r[ci]).strip() for r in rows]
        others = [i for i in range(len(header)) if i != ci]
        new = "field"
        if new in names or not others:
            return None
        want = [[header[i]] + [r[i] for r in rows] for i in others]
        kind = kinds[others[0]]
        sig = "transposed[indexed, other column as header]" if lix and header[ci] != lix else "transposed"
        ok, res = s.call(sig, lambda: T.transposed(new, select_as_header=header[ci]))
        m = _result_model([new] + names, ["uid"] + [kind] * len(names), want)
        return (res, m, "dropped" if lix else "skip", sig, f"transposed({new!r}, {header[ci]!r}) of {brief(t)}") if ok else None
    raise ValueError(op)


def exec_chain(case) -> Soft:
    s = Soft("C20/chain/")
    root = _tmpdir()
    try:
        _chain(s, case, root)
    finally:
        shutil.rmtree(root, ignore_errors=True)
    return s


def _chain(s, case, root):
    t, j, p = case["t"], case["j"], case["p"]
    step0 = case["ops"][0]
    use_ix = index_of(t) is not None and step0.get("ix")
    recv = indexed_view(t) if use_ix else t
    ok, T = s.call("make_table", make_real, t, bool(use_ix))
    ok2, J = s.call("make_table", make_real, j)
    if not (ok and ok2):
        return
    if not compare(s, "make_table", T, recv["header"], recv["rows"], brief(recv), api=False, index=("kept", recv["ix"]) if use_ix else "skip"):
        return
    out = first_step(s, step0, recv, j, p, T, J)
    if out is None:
        return
    res, m, index, sig, what = out
    first = sig.split("[")[0]
    s.cls("first:" + first)
    # what the result says about its index decides how the model lists the columns
    ix = None
    if index != "skip":
        usable, ix = check_index(s, sig, res, index, what)
        if not usable:
            return
    if ix is not None and ix in m["header"]:
        pos = [m["header"].index(ix)] + [i for i, c in enumerate(m["header"]) if c != ix]
        m = dict(m, header=[m["header"][i] for i in pos], kinds=[m["kinds"][i] for i in pos], rows=[[r[i] for i in pos] for r in m["rows"]])
        m["ix"] = ix
        s.cls("intermediate:indexed")
    if not compare(s, sig, res, m["header"], m["rows"], what):
        return
    ok, title = s.call(sig + "/observe", lambda: (res.title or "", res.legend or ""))
    if not ok:
        return
    m["title"], legend = title
    nrows = len(m["rows"])
    s.cls("intermediate:zero-row" if nrows == 0 else "intermediate:one-row" if nrows == 1 else "intermediate:rows>=2")
    if any(v is None for r in m["rows"] for v in r):
        s.cls("intermediate:missing")
    # ---- the result re-enters operations
    s.prefix = f"C20/chain/after-{first}/"
    tail = m["rows"][: 1 + step0["b"] % 3][::-1]
    rot = step0["c"] % len(m["header"])
    order = list(range(len(m["header"])))
    order = order[rot:] + order[:rot]
    p2 = {"header": [m["header"][i] for i in order], "kinds": [m["kinds"][i] for i in order], "rows": [[r[i] for i in order] for r in tail], "title": "tail"}
    ok, P2 = s.call("make_table", make_real, p2)
    if not ok:
        return
    done = 0
    for step in case["ops"][1:]:
        fn = globals()["op_" + step["op"]]
        if m.get("ix") and step["op"] not in INDEXED_OPS:
            continue
        ran = fn(s, step, m, j, p2, res, J, P2)
        if ran:
            done += 1
            s.cls("second:" + step["op"])
            s.cls(f"chain:{first}->{step['op']}")
            compare(s, step["op"] + "/receiver-mutated", res, m["header"], m["rows"], f"intermediate result after {step['op']}", api=False)
    # ---- the result is written and loaded
    what0 = f"result of {what}"[:700]
    lkw = _load_kwargs(m["title"], legend, m.get("ix"))
    names = [f for f in case["formats"] if f not in ("json", "pickle")]
    done += _write_load_delimited(s, res, m, root, names, case["sep"], lkw, what0, False)
    if any(f in ("json", "pickle") for f in case["formats"]):
        done += _write_load_strict(s, res, m, root, m.get("ix"), what0, False, only=[f for f in case["formats"] if f in ("json", "pickle")])
    compare(s, "write/receiver-mutated", res, m["header"], m["rows"], "intermediate result after writing", api=False)
    s.evals = max(1, done)
    kinds = m["kinds"]
    s.nontrivial = nrows >= 2 and len(m["header"]) >= 2 and done >= 2


# ---------------------------------------------------------- roundtrip sub
def _parses_as(text, got):
    """True when a Python numeric/bool/None literal parser reads ``text`` as the value ``got``"""
    import math

    g = norm(got)
    if text in ("True", "False"):
        return g == ("b", text == "True")
    if text == "None":
        return g == ("none",)
    if isinstance(got, bool):
        return False
    for parser in (int, float, complex):
        try:
            v = parser(text)
        except (ValueError, OverflowError):
            continue
        try:
            gv = getattr(got, "item", lambda: got)() if not isinstance(got, (int, float, complex)) else got
            if isinstance(gv, (int, float, complex)) and not isinstance(gv, bool):
                if isinstance(v, float) and math.isnan(v):
                    if isinstance(gv, float) and math.isnan(gv):
                        return True
                elif isinstance(v, complex) and (math.isnan(v.real) or math.isnan(v.imag)):
                    return isinstance(gv, complex)
                elif gv == v:
                    return True
        except Exception:  # noqa: BLE001
            return False
    return False


def _literal(text):
    """(True, value) when the whole cell text is one Python literal (ast.literal_eval, nothing is executed)"""
    import ast

    try:
        return True, ast.literal_eval(text)
    except (ValueError, SyntaxError, TypeError, MemoryError, RecursionError):
        return False, None


def _deep(v):
    item = getattr(v, "item", None)
    if item is not None and not isinstance(v, (str, bytes, int, float, complex, bool)):
        try:
            v = item()
        except Exception:  # noqa: BLE001
            pass
    if isinstance(v, bool):
        return ("b", v)
    if isinstance(v, (int, float)):
        return ("n", v)
    if isinstance(v, complex):
        return ("c", v)
    if v is None:
        return ("none",)
    if isinstance(v, str):
        return ("s", str(v))
    if isinstance(v, (tuple, list)):
        # numpy may turn a column of equal-length tuples into a 2-D array: list and tuple are not told apart
        return ("seq", tuple(_deep(e) for e in v))
    return ("other", repr(v))


def _text_circumstance(text, sep):
    import ast

    if "\n" in text or "\r" in text:
        return "line-break"
    try:
        ast.parse(text.lstrip(" \t"), mode="eval")
        return "python-expression"  # the text is syntactically a Python expression (never executed here)
    except (SyntaxError, ValueError, MemoryError, RecursionError):
        pass
    if sep and sep in text:
        return "delimiter"
    if '"' in text or "'" in text:
        return "quote"
    if text != text.strip():
        return "blank-edge"
    if text == "":
        return "empty"
    return "plain"


def check_loaded(s: Soft, sig, got_table, tab, sep, strict, what, with_index=False):
    """compare a re-loaded table with the written one.
    strict=True (json, pickle): everything must be preserved; strict=False: delimited rules"""
    want_header = model_header(tab, with_index)
    want_rows = model_rows(tab, with_index)
    kinds = [tab["kinds"][tab["header"].index(c)] for c in want_header]
    ok, hdr = s.call(sig + "/observe", lambda: list(got_table.header))
    if not ok:
        return
    if not s.eq(hdr, want_header, sig + "/header", what):
        return
    ok, shape = s.call(sig + "/observe", lambda: tuple(got_table.shape))
    if ok and not s.eq(tuple(shape), (len(want_rows), len(want_header)), sig + "/shape", what):
        return
    ok, got = s.call(sig + "/observe", observe_rows, got_table)
    if not ok:
        return
    _compare_cells(s, sig, got, want_rows, kinds, want_header, sep, strict, what)


def _compare_cells(s, sig, got, want_rows, kinds, header, sep, strict, what):
    for ri, (grow, wrow) in enumerate(zip(got, want_rows)):
        for ci, (g, w) in enumerate(zip(grow, wrow)):
            where = f"{what}: row {ri} column {header[ci]!r} wrote {w!r} read {g!r}"
            if strict:
                s.check(norm(g) == norm(w), sig + f"/cell[{_kind_class(kinds[ci])}]", where)
                continue
            if w is None:
                s.check(norm(g) in (("s", ""), ("none",)), sig + "/missing-cell", where)
            elif isinstance(w, bool):
                s.check(norm(g) == ("b", w), sig + "/bool-cell", where)
            elif isinstance(w, (int, float)):
                s.check(norm(g) == ("n", w) and norm(g)[1] == w, sig + "/numeric-cell", where)
            else:
                is_lit, lit = _literal(w)
                if isinstance(g, str):
                    good = str(g) == w or (is_lit and isinstance(lit, str) and lit == str(g))
                    s.check(good, sig + f"/text-cell-changed[{_text_circumstance(w, sep)}]", where)
                else:
                    good = _parses_as(w, g) or (is_lit and _deep(lit) == _deep(g))
                    s.check(good, sig + f"/text-cell-evaluated[{_text_circumstance(w, sep)}]", where)


def _kind_class(kind):
    return {"int": "numeric", "float": "numeric", "ki": "numeric", "bool": "bool"}.get(kind, "text" if kind != "uid" else "uid")


def call_io(s: Soft, sig, fn):
    """Soft.call for the file readers: the type inference of load_table runs eval() on cell text, whose
    frames carry the file name '<string>' and would be mistaken for harness code; an exception counts as
    coming from the code under test whenever a frame of its traceback lies in the cogent3 sources."""
    from vlib.core import exception_site

    try:
        return True, fn()
    except Exception as e:  # noqa: BLE001
        site = exception_site(e)
        if not site:
            raise
        s.fail(f"{sig}/raises:{type(e).__name__}@{site}", f"{type(e).__name__}: {e}")
        return False, e


def _tmpdir():
    """per-case directory for the files; memory backed when available (every Table.write makes its own
    temporary directory next to the file, which makes a journalled disk the bottleneck)"""
    if os.path.isdir("/dev/shm") and os.access("/dev/shm", os.W_OK):
        return tempfile.mkdtemp(prefix="verif_c20.", dir="/dev/shm")
    return tempfile.mkdtemp(prefix="c20.", dir=SCRATCH if os.path.isdir(SCRATCH) else None)


def exec_roundtrip(case) -> Soft:
    s = Soft("C20/roundtrip/")
    root = _tmpdir()
    try:
        _roundtrip(s, case, root)
    finally:
        shutil.rmtree(root, ignore_errors=True)
    return s


def _beyond_int64(v):
    """an integer, or text that Python's int() reads as an integer, outside the int64 range"""
    if isinstance(v, bool) or v is None or isinstance(v, float):
        return False
    if isinstance(v, str):
        try:
            v = int(v)
        except ValueError:
            return False
    return not INT64[0] <= v <= INT64[1]


def _cell_tags(header, rows):
    """circumstance tags of a table for the delimited formats (one signature family per confirmed cause)"""
    cells = [v for r in rows for v in r]
    tags = ""
    if any(isinstance(v, str) and "\r" in v for v in list(header) + cells):
        tags += "[cell-with-cr]"
    if any(_beyond_int64(v) for v in cells):
        tags += "[integer-beyond-int64]"
    return tags


def _load_kwargs(title, legend, ix):
    lkw = {}
    if title:
        lkw["with_title"] = True
    if legend:
        lkw["with_legend"] = True
    if ix is not None:
        lkw["index_name"] = ix
    return lkw


def _write_load_delimited(s, T, tab, root, names, sep_override, lkw, what0, with_index):
    """Table.write + load_table for the delimited file names given; returns the number of files read"""
    nrows = len(tab["rows"])
    zr = "[zero-row]" if nrows == 0 else ""
    tags = _cell_tags(tab["header"], tab["rows"])
    evals = 0
    for fn in names:
        from cogent3 import load_table

        path = os.path.join(root, fn)
        wkw = {"sep": sep_override} if fn.endswith(".txt") else {}
        sep = sep_override if fn.endswith(".txt") else ("\t" if ".tsv" in fn else ",")
        # one signature family for all delimited files (the format is in the message); reading what was
        # written under a bz2 name has its own signature for the write/load steps
        csig = "delimited" + zr + tags
        sig = "delimited-bz2" + tags if fn.endswith("bz2") else csig
        ok, _ = s.call(sig + "/write", lambda: T.write(path, **wkw))
        if not ok:
            continue
        rkw = dict(lkw)
        if wkw:
            rkw["sep"] = sep
        ok, got = call_io(s, sig + "/load", lambda: load_table(path, **rkw))
        evals += 1
        if ok:
            check_loaded(s, csig, got, tab, sep, False, f"write/load_table {fn} of {what0}", with_index=with_index)
    return evals


def _write_load_strict(s, T, tab, root, ix, what0, with_index, only=("json", "pickle")):
    from cogent3 import load_table

    evals = 0
    for name, fn in (("json", "t.json"), ("pickle", "t.pickle")):
        if name not in only:
            continue
        path = os.path.join(root, fn)
        ok, _ = s.call(name + "/write", lambda: T.write(path))
        if not ok:
            continue
        ok, got = call_io(s, name + "/load", lambda: load_table(path))
        evals += 1
        if ok:
            check_loaded(s, name, got, tab, None, True, f"write/load_table {fn} of {what0}", with_index=with_index)
            ok, gi = s.call(name + "/observe", lambda: got.index_name)
            if ok:
                s.eq(gi, ix, name + "/index_name", what0)
    return evals


DELIMITED_NAMES = ["t.tsv", "t.csv", "t.tsv.gz", "t.csv.gz", "t.csv.bz2", "t.tsv.bz2", "t.txt"]


def _write_variant(s, T, tab, root, case, lkw, what0):
    """one of the other documented ways of calling Table.write"""
    from cogent3 import load_table

    wv = case.get("wv")
    if wv is None:
        return 0  # cases recorded before the field existed
    label, fn, wkw, out, how, strict = WRITE_VARIANTS[wv % len(WRITE_VARIANTS)]
    if label == "writer":
        return _write_with_writer(s, T, tab, root, what0)
    sep = None
    wkw = {k: (case["sep"] if v == "SEP" else v) for k, v in wkw.items()}
    how = case["sep"] if how == "SEP" else how
    # the variant names the signature of the write step; reading and comparing go by the signatures of the
    # plain calls (same reader, same rules)
    sig = f"write[{label}]"
    if strict:
        csig = lsig = "pickle" if "pickle" in fn else "json"
    else:
        csig = "delimited" + ("" if tab["rows"] else "[zero-row]") + _cell_tags(tab["header"], tab["rows"])
        lsig = csig
    s.cls("write:" + label)
    path = os.path.join(root, fn)
    what = f"write({fn!r}, {wkw!r}) of {what0}"
    ok, _ = s.call(sig, lambda: T.write(path, **wkw))
    if not ok:
        return 1
    want = os.path.join(root, out)
    # compress: "gzips the file and appends .gz to the filename (if not already added)"
    if not s.check(os.path.isfile(want), sig + "/file-missing", f"{what}: no file {out!r}, directory holds {sorted(os.listdir(root))!r}"):
        return 1
    if out.endswith(".gz"):
        with open(want, "rb") as f:
            magic = f.read(2)
        if not s.check(magic == b"\x1f\x8b", sig + "/not-gzipped", f"{what}: {out!r} starts with {magic!r}"):
            return 1
        if out != fn:
            s.check(not os.path.exists(path), sig + "/uncompressed-file-left", f"{what}: {fn!r} exists as well")
    rkw = {}
    if how is not None and how.startswith("."):
        # a file without suffix: load_table picks the reader by suffix, so a copy with the suffix is read
        shutil.copyfile(want, want + how)
        want += how
    elif how is not None:
        rkw["sep"] = sep = how
    if not strict:
        rkw.update(lkw)
        if sep is None:
            sep = "\t" if ".tsv" in fn else ","
    ok, got = call_io(s, lsig + "/load", lambda: load_table(want, **rkw))
    if ok:
        check_loaded(s, csig, got, tab, sep, strict, what, with_index=True)
    return 1


def _write_with_writer(s, T, tab, root, what0):
    """Table.write(path, writer=separator_formatter(sep=...)): format.table.separator_formatter "Returns a writer
    for a delimited tabular file. The writer has a has_header argument ... Default format is string. Does not
    currently handle Titles or Legends": the file holds the header and one line per row, the cells as str()
    joined by sep.  Asked only of tables whose text needs no quoting (the formatter does none)."""
    from cogent3.format.table import separator_formatter
    from cogent3.parse.table import load_delimited

    header, rows = model_header(tab, True), model_rows(tab, True)
    texts = list(header) + [v for r in rows for v in r if isinstance(v, str)]
    if len(header) < 2 or any(ch in v for v in texts for ch in '"\n\r'):
        return 0
    seps = [c for c in [",", "\t", ";", "|"] if not any(c in v for v in texts)]
    if not seps:
        return 0
    sep = seps[0]
    s.cls("write:writer")
    path = os.path.join(root, "w.txt")
    sig = "write[writer=]"
    what = f"write('w.txt', writer=separator_formatter(sep={sep!r})) of {what0}"
    ok, _ = s.call(sig, lambda: T.write(path, writer=separator_formatter(sep=sep)))
    if not ok:
        return 1
    ok, res = s.call(sig + "/load_delimited", lambda: load_delimited(path, sep=sep))
    if not ok:
        return 1
    hdr, got_rows = res[0], res[1]
    if not s.eq(list(hdr), header, sig + "/header", what):
        return 1
    if not s.eq(len(got_rows), len(rows), sig + "/row-count", f"{what}: rows {got_rows!r}"):
        return 1
    for ri, (grow, wrow) in enumerate(zip(got_rows, rows)):
        if not s.eq(len(grow), len(wrow), sig + "/field-count", f"{what}: row {ri} fields {grow!r}"):
            return 1
        for ci, (g, w) in enumerate(zip(grow, wrow)):
            where = f"{what}: row {ri} column {header[ci]!r} value {w!r} text read {g!r}"
            if w is None:
                continue
            if isinstance(w, bool):
                s.check(g == str(w), sig + "/cell", where)
            elif isinstance(w, int):
                s.check(_as_int(g) == w, sig + "/cell", where)
            elif isinstance(w, float):
                s.check(_as_float(g) == w, sig + "/cell", where)
            else:
                s.check(g == w, sig + "/cell", where)
    return 1


def _roundtrip(s, case, root):
    from cogent3.parse.table import load_delimited

    t = case["t"]
    header, rows, kinds = t["header"], t["rows"], t["kinds"]
    ix = index_of(t)
    ok, T = s.call("make_table", make_real, t, ix is not None)
    if not ok:
        return
    big_int = any(_beyond_int64(v) for r in rows for v in r if isinstance(v, int))
    if big_int:
        s.cls("cell:int-beyond-int64")
    if not compare(s, "make_table[int-beyond-int64]" if big_int else "make_table", T, model_header(t, True), model_rows(t, True), brief(t), api=False):
        return
    if big_int:
        # a column of integers must hold integers (a float column of equal values would be written as 3.0)
        ok, got = s.call("make_table/observe", observe_rows, T)
        want = model_rows(t, True)
        is_int = lambda v: isinstance(getattr(v, "item", lambda: v)(), int)  # noqa: E731
        bad = [(w, g) for wr, gr in zip(want, got) for w, g in zip(wr, gr) if isinstance(w, int) and not isinstance(w, bool) and not is_int(g)]
        if not s.check(not bad, "make_table[int-beyond-int64]/rows", f"{brief(t)}: integer cells held as {bad[:3]!r}"):
            return
    nrows = len(rows)
    s.cls("zero-row" if nrows == 0 else "one-row" if nrows == 1 else "rows>=2")
    if ix is not None:
        s.cls("index")
    if t.get("title"):
        s.cls("title")
    if t.get("legend"):
        s.cls("legend")
    if any(v is None for r in rows for v in r):
        s.cls("missing")
    text_cells = [v for r in rows for v, k in zip(r, kinds) if k == "text" and isinstance(v, str)]
    special = False
    for v in text_cells:
        for ch, nm in ((",", "comma"), ("\t", "tab"), ('"', "dquote"), ("'", "squote"), (case["sep"], "sep-override"), ("\n", "lf"), ("\r", "cr")):
            if ch in v:
                s.cls("cell:" + nm)
                special = True
        if v == "":
            s.cls("cell:empty")
        elif v != v.strip():
            s.cls("cell:blank-edge")
        if _beyond_int64(v):
            s.cls("cell:digits-beyond-int64")
    if any(ch in h for h in header for ch in ',\t"'):
        s.cls("header:delimiter-or-quote")
    for ci, k in enumerate(kinds):
        col = [r[ci] for r in rows if r[ci] is not None]
        if k == "text" and col and all(_literal_like(v) for v in col):
            s.cls("text-column-all-literal-like")
            if any(_beyond_int64(v) for v in col):
                s.cls("text-column-all-digits-beyond-int64")
    has_num = any(k in ("int", "float", "ki") for k in kinds)
    has_text = any(k in ("text", "ks") for k in kinds)
    s.nontrivial = special or (nrows >= 2 and has_num and has_text)
    what0 = brief(t) + f" title={t.get('title')!r} legend={t.get('legend')!r} index={ix!r}"
    lkw = _load_kwargs(t.get("title"), t.get("legend"), ix)
    zr = "[zero-row]" if nrows == 0 else ""
    evals = _write_load_delimited(s, T, t, root, DELIMITED_NAMES, case["sep"], lkw, what0, True)
    evals += _write_load_strict(s, T, t, root, ix, what0, True)
    evals += _write_variant(s, T, t, root, case, lkw, what0)
    # display formats -> load_delimited (cells stay text)
    for name, sep in (("to_csv", ","), ("to_tsv", "\t")):
        wt, wl = bool(t.get("title")), bool(t.get("legend"))
        ok, txt = s.call("to_delimited" + zr, lambda: getattr(T, name)(with_title=wt, with_legend=wl))
        if not ok:
            continue
        path = os.path.join(root, name + ".txt")
        with open(path, "w", newline="") as out:
            out.write(txt + "\n")
        ok, res = s.call("to_delimited" + zr + "/load_delimited", lambda: load_delimited(path, sep=sep, with_title=wt, with_legend=wl))
        evals += 1
        if ok:
            _check_display(s, "to_delimited" + zr, res, t, sep, f"{name} -> load_delimited of {what0}")
    s.evals = max(1, evals)


def _literal_like(text):
    if text in ("True", "False", "None"):
        return True
    for parser in (int, float, complex):
        try:
            parser(text)
            return True
        except (ValueError, OverflowError):
            pass
    return False


def _display_circumstance(tab, sep):
    """deterministic description of what in the table needs quoting"""
    header, rows = model_header(tab, True), model_rows(tab, True)
    cells = [v for r in rows for v in r if isinstance(v, str)]
    if any("\r" in v for v in cells + list(header)):
        return "[cell-with-cr]"
    if any(sep in h or '"' in h for h in header):
        return "[header-needs-quoting]"
    if any('"' in v for v in cells):
        return "[cell-with-dquote]"
    if len(header) == 1 and any(v in ("", None) for r in rows for v in r):
        return "[lone-empty-cell]"
    return ""


def _check_display(s, sig, res, tab, sep, what):
    want_header = model_header(tab, True)
    want_rows = model_rows(tab, True)
    circ = _display_circumstance(tab, sep)
    if circ:
        # the table holds text that needs csv quoting: every discrepancy is reported under one signature per circumstance
        base = "to_delimited/quoting" + circ
        h_sig = rc_sig = fc_sig = t_sig = b_sig = i_sig = f_sig = base
    else:
        h_sig, rc_sig, fc_sig, t_sig = sig + "/header", sig + "/row-count", sig + "/field-count", sig + "/text-cell"
        b_sig, i_sig, f_sig = sig + "/bool-cell", sig + "/int-cell", sig + "/float-cell"
    try:
        hdr, got_rows = res[0], res[1]
    except Exception:  # noqa: BLE001
        s.fail(sig + "/result", f"{what}: unexpected result {res!r}")
        return
    if not s.eq(list(hdr), want_header, h_sig, what):
        return
    if not s.eq(len(got_rows), len(want_rows), rc_sig, f"{what}: rows {got_rows!r}"):
        return
    for ri, (grow, wrow) in enumerate(zip(got_rows, want_rows)):
        if not s.eq(len(grow), len(wrow), fc_sig, f"{what}: row {ri} fields {grow!r}"):
            return
        for ci, (g, w) in enumerate(zip(grow, wrow)):
            where = f"{what}: row {ri} column {want_header[ci]!r} value {w!r} text read {g!r}"
            if w is None:
                continue
            if isinstance(w, bool):
                s.check(g == str(w), b_sig, where)
            elif isinstance(w, int):
                s.check(_as_int(g) == w, i_sig, where)
            elif isinstance(w, float):
                v = _as_float(g)
                s.check(v is not None and abs(v - w) <= 5.0000001e-5 + 1e-12 * abs(w), f_sig, where)
            else:
                s.check(g == w, t_sig, where)


def _as_int(text):
    try:
        return int(text)
    except (ValueError, TypeError):
        return None


def _as_float(text):
    try:
        return float(text)
    except (ValueError, TypeError):
        return None


SUBS = [
    Sub("ops", exec_ops, strategy=op_cases(), quick=2000, thorough=320_000, shards_quick=16),
    Sub("roundtrip", exec_roundtrip, strategy=rt_cases(), quick=1000, thorough=160_000, shards_quick=16),
    Sub("chain", exec_chain, strategy=chain_cases(), quick=800, thorough=160_000, shards_quick=16),
]

KNOWN_PREDICATES = {}

META = {
    "technique": "Hypothesis-generated tables and operation arguments against a list-of-rows model written in the check; write/load round trips through real files in every supported delimited, compressed, JSON and pickle format",
    "level_text": "Each run builds thousands of small tables with mixed column kinds, duplicate keys, missing values, zero rows and awkward text (delimiters, quotes, blanks, line feeds and carriage returns, literal-looking cells, digit strings and integers beyond the int64 range), applies generated sorts, filters, counts, joins (natural, by name, by position, differently named keys, one side given, index default), appends (any column order, int with float), transpositions, column/row selections and derived columns, on the plain table and on the same table built with an index column, and compares header, shape, every cell and the documented state of the result's index with the same operation on a plain list of rows; results of joins, appends, transpositions, filters and sorts are fed back into two further operations and into a write/load cycle; every table is also written in eleven file formats plus one further calling convention of Table.write (writer=, compress=True, format= or sep= on a name without suffix) and read back, comparing header and every cell.",
    "level_note": "Trusts the row-list model in the check (about 500 lines). Bounded to 8 rows (48 after a cross join), 6 columns (12 after a join), ASCII text; line breaks and integers beyond int64 only in the round trip sub-check; chains are two operations deep; title/legend text itself is not asserted.",
    "design_ref": "DESIGN.md section 1, C20",
}
