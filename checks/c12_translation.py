"""C12 — translation and complementing follow the genetic-code tables.

Oracle: NCBI tables pinned in vlib/ncbi_codes.py and TCAG index arithmetic
``aa = table[16*i(b1) + 4*i(b2) + i(b3)]``; IUPAC base sets written here.
"""

from __future__ import annotations

import itertools

from hypothesis import strategies as st

from vlib.core import Soft, Sub
from vlib.ncbi_codes import CODES

PROPERTY_ID = "C12"
LEVEL = "exploration"
RULE = (
    "tables sub-check: all 27 codes x all 64 codons (DNA and RNA spelling) x every single-codon entry point, enumerated "
    "exhaustively; complement sub-check: every IUPAC symbol and every non-empty base subset x DNA/RNA x old/new moltype, "
    "exhaustive. translate sub-check: Hypothesis-generated canonical sequences (length 0-45, occasionally 46-765 or > 765 nt), "
    "code, DNA/RNA, translated through old/new GeneticCode.translate (3 starts, both strands), sixframes, old/new "
    "Sequence.get_translation (8 option combinations, also on reverse-complemented views), SequenceCollection / Alignment / "
    "ArrayAlignment / new-type collections and the translate_seqs app. Non-trivial = a case with code != 1, or a stop codon "
    "in some frame, or length not divisible by 3 read on the minus strand; distinct = distinct (code, sequence) pairs / "
    "(code, codon) pairs. tables also pushes all 15^3 IUPAC codons (DNA and RNA spelling) through old/new GeneticCode.translate "
    "(plus and minus strand) and old/new Sequence.get_translation for every code. complement also enumerates can_match for every "
    "pair of IUPAC symbols and the gap, resolved_ambiguities, count_degenerate, possibilities/count_variants, is_degenerate and "
    "(old) to_regex. protein sub-check: protein and protein_with_stop x old/new moltype, exhaustive: B, Z, X and every canonical "
    "residue resolve to their residue sets, every pair of residues (and every triple extending a B/Z pair) re-encodes to the least "
    "degenerate symbol, can_match for every symbol pair. frames sub-check: 1-3 generated nucleotide sequences (open frames on either "
    "strand with lead/tail bases, planted internal/terminal/double stops, stop-rich and random sequences, ambiguity codes, DNA/RNA, "
    "all codes) through app.translate.translate_frames, best_frame (allow_rc, require_stop) and the select_translatable app "
    "(allow_rc, trim_terminal_stop, frame; unaligned and aligned inputs). collections sub-check: 2-3 rows that differ in length, "
    "terminal/double/internal stops and ambiguity codes through old/new Sequence, old/new SequenceCollection, Alignment, "
    "ArrayAlignment get_translation (3 of the 8 option combinations per case), has_terminal_stop, trim_stop_codons and the "
    "translate_seqs app with and without trim_terminal_stop. gc_forms sub-check: 2-3 gap-free rows of whole codons (rich in codons whose meaning "
    "differs from the standard code, ending in a stop of the code, a codon that is a stop only in the standard code, or a sense codon), DNA/RNA, all codes; "
    "the code is named as int, str(int), its name, the old-style code object (cogent3.get_code(k)) and the new-style one (new_genetic_code.get_code(k)) "
    "at get_translation / has_terminal_stop / trim_stop_codon(s) of old- and new-style Sequence, SequenceCollection, Alignment, ArrayAlignment wherever the "
    "docstring (or an in-library caller) accepts that form, and at the translate_seqs and select_translatable apps (int, str, name, old-style object) "
    "applied to old-style and to new-style (make_unaligned_seqs(..., new_type=True)) collections; every combination must give the result of the pinned table."
)
ASSUMPTIONS = [
    "reference tables are a snapshot pinned in the harness (identical in both independent copies in the repository at development time; tables 1 and 2 compared with the published NCBI strings)",
    "new GeneticCode.translate(s, start, rc=True) follows its documented rule: slice at start, truncate to a multiple of three, translate the reverse complement (pinned by tests/test_core/test_new_genetic_code.py::test_sizeframes); old translate raises ValueError when start is beyond the sequence",
    "old-style get_translation keeps a terminal stop when include_stop=True even if trim_stop=True; new-style trims it (both behaviours are deliberate and differently documented); each implementation is compared with its own rule",
    "the translate sub-check translates canonical nucleotides only; sequences of length not divisible by three raise with the default strict trimming, as documented",
    "codons holding an IUPAC ambiguity code: both GeneticCode.translate implementations give 'X' (documented in __getitem__ / translate); new-style Sequence.get_translation gives 'X' with incomplete_ok=True and raises without (its docstring); old-style Sequence.get_translation translates every resolution of the codon, drops stop codons unless include_stop, and reports the least degenerate protein symbol (residue, B, Z or X), as pinned by tests/test_core/test_core_standalone.py::test_ambig_translate (CGN -> R, TGN -> X) and test_alignment.py::test_get_translation_with_stop; a codon whose every resolution is a stop (e.g. TAR) is neither trimmed as a terminal stop nor asserted when stops are excluded",
    "gaps and '?' are not generated in translated sequences (gapped/incomplete codons are covered by other properties); can_match with '?' is not asserted (the two moltype implementations differ); count_degenerate is asserted on gap-free text only (new counts gaps, old does not)",
    "protein X resolves to the whole canonical alphabet of the moltype (20 standard residues + U, and '*' for protein_with_stop); this is taken from the moltype's own alphabet, only B = {D, N}, Z = {E, Q} and the 20 standard residues are pinned independently",
    "best_frame (docstring): returns a frame 'that has either no stops or a single terminal stop codon', with require_stop 'a terminal stop must be present', ValueError otherwise; frame k = 1..3 reads seq[k-1:], -k reads rc(seq)[k-1:] (GeneticCode.sixframes). When several frames qualify any of them is accepted (the docstring gives no tie rule); when exactly one qualifies it must be returned; when none qualifies ValueError is required. Sequences shorter than 3 nt are not generated (sixframes raises ValueError for them)",
    "select_translatable (docstring + tests/test_app/test_translate.py): each kept sequence is the input oriented to the chosen frame, cut to whole codons from the frame start and, with trim_terminal_stop, without its terminal stop codon; with frame=k a sequence is excluded iff a stop occurs before the last codon of that frame (allow_rc is then irrelevant); excluded names are listed in info['translation_errors']; when nothing is translatable the app builds NotCompleted('FALSE', ...), so an ERROR-type result is reported (separate signature); aligned inputs are padded with trailing gaps which the app documents it removes (degap)",
    "gc_forms: which way of naming a code is in the domain of an entry point is taken from its docstring: old-style methods say 'valid input to cogent3.get_code(), a genetic code object, number or name' "
    "(cogent3.get_code returns old-style objects by default and raises for a new-style object, so new-style objects are not given to old-style classes or to the apps, whose gc is typed str | int | old GeneticCode); "
    "new-style Sequence.get_translation and new-style SequenceCollection.has_terminal_stop / trim_stop_codons carry the same sentence, so they are given old-style objects too (signature tag old-code-object-to-new-style); "
    "new-style Sequence.has_terminal_stop / trim_stop_codon say 'valid input to new_genetic_code.get_code()' and get new-style objects only; collection-level get_translation documents 'number or name' and is "
    "additionally given the code object of its own flavour (what app.translate hands to it). The apps are documented for SeqsCollectionType = 'SequenceCollection' / alignments, which the new-style SequenceCollection "
    "satisfies by name (make_unaligned_seqs documents new_type as the coming default); failures there carry the tag app-new-type. The class of the collection returned by an app is not asserted "
    "(select_translatable builds an old-style collection whatever it was given); with frame=None any qualifying frame is accepted",
    "collection has_terminal_stop / trim_stop_codons without strict leave rows whose length is not a multiple of three untouched (documented: strict raises for such rows); alignments replace a trimmed stop by gaps (tests/test_core/test_alignment.py::test_get_translation_trim_stop)",
]

BASES = "TCAG"
IUPAC = {
    "A": "A", "C": "C", "G": "G", "T": "T",
    "R": "AG", "Y": "CT", "M": "AC", "K": "GT", "W": "AT", "S": "CG",
    "B": "CGT", "D": "AGT", "H": "ACT", "V": "ACG", "N": "ACGT",
}
COMP = {"A": "T", "C": "G", "G": "C", "T": "A"}


def aa_of(table: str, codon: str) -> str:
    c = codon.upper().replace("U", "T")
    return table[16 * BASES.index(c[0]) + 4 * BASES.index(c[1]) + BASES.index(c[2])]


def model_translate(table: str, s: str, start: int = 0) -> str:
    s = s.upper().replace("U", "T")
    return "".join(aa_of(table, s[i : i + 3]) for i in range(start, len(s) - 2, 3))


def model_rc(s: str, rna=None) -> str:
    rna = ("U" in s) if rna is None else rna
    t = s.replace("U", "T")
    r = "".join(COMP[c] for c in reversed(t))
    return r.replace("T", "U") if rna else r


def model_get_translation(table, s, impl, include_stop, trim_stop, incomplete_ok):
    """returns ('ok', protein) or ('raise', reason)"""
    trimming = (trim_stop and not include_stop) if impl == "old" else trim_stop
    if trimming:
        if len(s) % 3:
            if not incomplete_ok:
                return ("raise", "length not divisible by 3 with strict trimming")
        elif s and aa_of(table, s[-3:]) == "*":
            s = s[:-3]
    pep = model_translate(table, s)
    if "*" in pep and not include_stop:
        return ("raise", "stop codon in translation")
    return ("ok", pep)


def symbol_for(bases, rna=False):
    want = set(bases)
    for sym, bs in IUPAC.items():
        if set(bs) == want:
            return sym.replace("T", "U") if rna else sym
    raise KeyError(bases)


# ----------------------------------------------- IUPAC-aware reference models
AMBIG = "RYMKWSBDHVN"
PROTEIN_AMBIG = {"B": "DN", "Z": "EQ"}
AA20 = "ACDEFGHIKLMNPQRSTVWY"


def comp_symbol(c: str, rna: bool) -> str:
    if c in "-?":
        return c
    return symbol_for([COMP[b] for b in IUPAC[c.replace("U", "T")]], rna)


def model_rc_iupac(s: str, rna: bool) -> str:
    return "".join(comp_symbol(c, rna) for c in reversed(s))


def is_canonical(codon: str) -> bool:
    return all(c in BASES for c in codon)


def aa_set(table: str, codon: str) -> set:
    c = codon.upper().replace("U", "T")
    return {aa_of(table, "".join(p)) for p in itertools.product(*(IUPAC[b] for b in c))}


def aa_symbol(aas: set) -> str:
    """least degenerate protein symbol covering a set of amino acids (and '*')"""
    if len(aas) == 1:
        return next(iter(aas))
    for sym, members in PROTEIN_AMBIG.items():
        if aas == set(members):
            return sym
    return "X"


def model_translate_x(table: str, s: str, start: int = 0) -> str:
    """GeneticCode.translate of a gap-free sequence: a codon holding an ambiguity code gives 'X' (both implementations
    document this)"""
    s = s.upper().replace("U", "T")
    out = []
    for i in range(start, len(s) - 2, 3):
        c = s[i : i + 3]
        out.append(aa_of(table, c) if is_canonical(c) else "X")
    return "".join(out)


def model_get_translation_iupac(table, s, impl, include_stop, trim_stop, incomplete_ok):
    """Sequence.get_translation of a gap-free sequence that may hold IUPAC ambiguity codes.
    returns ('ok', protein) | ('raise', why) | None (behaviour not pinned, nothing asserted)"""
    s = s.upper().replace("U", "T")
    trimming = (trim_stop and not include_stop) if impl == "old" else trim_stop
    if trimming:
        if len(s) % 3:
            if not incomplete_ok:
                return ("raise", "length not divisible by 3 with strict trimming")
        elif s and is_canonical(s[-3:]) and aa_of(table, s[-3:]) == "*":
            s = s[:-3]
    pep, unpinned = [], False
    for i in range(0, len(s) - 2, 3):
        c = s[i : i + 3]
        if is_canonical(c):
            aa = aa_of(table, c)
            if aa == "*" and not include_stop:
                return ("raise", "stop codon in translation")
        elif impl == "new":
            # documented: ambiguous codons are 'X' with incomplete_ok, AlphabetError without
            if not incomplete_ok:
                return ("raise", "ambiguous codon with incomplete_ok=False")
            aa = "X"
        else:
            # old style resolves the codon and reports the least degenerate protein symbol; stop codons among
            # the resolutions are dropped unless include_stop (tests/test_core/test_core_standalone.py::test_ambig_translate)
            aas = aa_set(table, c)
            if not include_stop:
                aas.discard("*")
            if not aas:
                unpinned = True  # every resolution is a stop codon
                aa = "?"
            else:
                aa = aa_symbol(aas)
        pep.append(aa)
    return None if unpinned else ("ok", "".join(pep))


# ------------------------------------------------------------ sub: tables
def exec_table(case) -> Soft:
    from cogent3.core import genetic_code as old_gc
    from cogent3.core import new_genetic_code as new_gc

    s = Soft("C12/")
    cid = case["code"]
    name, table, starts = CODES[cid]
    ok, og = s.call("old/get_code", old_gc.get_code, cid)
    ok2, ng = s.call("new/get_code", new_gc.get_code, cid)
    if not (ok and ok2):
        return s
    s.cls(f"code={cid}")
    evals = 0
    stops, sense = set(), set()
    by_aa = {}
    for b in itertools.product(BASES, repeat=3):
        codon = "".join(b)
        aa = aa_of(table, codon)
        (stops if aa == "*" else sense).add(codon)
        by_aa.setdefault(aa, set()).add(codon)
        for spell in (codon, codon.replace("T", "U"), codon.lower()):
            for impl, gc in (("old", og), ("new", ng)):
                evals += 1
                okc, got = s.call(f"{impl}/getitem", lambda: gc[spell])
                if okc:
                    s.eq(got, aa, f"{impl}/getitem", f"code {cid} codon {spell}")
        for impl, gc in (("old", og), ("new", ng)):
            okc, got = s.call(f"{impl}/is_stop", gc.is_stop, codon)
            if okc:
                s.eq(bool(got), aa == "*", f"{impl}/is_stop", f"code {cid} codon {codon}")
            okc, got = s.call(f"{impl}/translate-codon", gc.translate, codon)
            if okc:
                s.eq(got, aa, f"{impl}/translate-codon", f"code {cid} codon {codon}")
            evals += 2
        okc, got = s.call("new/translate-codon-minus", ng.translate, model_rc(codon), 0, True)
        if okc:
            s.eq(got, aa, "new/translate-codon-minus", f"code {cid}: rc of {codon} read on the minus strand")
        evals += 1
        s.extra_nontrivial.append(f"{cid}/{codon}")
    # every IUPAC codon (15^3, DNA and RNA spelling): GeneticCode.translate gives 'X' for a codon holding an ambiguity
    # code; old-style Sequence.get_translation resolves it to the least degenerate protein symbol (aa, B, Z, X)
    from cogent3 import make_seq

    iupac_codons = ["".join(p) for p in itertools.product(IUPAC, repeat=3)]
    for rna in (False, True):
        mtn = "rna" if rna else "dna"
        spell = (lambda c: c.replace("T", "U")) if rna else (lambda c: c)
        every = "".join(spell(c) for c in iupac_codons)
        want_x = model_translate_x(table, every)
        okc, got = s.call("old/translate-iupac", og.translate, every)
        if okc:
            s.eq(got, want_x, "old/translate-iupac", f"code {cid} {mtn}: all IUPAC codons")
        if not rna:  # the new genetic code documents DNA strings
            okc, got = s.call("new/translate-iupac", ng.translate, every)
            if okc:
                s.eq(got, want_x, "new/translate-iupac", f"code {cid}: all IUPAC codons")
            okc, got = s.call("new/translate-iupac-minus", ng.translate, model_rc_iupac(every, False), 0, True)
            if okc:
                s.eq(got, want_x, "new/translate-iupac-minus", f"code {cid}: rc of all IUPAC codons read on the minus strand")
        evals += 3 * len(iupac_codons)
        for inc in (True, False):
            # without include_stop, codons whose every resolution is a stop are rejected: leave them out
            codons = [c for c in iupac_codons if inc or aa_set(table, c) != {"*"}]
            text = "".join(spell(c) for c in codons)
            want = model_get_translation_iupac(table, text, "old", inc, False, False)
            okc, sq = s.call("old/make_seq", make_seq, text, name="q", moltype=mtn)
            if okc and want is not None:
                okc, got = s.call("old/seq.get_translation-iupac", lambda: str(sq.get_translation(gc=cid, include_stop=inc, trim_stop=False)))
                if okc and got != want[1]:
                    bad = [(codons[i], got[i : i + 1], want[1][i]) for i in range(len(codons)) if got[i : i + 1] != want[1][i]][:5]
                    s.fail("old/seq.get_translation-iupac", f"code {cid} {mtn} include_stop={inc}: (codon, got, want) {bad}")
            okc, sq = s.call("new/make_seq", make_seq, text, name="q", moltype=mtn, new_type=True)
            want = model_get_translation_iupac(table, text, "new", inc, False, True)
            if okc and want is not None and want[0] == "ok":
                okc, got = s.call("new/seq.get_translation-iupac", lambda: str(sq.get_translation(gc=cid, include_stop=inc, trim_stop=False, incomplete_ok=True)))
                if okc and got != want[1]:
                    bad = [(codons[i], got[i : i + 1], want[1][i]) for i in range(len(codons)) if got[i : i + 1] != want[1][i]][:5]
                    s.fail("new/seq.get_translation-iupac", f"code {cid} {mtn} include_stop={inc}: (codon, got, want) {bad}")
            evals += 2 * len(codons)
    # codon sets
    okc, got = s.call("new/stop_codons", lambda: set(ng.stop_codons))
    if okc:
        s.eq(got, stops, "new/stop_codons", f"code {cid}")
    okc, got = s.call("new/sense_codons", lambda: set(ng.sense_codons))
    if okc:
        s.eq(got, sense, "new/sense_codons", f"code {cid}")
    okc, got = s.call("old/sense_codons", lambda: set(og.sense_codons))
    if okc:
        s.eq(got, sense, "old/sense_codons", f"code {cid}")
    for aa, codons in by_aa.items():
        okc, got = s.call("old/synonyms", lambda: set(og[aa]))
        if okc:
            s.eq(got, codons, "old/synonyms", f"code {cid} aa {aa}")
        okc, got = s.call("new/synonyms", lambda: set(ng[aa]))
        if okc:
            s.eq(got, codons, "new/synonyms", f"code {cid} aa {aa}")
        evals += 2
    for inc in (False, True):
        want = 64 if inc else len(sense)
        okc, got = s.call("old/get_alphabet", lambda: set(og.get_alphabet(include_stop=inc)))
        if okc:
            s.eq(got, (sense | stops) if inc else sense, "old/get_alphabet", f"code {cid} include_stop={inc}")
        okc, got = s.call("new/get_alphabet", lambda: set(ng.get_alphabet(include_stop=inc)))
        if okc:
            s.eq(got, (sense | stops) if inc else sense, "new/get_alphabet", f"code {cid} include_stop={inc}")
        del want
    # start codons
    want_starts = {"".join(b) for i, b in enumerate(itertools.product(BASES, repeat=3)) if starts[i] == "M"}
    okc, got = s.call("new/start_codons", lambda: set(ng.start_codons))
    if okc:
        s.eq(got, want_starts, "new/start_codons", f"code {cid}")
    okc, got = s.call("old/start_codons", lambda: {c for c in sense | stops if og.is_start(c)})
    if okc:
        s.eq(got, want_starts, "old/start_codons", f"code {cid}")
    s.evals = evals
    s.nontrivial = True
    return s


def enum_tables(tier):
    return [{"code": c} for c in sorted(CODES)]


# -------------------------------------------------------- sub: complement
def exec_complement(case) -> Soft:
    from cogent3.core import moltype as old_mt
    from cogent3.core import new_moltype as new_mt

    s = Soft("C12/complement/")
    rna = case["mt"] == "rna"
    impl = case["impl"]
    mt = (old_mt if impl == "old" else new_mt).get_moltype(case["mt"])
    pre = f"{impl}/{case['mt']}/"
    evals = 0
    for sym, bases in IUPAC.items():
        q = sym.replace("T", "U") if rna else sym
        want = symbol_for([COMP[b] for b in bases], rna)
        ok, got = s.call(pre + "symbol", mt.complement, q)
        evals += 1
        if ok:
            s.eq(got, want, pre + "symbol", f"complement({q})")
        s.extra_nontrivial.append(f"{impl}/{case['mt']}/{sym}")
    for q in "-?":
        ok, got = s.call(pre + "gap", mt.complement, q)
        if ok:
            s.eq(got, q, pre + "gap", f"complement({q!r})")
    # ambiguity maps are mutual inverses
    for k in range(1, 5):
        for sub in itertools.combinations("ACGT", k):
            bases = [b.replace("T", "U") if rna else b for b in sub]
            want_sym = symbol_for(sub, rna)
            evals += 2
            if impl == "old":
                ok, sym = s.call(pre + "what_ambiguity", mt.what_ambiguity, bases)
            else:
                ok, sym = s.call(pre + "what_ambiguity", mt.degenerate_from_seq, "".join(bases))
            if ok:
                s.eq(sym, want_sym, pre + "what_ambiguity", f"bases {bases}")
            ok, res = s.call(pre + "resolve_ambiguity", mt.resolve_ambiguity, want_sym)
            if ok:
                s.eq(sorted(res), sorted(bases), pre + "resolve_ambiguity", f"symbol {want_sym}")
                if impl == "old":
                    ok2, back = s.call(pre + "roundtrip", mt.what_ambiguity, res)
                else:
                    ok2, back = s.call(pre + "roundtrip", mt.degenerate_from_seq, "".join(res))
                if ok2:
                    s.eq(back, want_sym, pre + "roundtrip", f"what(resolve({want_sym}))")
    # --- every pair of IUPAC symbols (and the gap): can_match is "the base sets intersect", gaps match gaps only
    from cogent3 import make_seq

    def spell(c):
        return c.replace("T", "U") if rna else c

    sets = {spell(sym): {spell(b) for b in bases} for sym, bases in IUPAC.items()}
    sets["-"] = {"-"}
    for a, b in itertools.product(sets, repeat=2):
        evals += 1
        ok, got = s.call(pre + "can_match", mt.can_match, a, b)
        if ok:
            s.eq(bool(got), bool(sets[a] & sets[b]), pre + "can_match", f"can_match({a!r}, {b!r})")
    every = "".join(sets)
    ok, sq = s.call(pre + "make_seq", make_seq, every, name="a", moltype=case["mt"], new_type=impl == "new")
    if ok:
        ok, got = s.call(pre + "resolved_ambiguities", lambda: [set(x) for x in sq.resolved_ambiguities()])
        if ok:
            s.eq(got, [sets[c] for c in every], pre + "resolved_ambiguities", f"{every!r}.resolved_ambiguities()")
        for sym in every:
            ok, got = s.call(pre + "seq.can_match", lambda: [bool(sq[i : i + 1].can_match(sym)) for i in range(len(every))])
            if ok:
                s.eq(got, [bool(sets[c] & sets[sym]) for c in every], pre + "seq.can_match", f"each symbol of {every!r} .can_match({sym!r})")
            evals += len(every)
    degen = "".join(spell(c) for c in IUPAC)  # no gap: the implementations differ on whether a gap is "degenerate"
    ok, sq = s.call(pre + "make_seq", make_seq, degen, name="a", moltype=case["mt"], new_type=impl == "new")
    if ok:
        ok, got = s.call(pre + "count_degenerate", lambda: int(sq.count_degenerate()))
        if ok:
            s.eq(got, len(IUPAC) - 4, pre + "count_degenerate", f"{degen!r}")
        want_n = 1
        for bases in IUPAC.values():
            want_n *= len(bases)
        ok, got = s.call(pre + "possibilities", lambda: int(sq.possibilities() if impl == "old" else sq.count_variants()))
        if ok:
            s.eq(got, want_n, pre + "possibilities", f"number of sequences matching {degen!r}")
    for sym, bases in IUPAC.items():
        ok, got = s.call(pre + "is_degenerate", mt.is_degenerate, spell(sym))
        if ok:
            s.eq(bool(got), len(bases) > 1, pre + "is_degenerate", f"is_degenerate({spell(sym)!r})")
    if impl == "old":
        import re

        ok, pat = s.call(pre + "to_regex", mt.to_regex, degen)
        if ok:
            okc, rx = s.call(pre + "to_regex", re.compile, pat)
            if okc:
                # the pattern has one character (class) per symbol: probe each position with each base
                canon_bases = [spell(b) for b in "ACGT"]
                for i, sym in enumerate(degen):
                    base_line = [sorted(sets[c])[0] for c in degen]
                    for b in canon_bases:
                        probe = base_line[:i] + [b] + base_line[i + 1 :]
                        s.eq(bool(rx.fullmatch("".join(probe))), b in sets[sym], pre + "to_regex", f"to_regex({degen!r}) at symbol {sym!r} against base {b!r}")
                        evals += 1
    s.evals = evals
    s.nontrivial = True
    return s


def enum_complement(tier):
    return [{"mt": m, "impl": i} for m in ("dna", "rna") for i in ("old", "new")]


# ------------------------------------------------- sub: protein ambiguity
def exec_protein(case) -> Soft:
    """B (Asx = D or N), Z (Glx = E or Q), X (any residue): resolving and re-encoding are mutual inverses"""
    from cogent3 import make_seq
    from cogent3.core import moltype as old_mt
    from cogent3.core import new_moltype as new_mt

    s = Soft("C12/protein/")
    impl, mtn = case["impl"], case["mt"]
    mt = (old_mt if impl == "old" else new_mt).get_moltype(mtn)
    pre = f"{impl}/{mtn}/"
    with_stop = mtn == "protein_with_stop"
    ok, alpha = s.call(pre + "alphabet", lambda: [str(c) for c in mt.alphabet])
    if not ok:
        return s
    s.check(set(AA20) <= set(alpha), pre + "alphabet", f"the 20 standard residues are canonical; got {alpha}")
    s.eq("*" in alpha, with_stop, pre + "alphabet", "'*' canonical only with stop")
    sets = {a: {a} for a in alpha}
    sets["B"], sets["Z"], sets["X"] = set("DN"), set("EQ"), set(alpha)
    evals = 0

    def encode(residues):
        if impl == "old":
            return mt.what_ambiguity(list(residues))
        return mt.degenerate_from_seq("".join(residues))

    for sym, members in sets.items():
        evals += 2
        ok, res = s.call(pre + "resolve_ambiguity", mt.resolve_ambiguity, sym)
        if ok:
            s.eq(set(res), members, pre + "resolve_ambiguity", f"symbol {sym}")
            s.eq(len(res), len(members), pre + "resolve_ambiguity", f"symbol {sym}: no repeats")
            ok2, back = s.call(pre + "roundtrip", encode, sorted(res))
            if ok2:
                s.eq(back, sym, pre + "roundtrip", f"encode(resolve({sym}))")
        ok, got = s.call(pre + "is_degenerate", mt.is_degenerate, sym)
        if ok:
            s.eq(bool(got), len(members) > 1, pre + "is_degenerate", f"symbol {sym}")
        s.extra_nontrivial.append(f"{impl}/{mtn}/{sym}")
    # every pair of canonical residues, and every triple extending a B or Z pair
    subsets = [tuple(p) for p in itertools.combinations(sorted(alpha), 2)]
    subsets += [tuple(sorted(set(m) | {a})) for m in ("DN", "EQ") for a in sorted(alpha) if a not in m]
    subsets.append(tuple(sorted(alpha)))
    for sub in subsets:
        evals += 1
        ok, got = s.call(pre + "what_ambiguity", encode, sub)
        if ok:
            s.eq(got, aa_symbol(set(sub)), pre + "what_ambiguity", f"residues {''.join(sub)}")
    # matching: two symbols can match when their residue sets intersect; gaps match gaps only
    msets = dict(sets)
    msets["-"] = {"-"}
    for a, b in itertools.product(msets, repeat=2):
        evals += 1
        ok, got = s.call(pre + "can_match", mt.can_match, a, b)
        if ok:
            s.eq(bool(got), bool(msets[a] & msets[b]), pre + "can_match", f"can_match({a!r}, {b!r})")
    every = "".join(sets)
    ok, sq = s.call(pre + "make_seq", make_seq, every, name="a", moltype=mtn, new_type=impl == "new")
    if ok:
        ok, got = s.call(pre + "resolved_ambiguities", lambda: [set(x) for x in sq.resolved_ambiguities()])
        if ok:
            s.eq(got, [sets[c] for c in every], pre + "resolved_ambiguities", f"{every!r}.resolved_ambiguities()")
        ok, got = s.call(pre + "count_degenerate", lambda: int(sq.count_degenerate()))
        if ok:
            s.eq(got, 3, pre + "count_degenerate", f"{every!r}")
        ok, got = s.call(pre + "possibilities", lambda: int(sq.possibilities() if impl == "old" else sq.count_variants()))
        if ok:
            s.eq(got, 4 * len(alpha), pre + "possibilities", f"number of sequences matching {every!r}")
    s.evals = evals
    s.nontrivial = True
    return s


def enum_protein(tier):
    return [{"mt": m, "impl": i} for m in ("protein", "protein_with_stop") for i in ("old", "new")]


@st.composite
def rc_cases(draw):
    mt = draw(st.sampled_from(["dna", "rna"]))
    alpha = "ACGTRYMKWSBDHVN-?" if mt == "dna" else "ACGURYMKWSBDHVN-?"
    seq = "".join(draw(st.lists(st.sampled_from(alpha), min_size=0, max_size=30)))
    return {"mt": mt, "seq": seq}


def exec_rc(case) -> Soft:
    from cogent3 import make_seq
    from cogent3.core import moltype as old_mt
    from cogent3.core import new_moltype as new_mt

    s = Soft("C12/rc/")
    seq, mtn = case["seq"], case["mt"]
    rna = mtn == "rna"

    def comp_sym(c):
        if c in "-?":
            return c
        return symbol_for([COMP[b] for b in IUPAC[c.replace("U", "T")]], rna)

    want_rc = "".join(comp_sym(c) for c in reversed(seq))
    for impl, mod in (("old", old_mt), ("new", new_mt)):
        mt = mod.get_moltype(mtn)
        ok, r = s.call(f"{impl}/moltype.rc", mt.rc, seq)
        if ok:
            s.eq(r, want_rc, f"{impl}/moltype.rc", f"rc({seq!r})")
            ok, rr = s.call(f"{impl}/moltype.rc", mt.rc, r)
            if ok:
                s.eq(rr, seq, f"{impl}/moltype.rc-involution", f"rc(rc({seq!r}))")
        ok, c = s.call(f"{impl}/moltype.complement", mt.complement, seq)
        if ok:
            s.eq(c, want_rc[::-1], f"{impl}/moltype.complement", f"complement({seq!r})")
        ok, sq = s.call(f"{impl}/make_seq", make_seq, seq, name="a", moltype=mtn, new_type=impl == "new")
        if ok:
            ok, r = s.call(f"{impl}/seq.rc", lambda: sq.rc())
            if ok:
                s.eq(str(r), want_rc, f"{impl}/seq.rc", f"{seq!r}.rc()")
                ok, rr = s.call(f"{impl}/seq.rc", lambda: r.rc())
                if ok:
                    s.eq(str(rr), seq, f"{impl}/seq.rc-involution", f"{seq!r}.rc().rc()")
            ok, c = s.call(f"{impl}/seq.complement", lambda: sq.complement())
            if ok:
                s.eq(str(c), want_rc[::-1], f"{impl}/seq.complement", f"{seq!r}.complement()")
    s.nontrivial = len(set(seq) - set("ACGTU")) > 0 and len(seq) > 1
    return s


# ------------------------------------------- sub: frames (app/translate.py)
def _all_codons():
    return ["".join(b) for b in itertools.product(BASES, repeat=3)]


def _offframe_rich(sense):
    """sense codons that tend to put stop codons into the other five frames"""
    rich = [c for c in sense if c in ("TTA", "CTA", "TCA") or c[1:] in ("TA", "TG") or c[:2] in ("AA", "AG", "GA")]
    return rich or sense


@st.composite
def _draw_nuc_seq(draw, table, min_codons=1, max_codons=11, designs=("orf", "orf", "orf_rc", "orf_rc", "random", "stoprich", "double_stop")):
    codons = _all_codons()
    sense = [c for c in codons if aa_of(table, c) != "*"]
    stops = [c for c in codons if aa_of(table, c) == "*"]
    rich = _offframe_rich(sense)
    bases = st.sampled_from(BASES)
    design = draw(st.sampled_from(designs))
    if design in ("random", "stoprich"):
        n = draw(st.integers(3, 3 * max_codons + 4))
        pool = bases if design == "random" else st.sampled_from("TTAAG")
        s = "".join(draw(st.lists(pool, min_size=n, max_size=n)))
    else:
        ncod = draw(st.integers(min_codons, max_codons))
        body = draw(st.lists(st.one_of(st.sampled_from(rich), st.sampled_from(sense)), min_size=ncod, max_size=ncod))
        if stops and ncod > 1 and draw(st.integers(0, 4)) == 0:
            body[draw(st.integers(0, ncod - 1))] = draw(st.sampled_from(stops))  # internal (or last-codon) stop
        term = ""
        if stops:
            nstop = 2 if design == "double_stop" else draw(st.sampled_from([0, 1, 1]))
            term = "".join(draw(st.sampled_from(stops)) for _ in range(nstop))
        lead = "".join(draw(st.lists(bases, min_size=0, max_size=2)))
        tail = "".join(draw(st.lists(bases, min_size=0, max_size=2)))
        s = lead + "".join(body) + term + tail
        if design == "orf_rc":
            s = model_rc(s, rna=False)
    if draw(st.integers(0, 3)) == 0:  # ambiguity codes at one or two positions
        for _ in range(draw(st.integers(1, 2))):
            i = draw(st.integers(0, len(s) - 1))
            s = s[:i] + draw(st.sampled_from(AMBIG)) + s[i + 1 :]
    return s


@st.composite
def frame_cases(draw):
    code = draw(st.sampled_from(sorted(CODES)))
    table = CODES[code][1]
    rna = draw(st.integers(0, 3)) == 0
    seqs = [draw(_draw_nuc_seq(table)) for _ in range(draw(st.integers(1, 3)))]
    if rna:
        seqs = [q.replace("T", "U") for q in seqs]
    return {
        "code": code,
        "rna": rna,
        "seqs": seqs,
        "allow_rc": draw(st.booleans()),
        "require_stop": draw(st.booleans()),
        "trim": draw(st.booleans()),
        "frame": draw(st.sampled_from([None, None, None, 1, 2, 3])),
        "container": draw(st.sampled_from(["unaligned", "unaligned", "Alignment", "ArrayAlignment"])),
    }


FRAME_IDS = (1, 2, 3, -1, -2, -3)


def model_frames(table, seq, rna):
    """{frame id: translation} with the numbering of app.translate: k = 1,2,3 reads seq[k-1:], -k reads rc(seq)[k-1:]"""
    rcs = model_rc_iupac(seq, rna)
    out = {}
    for k in range(3):
        out[k + 1] = model_translate_x(table, seq, k)
        out[-(k + 1)] = model_translate_x(table, rcs, k)
    return out


def frame_ok(tr: str, require_stop: bool) -> bool:
    """best_frame docstring: a frame 'that has either no stops or a single terminal stop codon'; with require_stop
    'a terminal stop must be present'"""
    n = tr.count("*")
    if require_stop:
        return n == 1 and tr.endswith("*")
    return n == 0 or (n == 1 and tr.endswith("*"))


def model_selected(table, seq, rna, frame, trim):
    """the sequence select_translatable returns for a reading frame: oriented, cut to whole codons from the frame start,
    terminal stop codon removed when asked"""
    t = seq if frame > 0 else model_rc_iupac(seq, rna)
    k = abs(frame) - 1
    n = (len(t) - k) // 3
    t = t[k : k + 3 * n]
    if trim and t and is_canonical(t[-3:].replace("U", "T")) and aa_of(table, t[-3:]) == "*":
        t = t[:-3]
    return t


def exec_frames(case) -> Soft:
    import cogent3
    from cogent3 import make_aligned_seqs, make_seq, make_unaligned_seqs
    from cogent3.app.composable import NotCompleted
    from cogent3.app.translate import best_frame, translate_frames

    s = Soft("C12/frames/")
    cid, rna, seqs = case["code"], case["rna"], case["seqs"]
    allow_rc, require_stop, trim, frame = case["allow_rc"], case["require_stop"], case["trim"], case["frame"]
    table = CODES[cid][1]
    mtn = "rna" if rna else "dna"
    names = [f"s{i}" for i in range(len(seqs))]
    considered = FRAME_IDS if allow_rc else FRAME_IDS[:3]
    evals = 0
    per_seq = {}
    for name, seq in zip(names, seqs):
        fr = model_frames(table, seq, rna)
        what = f"code {cid} {seq!r} allow_rc={allow_rc}"
        ok, obj = s.call("make_seq", make_seq, seq, name=name, moltype=mtn)
        if not ok:
            continue
        # --- translate_frames: a Sequence, and a string with a moltype
        want = [fr[f] for f in considered]
        variants = [("translate_frames", lambda: translate_frames(obj, gc=cid, allow_rc=allow_rc))]
        if name == names[0]:
            variants.append(("translate_frames-str", lambda: translate_frames(seq, moltype=mtn, gc=cid, allow_rc=allow_rc)))
        for label, call in variants:
            evals += len(want)
            okf, got = s.call(label, call)
            if okf:
                s.eq([str(x) for x in got], want, label, what)
        # --- best_frame
        for rs in (require_stop,):
            valid = [f for f in considered if frame_ok(fr[f], rs)]
            tag = "best_frame/require_stop" if rs else "best_frame"
            evals += 1
            okb, got = s.call(tag, best_frame, obj, cid, allow_rc, rs, allowed=(ValueError,))
            if okb:
                if not s.check(got in considered, tag + "/frame-id", f"{what} require_stop={rs}: returned {got!r}"):
                    pass
                elif got not in valid:
                    tr = fr[got]
                    if not rs and tr.count("*") == 2 and tr.endswith("**"):
                        s.fail("best_frame/double-terminal-stop-accepted", f"{what}: returned frame {got} whose translation {tr!r} has two stop codons")
                    else:
                        s.fail(tag + "/bad-frame", f"{what} require_stop={rs}: returned frame {got} with translation {tr!r}; acceptable frames {valid}")
            elif isinstance(got, ValueError) and valid:
                s.fail(tag + "/valid-frame-rejected", f"{what} require_stop={rs}: ValueError({got}) although frames {valid} qualify: { {f: fr[f] for f in valid} }")
            if len(valid) == 1:
                s.cls("best_frame:unique")
                if valid[0] < 0:
                    s.cls("best_frame:unique-on-rc")
            elif not valid:
                s.cls("best_frame:none")
            else:
                s.cls("best_frame:several")
        # --- what select_translatable must do with this sequence
        if frame is None:
            good = [f for f in considered if frame_ok(fr[f], False)]
            double = [f for f in considered if fr[f].count("*") == 2 and fr[f].endswith("**")]
        else:
            # documented: "specify the coding frame"; a stop before the last codon of that frame excludes the sequence
            good = [frame] if "*" not in fr[frame][:-1] else []
            double = []
        per_seq[name] = {
            "keep": [model_selected(table, seq, rna, f, trim) for f in good],
            "double": [model_selected(table, seq, rna, f, trim) for f in double],
        }
    if len(per_seq) != len(seqs):
        return s
    # --- select_translatable
    data = dict(zip(names, seqs))
    width = max(len(q) for q in seqs)
    if case["container"] == "unaligned":
        mk = lambda: make_unaligned_seqs(data, moltype=mtn)  # noqa: E731
    else:
        padded = {n: q + "-" * (width - len(q)) for n, q in data.items()}
        mk = lambda: make_aligned_seqs(padded, moltype=mtn, array_align=case["container"] == "ArrayAlignment")  # noqa: E731
    okm, coll = s.call("construct", mk)
    oka, app = s.call("get_app", lambda: cogent3.get_app("select_translatable", moltype=mtn, gc=cid, allow_rc=allow_rc, trim_terminal_stop=trim, frame=frame))
    if okm and oka:
        what = f"code {cid} {data} allow_rc={allow_rc} trim_terminal_stop={trim} frame={frame} ({case['container']})"
        evals += len(seqs)
        okr, res = s.call("select_translatable", app, coll)
        want_kept = [n for n in names if per_seq[n]["keep"]]
        if okr and isinstance(res, NotCompleted):
            if want_kept:
                sure = [n for n in want_kept]
                s.fail("select_translatable/not-completed", f"{what}: {res.type} {str(res.message)[-200:]!r}; expected to keep {sure}")
            else:
                s.cls("select:none-kept")
                # main() builds NotCompleted("FALSE", ...): nothing translatable is a negative result, not a failure
                s.check(res.type == "FALSE", "select_translatable/none-translatable-is-ERROR", f"{what}: NotCompleted type {res.type!r}: {str(res.message)[-300:]!r}")
        elif okr:
            okd, got = s.call("select_translatable/to_dict", lambda: {n: str(v) for n, v in res.to_dict().items()})
            if okd:
                for n in names:
                    exp = per_seq[n]
                    if n in got:
                        if got[n] in exp["keep"]:
                            continue
                        if not exp["keep"] and got[n] in exp["double"]:
                            s.fail("select_translatable/double-terminal-stop-kept", f"{what}: {n} returned as {got[n]!r}, its translation ends with two stop codons")
                        elif not exp["keep"]:
                            s.fail("select_translatable/untranslatable-kept", f"{what}: {n} returned as {got[n]!r} but no considered frame is free of internal stops")
                        else:
                            s.fail("select_translatable/wrong-sequence", f"{what}: {n} returned as {got[n]!r}; expected one of {exp['keep']}")
                    elif exp["keep"]:
                        s.fail("select_translatable/translatable-dropped", f"{what}: {n} missing; expected one of {exp['keep']}")
                s.eq(sorted(set(got) - set(names)), [], "select_translatable/names", what)
                if set(got) == set(want_kept):
                    oke, errs = s.call("select_translatable/translation_errors", lambda: [e[0] for e in res.info["translation_errors"]])
                    if oke:
                        s.eq(errs, [n for n in names if n not in want_kept], "select_translatable/translation_errors", f"{what}: names recorded in info.translation_errors")
                    s.cls("select:some-dropped" if len(want_kept) < len(names) else "select:all-kept")
                okl, lab = s.call("select_translatable/moltype", lambda: res.moltype.label)
                if okl:
                    s.eq(lab, mtn, "select_translatable/moltype", what)
    s.evals = evals
    s.nontrivial = True
    s.cls("rna" if rna else "dna", f"frame={frame}", f"allow_rc={allow_rc}", case["container"])
    if cid != 1:
        s.cls("non-standard-code")
    if any(set(q) - set("ACGTU") for q in seqs):
        s.cls("ambiguity-codes")
    return s


# --------------------------- sub: collections (rows differ; ambiguity codes)
@st.composite
def coll_cases(draw):
    code = draw(st.sampled_from(sorted(CODES)))
    table = CODES[code][1]
    rna = draw(st.integers(0, 3)) == 0
    codons = _all_codons()
    sense = [c for c in codons if aa_of(table, c) != "*"]
    stops = [c for c in codons if aa_of(table, c) == "*"]
    equal = draw(st.booleans())
    nrows = draw(st.integers(2, 3))
    shared_n = draw(st.integers(2, 8))
    shared_tail = draw(st.sampled_from([0, 0, 0, 1, 2]))
    rows = []
    for _ in range(nrows):
        ncod = shared_n if equal else draw(st.integers(1, 8))
        tail = shared_tail if equal else draw(st.sampled_from([0, 0, 0, 1, 2]))
        body = draw(st.lists(st.sampled_from(sense), min_size=ncod, max_size=ncod))
        if stops:
            ending = draw(st.sampled_from(["none", "none", "stop", "stop", "double", "internal"]))
            if ending == "stop":
                body[-1] = draw(st.sampled_from(stops))
            elif ending == "double" and ncod >= 2:
                body[-1] = draw(st.sampled_from(stops))
                body[-2] = draw(st.sampled_from(stops))
            elif ending == "internal" and ncod >= 2:
                body[draw(st.integers(0, ncod - 2))] = draw(st.sampled_from(stops))
        row = "".join(body) + "".join(draw(st.lists(st.sampled_from(BASES), min_size=tail, max_size=tail)))
        if draw(st.integers(0, 2)) == 0:
            for _ in range(draw(st.integers(1, 2))):
                i = draw(st.integers(0, len(row) - 1))
                row = row[:i] + draw(st.sampled_from(AMBIG)) + row[i + 1 :]
        rows.append(row.replace("T", "U") if rna else row)
    opts = draw(st.lists(st.integers(0, 7), min_size=3, max_size=3, unique=True))  # indexes into OPTS
    return {"code": code, "rna": rna, "rows": rows, "opts": sorted(opts)}


def exec_coll(case) -> Soft:
    import cogent3
    from cogent3 import make_aligned_seqs, make_seq, make_unaligned_seqs
    from cogent3.app.composable import NotCompleted

    s = Soft("C12/coll/")
    cid, rna, rows = case["code"], case["rna"], case["rows"]
    table = CODES[cid][1]
    mtn = "rna" if rna else "dna"
    data = {f"r{i}": r for i, r in enumerate(rows)}
    equal = len({len(r) for r in rows}) == 1
    opts = [OPTS[i] for i in case["opts"]]
    evals = 0

    def terminal_stop(r):
        c = r[-3:].replace("U", "T")
        return len(r) % 3 == 0 and len(r) >= 3 and is_canonical(c) and aa_of(table, c) == "*"

    # --- single sequences (ambiguity codes; old/new)
    for n, r in data.items():
        for impl in ("old", "new"):
            ok, obj = s.call(f"{impl}/make_seq", make_seq, r, name=n, moltype=mtn, new_type=impl == "new")
            if not ok:
                continue
            for inc, trim, incomplete in opts:
                want = model_get_translation_iupac(table, r, impl, inc, trim, incomplete)
                if want is None:
                    continue
                evals += 1
                _cmp(
                    s,
                    f"{impl}/seq.get_translation",
                    f"code {cid} {r!r} include_stop={inc} trim_stop={trim} incomplete_ok={incomplete}",
                    lambda: obj.get_translation(gc=cid, include_stop=inc, trim_stop=trim, incomplete_ok=incomplete),
                    want,
                )
    # --- containers
    makers = [
        ("old/SequenceCollection", "old", False, lambda: make_unaligned_seqs(data, moltype=mtn)),
        ("new/SequenceCollection", "new", False, lambda: make_unaligned_seqs(data, moltype=mtn, new_type=True)),
    ]
    if equal:
        makers += [
            ("old/Alignment", "old", True, lambda: make_aligned_seqs(data, moltype=mtn, array_align=False)),
            ("old/ArrayAlignment", "old", True, lambda: make_aligned_seqs(data, moltype=mtn, array_align=True)),
        ]
    for label, impl, aligned, mk in makers:
        okm, coll = s.call(label + "/construct", mk)
        if not okm:
            continue
        for inc, trim, incomplete in opts:
            wants = {n: model_get_translation_iupac(table, r, impl, inc, trim, incomplete) for n, r in data.items()}
            if any(w is not None and w[0] == "raise" for w in wants.values()):
                want = ("raise", "a row is rejected")
            elif any(w is None for w in wants.values()):
                continue
            else:
                # alignments keep their length: a trimmed terminal stop becomes a gap
                trimming = trim and not inc
                exp = {n: w[1] + ("-" if aligned and trimming and terminal_stop(data[n]) else "") for n, w in wants.items()}
                want = ("ok", repr(sorted(exp.items())))
            evals += 1
            _cmp(
                s,
                f"{label}.get_translation",
                f"code {cid} rows {data} include_stop={inc} trim_stop={trim} incomplete_ok={incomplete}",
                lambda: repr(sorted((n, str(v)) for n, v in coll.get_translation(gc=cid, include_stop=inc, trim_stop=trim, incomplete_ok=incomplete).to_dict().items())),
                want,
            )
        # has_terminal_stop / trim_stop_codons; rows whose length is not a multiple of three are left alone unless strict
        any_stop = any(terminal_stop(r) for r in rows)
        divisible = all(len(r) % 3 == 0 for r in rows)
        evals += 2
        _cmp(s, f"{label}.has_terminal_stop", f"code {cid} rows {data}", lambda: str(bool(coll.has_terminal_stop(gc=cid))), ("ok", str(any_stop)))
        trimmed = {n: (r[:-3] + ("---" if aligned else "")) if terminal_stop(r) else r for n, r in data.items()}
        _cmp(
            s,
            f"{label}.trim_stop_codons",
            f"code {cid} rows {data}",
            lambda: repr(sorted((n, str(v)) for n, v in coll.trim_stop_codons(gc=cid).to_dict().items())),
            ("ok", repr(sorted(trimmed.items()))),
        )
        if not divisible:
            _cmp(s, f"{label}.trim_stop_codons-strict", f"code {cid} rows {data} strict=True", lambda: coll.trim_stop_codons(gc=cid, strict=True), ("raise", "a row length is not divisible by 3"))
    # --- the translate_seqs app: get_translation(gc, trim_stop=trim_terminal_stop) of old-style containers
    for label, aligned, mk in [(m[0], m[2], m[3]) for m in makers if m[1] == "old" and "Array" not in m[0]]:
        okm, coll = s.call("app/construct", mk)
        if not okm:
            continue
        for trim in (True, False):
            oka, app = s.call("app/get_app", lambda: cogent3.get_app("translate_seqs", moltype=mtn, gc=cid, trim_terminal_stop=trim))
            if not oka:
                continue
            wants = {n: model_get_translation_iupac(table, r, "old", False, trim, False) for n, r in data.items()}
            rejected = any(w is not None and w[0] == "raise" for w in wants.values())
            if not rejected and any(w is None for w in wants.values()):
                continue
            evals += 1
            what = f"code {cid} rows {data} trim_terminal_stop={trim} ({label})"
            okr, res = s.call("app/translate_seqs", app, coll)
            if not okr:
                continue
            failed = isinstance(res, NotCompleted)  # (a collection of empty sequences is falsy too)
            if rejected:
                s.check(failed, "app/translate_seqs/accepted", f"{what}: expected NotCompleted, got {res!r}"[:400])
            elif s.check(not failed, "app/translate_seqs/not-completed", f"{what}: {res!r}"[:400]):
                exp = {n: w[1] + ("-" if aligned and trim and terminal_stop(data[n]) else "") for n, w in wants.items()}
                s.eq(sorted((n, str(v)) for n, v in res.to_dict().items()), sorted(exp.items()), "app/translate_seqs", what)
    s.evals = evals
    s.nontrivial = True
    s.cls("rna" if rna else "dna", "equal-length" if equal else "ragged")
    if len({terminal_stop(r) for r in rows}) == 2:
        s.cls("rows differ in terminal stop")
    if any(set(r) - set("ACGTU") for r in rows):
        s.cls("ambiguity-codes")
    if cid != 1:
        s.cls("non-standard-code")
    return s


# ------------------------- sub: gc_forms (every documented way of naming a genetic code)
GC_FORMS = ("int", "str", "name", "old-object", "new-object")


@st.composite
def gcform_cases(draw):
    """2-3 gap-free rows of whole codons without internal stops, rich in codons whose meaning differs between this code
    and the standard code; rows end with a stop of this code, with a codon that is a stop only in the standard code, or
    with a plain sense codon"""
    code = draw(st.sampled_from(sorted(CODES)))
    table = CODES[code][1]
    std = CODES[1][1]
    codons = _all_codons()
    sense = [c for c in codons if aa_of(table, c) != "*"]
    stops = [c for c in codons if aa_of(table, c) == "*"]
    differ = [c for c in sense if aa_of(std, c) != aa_of(table, c)] or sense  # includes codons that are stops in code 1 only
    std_stop_only = [c for c in sense if aa_of(std, c) == "*"] or sense
    rna = draw(st.integers(0, 3)) == 0
    rows = []
    for _ in range(draw(st.integers(2, 3))):
        ncod = draw(st.integers(1, 6))
        body = draw(st.lists(st.one_of(st.sampled_from(differ), st.sampled_from(sense)), min_size=ncod, max_size=ncod))
        ending = draw(st.sampled_from(["stop", "stop", "sense", "std-stop"]))
        if ending == "stop" and stops:
            body.append(draw(st.sampled_from(stops)))
        elif ending == "std-stop":
            body.append(draw(st.sampled_from(std_stop_only)))
        row = "".join(body)
        rows.append(row.replace("T", "U") if rna else row)
    return {"code": code, "rna": rna, "rows": rows, "frame": draw(st.sampled_from([1, 1, None])), "trim": draw(st.booleans())}


def exec_gcforms(case) -> Soft:
    """int, str(int), name, old-style and new-style genetic code objects must select the same pinned table at every entry
    point whose docstring (or an in-library caller) accepts them"""
    import cogent3
    from cogent3 import make_aligned_seqs, make_seq, make_unaligned_seqs
    from cogent3.app.composable import NotCompleted
    from cogent3.core import genetic_code as old_gc
    from cogent3.core import new_genetic_code as new_gc

    s = Soft("C12/gcarg/")
    cid, rna, rows = case["code"], case["rna"], case["rows"]
    name, table = CODES[cid][0], CODES[cid][1]
    mtn = "rna" if rna else "dna"
    data = {f"r{i}": r for i, r in enumerate(rows)}
    equal = len({len(r) for r in rows}) == 1
    oko, og = s.call("old/get_code", old_gc.get_code, cid)
    okn, ng = s.call("new/get_code", new_gc.get_code, cid)
    forms = {"int": cid, "str": str(cid), "name": name}
    if oko:
        forms["old-object"] = og
    if okn:
        forms["new-object"] = ng
    evals = 0

    def terminal_stop(r):
        return len(r) >= 3 and aa_of(table, r[-3:]) == "*"

    def sig_for(form, impl, label):
        # an old-style code object given to a new-style sequence / collection fails for one reason whatever the method
        if form == "old-object" and impl == "new":
            return "old-code-object-to-new-style"
        return f"{form}/{impl}/{label}"

    def accepted(form, impl, method):
        """is this way of naming the code documented for the entry point?  old-style docstrings: 'valid input to
        cogent3.get_code(), a genetic code object, number or name' (cogent3.get_code rejects a new-style object);
        new-style Sequence.get_translation and new-style SequenceCollection.has_terminal_stop / trim_stop_codons say the same
        (cogent3.get_code returns and accepts old-style objects), new-style Sequence.has_terminal_stop / trim_stop_codon
        say 'valid input to new_genetic_code.get_code()'; collection get_translation documents number or name, and is
        handed a code object by app.translate"""
        if form in ("int", "str", "name"):
            return True
        if impl == "old":
            return form == "old-object"
        if form == "new-object":
            return True
        return method in ("seq.get_translation", "coll.has_terminal_stop", "coll.trim_stop_codons")

    opts = ((False, True, False), (True, False, False))  # include_stop, trim_stop, incomplete_ok
    # --- single sequences
    for impl in ("old", "new"):
        n0, r0 = "r0", rows[0]
        ok, obj = s.call(f"{impl}/make_seq", make_seq, r0, name=n0, moltype=mtn, new_type=impl == "new")
        if not ok:
            continue
        term = terminal_stop(r0)
        for form, g in forms.items():
            what = f"code {cid} given as {form} ({impl}-style Sequence {r0!r})"
            if accepted(form, impl, "seq.get_translation"):
                for inc, trim, incomplete in opts:
                    evals += 1
                    _cmp(s, sig_for(form, impl, "seq.get_translation"), f"{what} include_stop={inc} trim_stop={trim}",
                         lambda: obj.get_translation(gc=g, include_stop=inc, trim_stop=trim, incomplete_ok=incomplete),
                         model_get_translation(table, r0, impl, inc, trim, incomplete))
            if accepted(form, impl, "seq.has_terminal_stop"):
                evals += 2
                _cmp(s, sig_for(form, impl, "seq.has_terminal_stop"), what, lambda: str(bool(obj.has_terminal_stop(gc=g))), ("ok", str(term)))
                _cmp(s, sig_for(form, impl, "seq.trim_stop_codon"), what, lambda: obj.trim_stop_codon(gc=g), ("ok", r0[:-3] if term else r0))
    # --- containers
    makers = [
        ("SequenceCollection", "old", False, lambda: make_unaligned_seqs(data, moltype=mtn)),
        ("SequenceCollection", "new", False, lambda: make_unaligned_seqs(data, moltype=mtn, new_type=True)),
    ]
    if equal:
        makers += [
            ("Alignment", "old", True, lambda: make_aligned_seqs(data, moltype=mtn, array_align=False)),
            ("ArrayAlignment", "old", True, lambda: make_aligned_seqs(data, moltype=mtn, array_align=True)),
        ]
    any_stop = any(terminal_stop(r) for r in rows)
    for label, impl, aligned, mk in makers:
        okm, coll = s.call(f"{impl}/{label}/construct", mk)
        if not okm:
            continue
        for form, g in forms.items():
            what = f"code {cid} given as {form} ({impl}-style {label} {data})"
            # collection level get_translation: number or name (docstring), and the flavour's own code object (what
            # app.translate hands to it for old-style collections; the new-style method passes it on to Sequence.get_translation)
            if form in ("int", "str", "name") or form == f"{impl}-object":
                for inc, trim, incomplete in opts:
                    wants = {n: model_get_translation(table, r, impl, inc, trim, incomplete) for n, r in data.items()}
                    trimming = trim and not inc
                    exp = {n: w[1] + ("-" if aligned and trimming and terminal_stop(data[n]) else "") for n, w in wants.items()}
                    evals += 1
                    _cmp(s, sig_for(form, impl, f"{label}.get_translation"), f"{what} include_stop={inc} trim_stop={trim}",
                         lambda: repr(sorted((n, str(v)) for n, v in coll.get_translation(gc=g, include_stop=inc, trim_stop=trim, incomplete_ok=incomplete).to_dict().items())),
                         ("ok", repr(sorted(exp.items()))))
            if accepted(form, impl, "coll.has_terminal_stop"):
                evals += 2
                _cmp(s, sig_for(form, impl, f"{label}.has_terminal_stop"), what, lambda: str(bool(coll.has_terminal_stop(gc=g))), ("ok", str(any_stop)))
                trimmed = {n: (r[:-3] + ("---" if aligned else "")) if terminal_stop(r) else r for n, r in data.items()}
                _cmp(s, sig_for(form, impl, f"{label}.trim_stop_codons"), what,
                     lambda: repr(sorted((n, str(v)) for n, v in coll.trim_stop_codons(gc=g).to_dict().items())), ("ok", repr(sorted(trimmed.items()))))
    # --- the apps: 'identifier for a genetic code or a genetic code instance' (typed str | int | old-style GeneticCode),
    #     fed old-style and new-style unaligned collections
    frame, trim = case["frame"], case["trim"]
    for impl in ("old", "new"):
        okm, coll = s.call(f"app/{impl}/construct", lambda: make_unaligned_seqs(data, moltype=mtn, new_type=impl == "new"))
        if not okm:
            continue
        pre = "app" if impl == "old" else "app-new-type"  # circumstance tag: new-style collections given to the apps
        for form, g in forms.items():
            if form == "new-object":
                continue
            what = f"code {cid} given as {form}; {impl}-style SequenceCollection {data}"
            fsig = f"{pre}/{form}" if impl == "old" else pre
            # translate_seqs
            oka, app = s.call(f"{fsig}/translate_seqs/get_app", lambda: cogent3.get_app("translate_seqs", moltype=mtn, gc=g, trim_terminal_stop=trim))
            if oka:
                evals += 1
                wants = {n: model_get_translation(table, r, impl, False, trim, False) for n, r in data.items()}
                rejected = any(w[0] == "raise" for w in wants.values())  # a terminal stop that is not trimmed
                okr, res = s.call(f"{fsig}/translate_seqs", app, coll)
                if okr:
                    failed = isinstance(res, NotCompleted)
                    if rejected:
                        s.check(failed, f"{fsig}/translate_seqs/accepted", f"{what} trim_terminal_stop={trim}: expected NotCompleted, got {res!r}"[:400])
                    elif s.check(not failed, f"{fsig}/translate_seqs/not-completed", f"{what} trim_terminal_stop={trim}: {res!r}"[:500]):
                        okd, got = s.call(f"{fsig}/translate_seqs/to_dict", lambda: sorted((n, str(v)) for n, v in res.to_dict().items()))
                        if okd:
                            s.eq(got, sorted((n, w[1]) for n, w in wants.items()), f"{fsig}/translate_seqs", f"{what} trim_terminal_stop={trim}")
            # select_translatable: no row has an internal stop in frame 1
            oka, app = s.call(f"{fsig}/select_translatable/get_app", lambda: cogent3.get_app("select_translatable", moltype=mtn, gc=g, trim_terminal_stop=trim, frame=frame))
            if oka:
                evals += 1
                okr, res = s.call(f"{fsig}/select_translatable", app, coll)
                if okr and s.check(not isinstance(res, NotCompleted), f"{fsig}/select_translatable/not-completed", f"{what} trim_terminal_stop={trim} frame={frame}: {res!r}"[:500]):
                    okd, got = s.call(f"{fsig}/select_translatable/to_dict", lambda: {n: str(v) for n, v in res.to_dict().items()})
                    if okd:
                        for n, r in data.items():
                            if frame is None:
                                fr = model_frames(table, r, rna)
                                keep = [model_selected(table, r, rna, f, trim) for f in (1, 2, 3) if frame_ok(fr[f], False)]
                            else:
                                keep = [model_selected(table, r, rna, 1, trim)]
                            s.check(got.get(n) in keep, f"{fsig}/select_translatable", f"{what} trim_terminal_stop={trim} frame={frame}: {n} returned as {got.get(n)!r}; expected one of {keep}")
    s.evals = evals
    s.nontrivial = True
    s.cls("rna" if rna else "dna", "equal-length" if equal else "ragged", f"frame={frame}")
    if cid != 1:
        s.cls("non-standard-code")
    if any(aa_of(table, r[i : i + 3]) != aa_of(CODES[1][1], r[i : i + 3]) for r in rows for i in range(0, len(r), 3)):
        s.cls("codon-differs-from-standard-code")
    if any_stop:
        s.cls("terminal-stop")
    return s


# --------------------------------------------------------- sub: translate
@st.composite
def translate_cases(draw):
    code = draw(st.sampled_from(sorted(CODES)))
    table = CODES[code][1]
    rna = draw(st.booleans())
    long_ = draw(st.integers(0, 24)) == 0
    medium = (not long_) and draw(st.integers(0, 24)) == 0
    n = draw(st.integers(766, 800)) if long_ else draw(st.integers(46, 765)) if medium else draw(st.integers(0, 45))
    stop_codons = [c for c in ("".join(b) for b in itertools.product(BASES, repeat=3)) if aa_of(table, c) == "*"]
    if long_ or medium:
        u = 7 if long_ else 11
        unit = "".join(draw(st.lists(st.sampled_from(BASES), min_size=u, max_size=u)))
        seq = (unit * (n // u + 1))[:n]
    else:
        seq = "".join(draw(st.lists(st.sampled_from(BASES), min_size=n, max_size=n)))
    # plant stops: terminal and/or internal, in frame 0
    plant = draw(st.sampled_from(["none", "none", "terminal", "internal", "both"]))
    if stop_codons and n >= 6:
        n3 = n - n % 3
        if plant in ("terminal", "both"):
            seq = seq[: n3 - 3] + draw(st.sampled_from(stop_codons)) + seq[n3:]
        if plant in ("internal", "both"):
            k = 3 * draw(st.integers(0, n3 // 3 - 2))
            seq = seq[:k] + draw(st.sampled_from(stop_codons)) + seq[k + 3 :]
    if rna:
        seq = seq.replace("T", "U")
    return {"code": code, "seq": seq, "rna": rna}


OPTS = list(itertools.product([False, True], repeat=3))  # include_stop, trim_stop, incomplete_ok


def _cmp(s: Soft, sig, what, fn, want):
    """want = ('ok', str) | ('raise', why)"""
    try:
        got = fn()
    except Exception as e:  # noqa: BLE001
        from vlib.core import raised_in_repo

        if not raised_in_repo(e):
            raise
        if want[0] == "ok":
            from vlib.core import exception_site

            s.fail(f"{sig}/raises:{type(e).__name__}@{exception_site(e)}", f"{what}: raised {type(e).__name__}: {e}; expected {want[1]!r}")
        return
    if want[0] == "raise":
        s.fail(sig + "/accepted", f"{what}: returned {str(got)[:80]!r}; expected an exception ({want[1]})")
    else:
        s.eq(str(got), want[1], sig, what)


def exec_translate(case) -> Soft:
    import cogent3
    from cogent3 import make_aligned_seqs, make_seq, make_unaligned_seqs
    from cogent3.core import genetic_code as old_gc
    from cogent3.core import new_genetic_code as new_gc

    s = Soft("C12/")
    cid, seq, rna = case["code"], case["seq"], case["rna"]
    table = CODES[cid][1]
    mtn = "rna" if rna else "dna"
    og, ng = old_gc.get_code(cid), new_gc.get_code(cid)
    L = len(seq)
    rcs = model_rc(seq, rna) if seq else ""
    # the new genetic code object documents DNA input for strings; RNA sequences reach it as index arrays
    dna_str = seq.replace("U", "T")
    frames_plus = [model_translate(table, seq, k) for k in range(3)]
    frames_rc = [model_translate(table, rcs, k) for k in range(3)]
    evals = 0
    # --- GeneticCode.translate, every start, both strands
    for k in range(3):
        evals += 3
        if L and k + 1 > L:
            try:
                og.translate(seq, k)
                s.fail("old/translate/start-beyond-end-accepted", f"len {L} start {k}")
            except ValueError:
                pass
            except Exception as e:  # noqa: BLE001
                s.fail(f"old/translate/start-beyond-end-raises:{type(e).__name__}", str(e))
        else:
            _cmp(s, "old/translate", f"code {cid} {seq[:60]!r} start {k}", lambda: og.translate(seq, k), ("ok", frames_plus[k]))
        _cmp(s, "new/translate-plus", f"code {cid} {seq[:60]!r} start {k}", lambda: ng.translate(dna_str, k), ("ok", frames_plus[k]))
        trunc = seq[k:]
        trunc = trunc[: len(trunc) - len(trunc) % 3]
        want_minus = model_translate(table, model_rc(trunc)) if trunc else ""
        _cmp(s, "new/translate-minus", f"code {cid} {seq[:60]!r} start {k} rc=True", lambda: ng.translate(dna_str, k, rc=True), ("ok", want_minus))
    # --- the new code object also takes index arrays (how sequences reach it); both modules resolve a code by name
    if L:
        from cogent3.core import new_moltype

        oki, arr = s.call("new/to_indices", new_moltype.DNA.alphabet.to_indices, dna_str)
        if oki:
            for k in range(3):
                evals += 1
                _cmp(s, "new/translate-array", f"code {cid} {seq[:60]!r} start {k} (index array)", lambda: ng.translate(arr, k), ("ok", frames_plus[k]))
    for impl, mod in (("old", old_gc), ("new", new_gc)):
        okn, byname = s.call(f"{impl}/get_code-by-name", mod.get_code, CODES[cid][0])
        if okn:
            s.eq(byname.ID, cid, f"{impl}/get_code-by-name", f"get_code({CODES[cid][0]!r}).ID")
    # --- sixframes
    ok, dna_old = s.call("old/make_seq", make_seq, seq, name="q", moltype=mtn)
    ok2, dna_new = s.call("new/make_seq", make_seq, seq, name="q", moltype=mtn, new_type=True)
    if ok and L >= 3:
        okf, got = s.call("old/sixframes", og.sixframes, dna_old)
        evals += 1
        if okf:
            s.eq(list(got), frames_plus + frames_rc, "old/sixframes", f"code {cid} {seq[:60]!r}")
    okf, got = s.call("new/sixframes", lambda: list(ng.sixframes(dna_str)))
    evals += 1
    if okf:
        want = []
        for strand in "+-":
            for k in range(3):
                trunc = seq[k:]
                trunc = trunc[: len(trunc) - len(trunc) % 3]
                want.append((strand, k, model_translate(table, trunc if strand == "+" else model_rc(trunc)) if trunc else ""))
        s.eq([tuple(x) for x in got], want, "new/sixframes", f"code {cid} {seq[:60]!r}")
        # old and new six-frame outputs agree under the documented relabelling new(-,k) == old(-,(L-k)%3)
        if ok and L >= 3 and len(got) == 6:
            for k in range(3):
                s.eq(got[3 + k][2], frames_rc[(L - k) % 3], "sixframes/old-new-relabel", f"code {cid} {seq[:60]!r} minus frame {k}")
    # --- sequence level
    seq_objs = []
    if ok:
        seq_objs.append(("old", "fresh", dna_old))
    if ok2:
        seq_objs.append(("new", "fresh", dna_new))
    # the same sequence displayed by a reverse-complemented view
    if seq:
        okv, v = s.call("old/view", lambda: make_seq(rcs, name="q", moltype=mtn).rc())
        if okv:
            seq_objs.append(("old", "rcview", v))
        okv, v = s.call("new/view", lambda: make_seq(rcs, name="q", moltype=mtn, new_type=True).rc())
        if okv:
            seq_objs.append(("new", "rcview", v))
    for impl, kind, obj in seq_objs:
        for inc, trim, incomplete in OPTS:
            evals += 1
            want = model_get_translation(table, seq, impl, inc, trim, incomplete)
            _cmp(
                s,
                f"{impl}/seq.get_translation",
                f"code {cid} {kind} {seq[:60]!r} include_stop={inc} trim_stop={trim} incomplete_ok={incomplete}",
                lambda: obj.get_translation(gc=cid, include_stop=inc, trim_stop=trim, incomplete_ok=incomplete),
                want,
            )
        # has_terminal_stop / trim_stop_codon
        if L % 3 == 0:
            term = L >= 3 and aa_of(table, seq[-3:]) == "*"
            _cmp(s, f"{impl}/has_terminal_stop", f"code {cid} {seq[:60]!r}", lambda: str(obj.has_terminal_stop(gc=cid)), ("ok", str(term)))
            _cmp(s, f"{impl}/trim_stop_codon", f"code {cid} {seq[:60]!r}", lambda: obj.trim_stop_codon(gc=cid), ("ok", seq[:-3] if term else seq))
    # --- collections (two rows of equal length: the sequence and a copy with another first codon)
    if L >= 6 and L <= 60:
        first = "AAA" if seq[:3].replace("U", "T") != "AAA" else "CCC"
        alt = first + seq[3:]
        if aa_of(table, first) == "*":
            first = "GGG"
            alt = first + seq[3:]
        data = {"a": seq, "b": alt}
        makers = [
            ("old/SequenceCollection", lambda: make_unaligned_seqs(data, moltype=mtn)),
            ("old/Alignment", lambda: make_aligned_seqs(data, moltype=mtn, array_align=False)),
            ("old/ArrayAlignment", lambda: make_aligned_seqs(data, moltype=mtn, array_align=True)),
            ("new/SequenceCollection", lambda: make_unaligned_seqs(data, moltype=mtn, new_type=True)),
        ]
        for label, mk in makers:
            impl = label.split("/")[0]
            okm, coll = s.call(label + "/construct", mk)
            if not okm:
                continue
            for inc, trim, incomplete in ((False, True, False), (True, True, False), (True, False, False), (False, True, True)):
                evals += 1
                wants = {n: model_get_translation(table, r, impl, inc, trim, incomplete) for n, r in data.items()}
                # alignments keep their length: a trimmed terminal stop becomes a gap column
                pad = "-" if ("Alignment" in label and trim and not inc and L % 3 == 0 and aa_of(table, seq[-3:]) == "*") else ""
                if any(w[0] == "raise" for w in wants.values()):
                    want = ("raise", "a row is rejected")
                else:
                    want = ("ok", repr(sorted((n, w[1] + pad) for n, w in wants.items())))
                _cmp(
                    s,
                    f"{label}.get_translation",
                    f"code {cid} rows {data} include_stop={inc} trim_stop={trim} incomplete_ok={incomplete}",
                    lambda: repr(sorted(coll.get_translation(gc=cid, include_stop=inc, trim_stop=trim, incomplete_ok=incomplete).to_dict().items())),
                    want,
                )
        # the translate_seqs app (old-style collections)
        okm, coll = s.call("app/construct", lambda: make_unaligned_seqs(data, moltype=mtn))
        if okm:
            oka, app = s.call("app/get_app", lambda: cogent3.get_app("translate_seqs", moltype=mtn, gc=cid))
            if oka:
                wants = {n: model_get_translation(table, r, "old", False, True, False) for n, r in data.items()}
                evals += 1
                try:
                    res = app(coll)
                    if any(w[0] == "raise" for w in wants.values()):
                        s.check(not bool(res), "app/translate_seqs/accepted", f"code {cid} rows {data}: expected NotCompleted, got {res!r}"[:300])
                    elif s.check(bool(res), "app/translate_seqs/not-completed", f"code {cid} rows {data}: {res!r}"[:300]):
                        s.eq(sorted(res.to_dict().items()), sorted((n, w[1]) for n, w in wants.items()), "app/translate_seqs", f"code {cid} rows {data}")
                except Exception as e:  # noqa: BLE001
                    s.fail(f"app/translate_seqs/raises:{type(e).__name__}", str(e))
    s.evals = evals
    stops_anywhere = any("*" in f for f in frames_plus + frames_rc)
    s.nontrivial = L >= 3 and (cid != 1 or stops_anywhere or L % 3 != 0)
    s.cls("rna" if rna else "dna", f"len%3={L % 3}")
    if L > 765:
        s.cls(">=256 codons")
    if stops_anywhere:
        s.cls("has-stop")
    if cid != 1:
        s.cls("non-standard-code")
    return s


SUBS = [
    Sub("tables", exec_table, enumerate=enum_tables, exhaustive=True),
    Sub("complement", exec_complement, enumerate=enum_complement, exhaustive=True),
    Sub("protein", exec_protein, enumerate=enum_protein, exhaustive=True),
    Sub("rc", exec_rc, strategy=rc_cases(), quick=1500, thorough=160_000, shards_quick=8),
    Sub("translate", exec_translate, strategy=translate_cases(), quick=1600, thorough=320_000, shards_quick=16),
    Sub("collections", exec_coll, strategy=coll_cases(), quick=640, thorough=160_000, shards_quick=16),
    Sub("frames", exec_frames, strategy=frame_cases(), quick=800, thorough=240_000, shards_quick=16),
    Sub("gc_forms", exec_gcforms, strategy=gcform_cases(), quick=192, thorough=80_000, shards_quick=16),
]

KNOWN_PREDICATES = {}

# thorough tier: coverage-guided campaigns (atheris/libFuzzer mutating the bytes Hypothesis draws from)
FUZZ = {
    "subs": ['rc', 'translate', 'frames'],
    "targets": ['cogent3.core.genetic_code', 'cogent3.core.new_genetic_code', 'cogent3.core.moltype', 'cogent3.core.new_moltype', 'cogent3.core.sequence', 'cogent3.core.new_sequence', 'cogent3.app.translate'],
    "execs_thorough": 40_000, "jobs_thorough": 4, "execs_quick": 1000, "jobs_quick": 2,
}

META = {
    "technique": "exhaustive enumeration (27 codes x 64 codons, all IUPAC symbols/base subsets) plus Hypothesis-generated sequences, against pinned NCBI tables with TCAG index arithmetic",
    "level_text": "The finite part of the property (every code table entry through every single-codon entry point; all 3375 IUPAC codons per code; complement, matching and ambiguity maps of every IUPAC symbol for DNA/RNA and of B/Z/X for protein moltypes, old and new) is enumerated completely; multi-codon behaviour (frames, strands, stop handling, views, ragged collections, alignments, frame selection by best_frame / select_translatable, the translate_seqs app, every documented way of naming the genetic code: number, string, name, old- and new-style code object, apps on old- and new-style collections) is explored with thousands of generated sequences per run, including lengths around the 256-codon boundary, ambiguity codes and open frames on the reverse strand only.",
    "level_note": "Trusts the pinned table snapshot in vlib/ncbi_codes.py and a 10-line reference translator. Gapped codons (incomplete_ok with gaps) and '?' are not asserted; when several reading frames qualify, any of them is accepted from best_frame.",
    "design_ref": "DESIGN.md section 1, C12",
}
