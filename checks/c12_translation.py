"""C12 — translation and complementing follow the genetic-code tables.

Oracle: NCBI tables pinned in vlib/ncbi_codes.py and TCAG index arithmetic
``aa = table[16*i(b1) + 4*i(b2) + i(b3)]``; IUPAC base sets written here.
"""

from __future__ import annotations

import itertools

from hypothesis import strategies as st

from vlib.core import Soft, Sub
from vlib.ncbi_codes import CODES

PROPERTY_ID = "C12"
LEVEL = "exploration"
RULE = (
    "tables sub-check: all 27 codes x all 64 codons (DNA and RNA spelling) x every single-codon entry point, enumerated "
    "exhaustively; complement sub-check: every IUPAC symbol and every non-empty base subset x DNA/RNA x old/new moltype, "
    "exhaustive. translate sub-check: Hypothesis-generated canonical sequences (length 0-45, occasionally > 768 nt), "
    "code, DNA/RNA, translated through old/new GeneticCode.translate (3 starts, both strands), sixframes, old/new "
    "Sequence.get_translation (8 option combinations, also on reverse-complemented views), SequenceCollection / Alignment / "
    "ArrayAlignment / new-type collections and the translate_seqs app. Non-trivial = a case with code != 1, or a stop codon "
    "in some frame, or length not divisible by 3 read on the minus strand; distinct = distinct (code, sequence) pairs / "
    "(code, codon) pairs."
)
ASSUMPTIONS = [
    "reference tables are a snapshot pinned in the harness (identical in both independent copies in the repository at development time; tables 1 and 2 compared with the published NCBI strings)",
    "new GeneticCode.translate(s, start, rc=True) follows its documented rule: slice at start, truncate to a multiple of three, translate the reverse complement (pinned by tests/test_core/test_new_genetic_code.py::test_sizeframes); old translate raises ValueError when start is beyond the sequence",
    "old-style get_translation keeps a terminal stop when include_stop=True even if trim_stop=True; new-style trims it (both behaviours are deliberate and differently documented); each implementation is compared with its own rule",
    "only canonical nucleotides are translated here (the statement quantifies over canonical sequences); sequences of length not divisible by three raise with the default strict trimming, as documented",
]

BASES = "TCAG"
IUPAC = {
    "A": "A", "C": "C", "G": "G", "T": "T",
    "R": "AG", "Y": "CT", "M": "AC", "K": "GT", "W": "AT", "S": "CG",
    "B": "CGT", "D": "AGT", "H": "ACT", "V": "ACG", "N": "ACGT",
}
COMP = {"A": "T", "C": "G", "G": "C", "T": "A"}


def aa_of(table: str, codon: str) -> str:
    c = codon.upper().replace("U", "T")
    return table[16 * BASES.index(c[0]) + 4 * BASES.index(c[1]) + BASES.index(c[2])]


def model_translate(table: str, s: str, start: int = 0) -> str:
    s = s.upper().replace("U", "T")
    return "".join(aa_of(table, s[i : i + 3]) for i in range(start, len(s) - 2, 3))


def model_rc(s: str, rna=None) -> str:
    rna = ("U" in s) if rna is None else rna
    t = s.replace("U", "T")
    r = "".join(COMP[c] for c in reversed(t))
    return r.replace("T", "U") if rna else r


def model_get_translation(table, s, impl, include_stop, trim_stop, incomplete_ok):
    """returns ('ok', protein) or ('raise', reason)"""
    trimming = (trim_stop and not include_stop) if impl == "old" else trim_stop
    if trimming:
        if len(s) % 3:
            if not incomplete_ok:
                return ("raise", "length not divisible by 3 with strict trimming")
        elif s and aa_of(table, s[-3:]) == "*":
            s = s[:-3]
    pep = model_translate(table, s)
    if "*" in pep and not include_stop:
        return ("raise", "stop codon in translation")
    return ("ok", pep)


def symbol_for(bases, rna=False):
    want = set(bases)
    for sym, bs in IUPAC.items():
        if set(bs) == want:
            return sym.replace("T", "U") if rna else sym
    raise KeyError(bases)


# ------------------------------------------------------------ sub: tables
def exec_table(case) -> Soft:
    from cogent3.core import genetic_code as old_gc
    from cogent3.core import new_genetic_code as new_gc

    s = Soft("C12/")
    cid = case["code"]
    name, table, starts = CODES[cid]
    ok, og = s.call("old/get_code", old_gc.get_code, cid)
    ok2, ng = s.call("new/get_code", new_gc.get_code, cid)
    if not (ok and ok2):
        return s
    s.cls(f"code={cid}")
    evals = 0
    stops, sense = set(), set()
    by_aa = {}
    for b in itertools.product(BASES, repeat=3):
        codon = "".join(b)
        aa = aa_of(table, codon)
        (stops if aa == "*" else sense).add(codon)
        by_aa.setdefault(aa, set()).add(codon)
        for spell in (codon, codon.replace("T", "U"), codon.lower()):
            for impl, gc in (("old", og), ("new", ng)):
                evals += 1
                okc, got = s.call(f"{impl}/getitem", lambda: gc[spell])
                if okc:
                    s.eq(got, aa, f"{impl}/getitem", f"code {cid} codon {spell}")
        for impl, gc in (("old", og), ("new", ng)):
            okc, got = s.call(f"{impl}/is_stop", gc.is_stop, codon)
            if okc:
                s.eq(bool(got), aa == "*", f"{impl}/is_stop", f"code {cid} codon {codon}")
            okc, got = s.call(f"{impl}/translate-codon", gc.translate, codon)
            if okc:
                s.eq(got, aa, f"{impl}/translate-codon", f"code {cid} codon {codon}")
            evals += 2
        okc, got = s.call("new/translate-codon-minus", ng.translate, model_rc(codon), 0, True)
        if okc:
            s.eq(got, aa, "new/translate-codon-minus", f"code {cid}: rc of {codon} read on the minus strand")
        evals += 1
        s.extra_nontrivial.append(f"{cid}/{codon}")
    # codon sets
    okc, got = s.call("new/stop_codons", lambda: set(ng.stop_codons))
    if okc:
        s.eq(got, stops, "new/stop_codons", f"code {cid}")
    okc, got = s.call("new/sense_codons", lambda: set(ng.sense_codons))
    if okc:
        s.eq(got, sense, "new/sense_codons", f"code {cid}")
    okc, got = s.call("old/sense_codons", lambda: set(og.sense_codons))
    if okc:
        s.eq(got, sense, "old/sense_codons", f"code {cid}")
    for aa, codons in by_aa.items():
        okc, got = s.call("old/synonyms", lambda: set(og[aa]))
        if okc:
            s.eq(got, codons, "old/synonyms", f"code {cid} aa {aa}")
        okc, got = s.call("new/synonyms", lambda: set(ng[aa]))
        if okc:
            s.eq(got, codons, "new/synonyms", f"code {cid} aa {aa}")
        evals += 2
    for inc in (False, True):
        want = 64 if inc else len(sense)
        okc, got = s.call("old/get_alphabet", lambda: set(og.get_alphabet(include_stop=inc)))
        if okc:
            s.eq(got, (sense | stops) if inc else sense, "old/get_alphabet", f"code {cid} include_stop={inc}")
        okc, got = s.call("new/get_alphabet", lambda: set(ng.get_alphabet(include_stop=inc)))
        if okc:
            s.eq(got, (sense | stops) if inc else sense, "new/get_alphabet", f"code {cid} include_stop={inc}")
        del want
    # start codons
    want_starts = {"".join(b) for i, b in enumerate(itertools.product(BASES, repeat=3)) if starts[i] == "M"}
    okc, got = s.call("new/start_codons", lambda: set(ng.start_codons))
    if okc:
        s.eq(got, want_starts, "new/start_codons", f"code {cid}")
    okc, got = s.call("old/start_codons", lambda: {c for c in sense | stops if og.is_start(c)})
    if okc:
        s.eq(got, want_starts, "old/start_codons", f"code {cid}")
    s.evals = evals
    s.nontrivial = True
    return s


def enum_tables(tier):
    return [{"code": c} for c in sorted(CODES)]


# -------------------------------------------------------- sub: complement
def exec_complement(case) -> Soft:
    from cogent3.core import moltype as old_mt
    from cogent3.core import new_moltype as new_mt

    s = Soft("C12/complement/")
    rna = case["mt"] == "rna"
    impl = case["impl"]
    mt = (old_mt if impl == "old" else new_mt).get_moltype(case["mt"])
    pre = f"{impl}/{case['mt']}/"
    evals = 0
    for sym, bases in IUPAC.items():
        q = sym.replace("T", "U") if rna else sym
        want = symbol_for([COMP[b] for b in bases], rna)
        ok, got = s.call(pre + "symbol", mt.complement, q)
        evals += 1
        if ok:
            s.eq(got, want, pre + "symbol", f"complement({q})")
        s.extra_nontrivial.append(f"{impl}/{case['mt']}/{sym}")
    for q in "-?":
        ok, got = s.call(pre + "gap", mt.complement, q)
        if ok:
            s.eq(got, q, pre + "gap", f"complement({q!r})")
    # ambiguity maps are mutual inverses
    for k in range(1, 5):
        for sub in itertools.combinations("ACGT", k):
            bases = [b.replace("T", "U") if rna else b for b in sub]
            want_sym = symbol_for(sub, rna)
            evals += 2
            if impl == "old":
                ok, sym = s.call(pre + "what_ambiguity", mt.what_ambiguity, bases)
            else:
                ok, sym = s.call(pre + "what_ambiguity", mt.degenerate_from_seq, "".join(bases))
            if ok:
                s.eq(sym, want_sym, pre + "what_ambiguity", f"bases {bases}")
            ok, res = s.call(pre + "resolve_ambiguity", mt.resolve_ambiguity, want_sym)
            if ok:
                s.eq(sorted(res), sorted(bases), pre + "resolve_ambiguity", f"symbol {want_sym}")
                if impl == "old":
                    ok2, back = s.call(pre + "roundtrip", mt.what_ambiguity, res)
                else:
                    ok2, back = s.call(pre + "roundtrip", mt.degenerate_from_seq, "".join(res))
                if ok2:
                    s.eq(back, want_sym, pre + "roundtrip", f"what(resolve({want_sym}))")
    s.evals = evals
    s.nontrivial = True
    return s


def enum_complement(tier):
    return [{"mt": m, "impl": i} for m in ("dna", "rna") for i in ("old", "new")]


@st.composite
def rc_cases(draw):
    mt = draw(st.sampled_from(["dna", "rna"]))
    alpha = "ACGTRYMKWSBDHVN-?" if mt == "dna" else "ACGURYMKWSBDHVN-?"
    seq = "".join(draw(st.lists(st.sampled_from(alpha), min_size=0, max_size=30)))
    return {"mt": mt, "seq": seq}


def exec_rc(case) -> Soft:
    from cogent3 import make_seq
    from cogent3.core import moltype as old_mt
    from cogent3.core import new_moltype as new_mt

    s = Soft("C12/rc/")
    seq, mtn = case["seq"], case["mt"]
    rna = mtn == "rna"

    def comp_sym(c):
        if c in "-?":
            return c
        return symbol_for([COMP[b] for b in IUPAC[c.replace("U", "T")]], rna)

    want_rc = "".join(comp_sym(c) for c in reversed(seq))
    for impl, mod in (("old", old_mt), ("new", new_mt)):
        mt = mod.get_moltype(mtn)
        ok, r = s.call(f"{impl}/moltype.rc", mt.rc, seq)
        if ok:
            s.eq(r, want_rc, f"{impl}/moltype.rc", f"rc({seq!r})")
            ok, rr = s.call(f"{impl}/moltype.rc", mt.rc, r)
            if ok:
                s.eq(rr, seq, f"{impl}/moltype.rc-involution", f"rc(rc({seq!r}))")
        ok, c = s.call(f"{impl}/moltype.complement", mt.complement, seq)
        if ok:
            s.eq(c, want_rc[::-1], f"{impl}/moltype.complement", f"complement({seq!r})")
        ok, sq = s.call(f"{impl}/make_seq", make_seq, seq, name="a", moltype=mtn, new_type=impl == "new")
        if ok:
            ok, r = s.call(f"{impl}/seq.rc", lambda: sq.rc())
            if ok:
                s.eq(str(r), want_rc, f"{impl}/seq.rc", f"{seq!r}.rc()")
                ok, rr = s.call(f"{impl}/seq.rc", lambda: r.rc())
                if ok:
                    s.eq(str(rr), seq, f"{impl}/seq.rc-involution", f"{seq!r}.rc().rc()")
            ok, c = s.call(f"{impl}/seq.complement", lambda: sq.complement())
            if ok:
                s.eq(str(c), want_rc[::-1], f"{impl}/seq.complement", f"{seq!r}.complement()")
    s.nontrivial = len(set(seq) - set("ACGTU")) > 0 and len(seq) > 1
    return s


# --------------------------------------------------------- sub: translate
@st.composite
def translate_cases(draw):
    code = draw(st.sampled_from(sorted(CODES)))
    table = CODES[code][1]
    rna = draw(st.booleans())
    long_ = draw(st.integers(0, 24)) == 0
    n = draw(st.integers(766, 800)) if long_ else draw(st.integers(0, 45))
    stop_codons = [c for c in ("".join(b) for b in itertools.product(BASES, repeat=3)) if aa_of(table, c) == "*"]
    if long_:
        unit = "".join(draw(st.lists(st.sampled_from(BASES), min_size=7, max_size=7)))
        seq = (unit * (n // 7 + 1))[:n]
    else:
        seq = "".join(draw(st.lists(st.sampled_from(BASES), min_size=n, max_size=n)))
    # plant stops: terminal and/or internal, in frame 0
    plant = draw(st.sampled_from(["none", "none", "terminal", "internal", "both"]))
    if stop_codons and n >= 6:
        n3 = n - n % 3
        if plant in ("terminal", "both"):
            seq = seq[: n3 - 3] + draw(st.sampled_from(stop_codons)) + seq[n3:]
        if plant in ("internal", "both"):
            k = 3 * draw(st.integers(0, n3 // 3 - 2))
            seq = seq[:k] + draw(st.sampled_from(stop_codons)) + seq[k + 3 :]
    if rna:
        seq = seq.replace("T", "U")
    return {"code": code, "seq": seq, "rna": rna}


OPTS = list(itertools.product([False, True], repeat=3))  # include_stop, trim_stop, incomplete_ok


def _cmp(s: Soft, sig, what, fn, want):
    """want = ('ok', str) | ('raise', why)"""
    try:
        got = fn()
    except Exception as e:  # noqa: BLE001
        from vlib.core import raised_in_repo

        if not raised_in_repo(e):
            raise
        if want[0] == "ok":
            from vlib.core import exception_site

            s.fail(f"{sig}/raises:{type(e).__name__}@{exception_site(e)}", f"{what}: raised {type(e).__name__}: {e}; expected {want[1]!r}")
        return
    if want[0] == "raise":
        s.fail(sig + "/accepted", f"{what}: returned {str(got)[:80]!r}; expected an exception ({want[1]})")
    else:
        s.eq(str(got), want[1], sig, what)


def exec_translate(case) -> Soft:
    import cogent3
    from cogent3 import make_aligned_seqs, make_seq, make_unaligned_seqs
    from cogent3.core import genetic_code as old_gc
    from cogent3.core import new_genetic_code as new_gc

    s = Soft("C12/")
    cid, seq, rna = case["code"], case["seq"], case["rna"]
    table = CODES[cid][1]
    mtn = "rna" if rna else "dna"
    og, ng = old_gc.get_code(cid), new_gc.get_code(cid)
    L = len(seq)
    rcs = model_rc(seq, rna) if seq else ""
    # the new genetic code object documents DNA input for strings; RNA sequences reach it as index arrays
    dna_str = seq.replace("U", "T")
    frames_plus = [model_translate(table, seq, k) for k in range(3)]
    frames_rc = [model_translate(table, rcs, k) for k in range(3)]
    evals = 0
    # --- GeneticCode.translate, every start, both strands
    for k in range(3):
        evals += 3
        if L and k + 1 > L:
            try:
                og.translate(seq, k)
                s.fail("old/translate/start-beyond-end-accepted", f"len {L} start {k}")
            except ValueError:
                pass
            except Exception as e:  # noqa: BLE001
                s.fail(f"old/translate/start-beyond-end-raises:{type(e).__name__}", str(e))
        else:
            _cmp(s, "old/translate", f"code {cid} {seq[:60]!r} start {k}", lambda: og.translate(seq, k), ("ok", frames_plus[k]))
        _cmp(s, "new/translate-plus", f"code {cid} {seq[:60]!r} start {k}", lambda: ng.translate(dna_str, k), ("ok", frames_plus[k]))
        trunc = seq[k:]
        trunc = trunc[: len(trunc) - len(trunc) % 3]
        want_minus = model_translate(table, model_rc(trunc)) if trunc else ""
        _cmp(s, "new/translate-minus", f"code {cid} {seq[:60]!r} start {k} rc=True", lambda: ng.translate(dna_str, k, rc=True), ("ok", want_minus))
    # --- sixframes
    ok, dna_old = s.call("old/make_seq", make_seq, seq, name="q", moltype=mtn)
    ok2, dna_new = s.call("new/make_seq", make_seq, seq, name="q", moltype=mtn, new_type=True)
    if ok and L >= 3:
        okf, got = s.call("old/sixframes", og.sixframes, dna_old)
        evals += 1
        if okf:
            s.eq(list(got), frames_plus + frames_rc, "old/sixframes", f"code {cid} {seq[:60]!r}")
    okf, got = s.call("new/sixframes", lambda: list(ng.sixframes(dna_str)))
    evals += 1
    if okf:
        want = []
        for strand in "+-":
            for k in range(3):
                trunc = seq[k:]
                trunc = trunc[: len(trunc) - len(trunc) % 3]
                want.append((strand, k, model_translate(table, trunc if strand == "+" else model_rc(trunc)) if trunc else ""))
        s.eq([tuple(x) for x in got], want, "new/sixframes", f"code {cid} {seq[:60]!r}")
        # old and new six-frame outputs agree under the documented relabelling new(-,k) == old(-,(L-k)%3)
        if ok and L >= 3 and len(got) == 6:
            for k in range(3):
                s.eq(got[3 + k][2], frames_rc[(L - k) % 3], "sixframes/old-new-relabel", f"code {cid} {seq[:60]!r} minus frame {k}")
    # --- sequence level
    seq_objs = []
    if ok:
        seq_objs.append(("old", "fresh", dna_old))
    if ok2:
        seq_objs.append(("new", "fresh", dna_new))
    # the same sequence displayed by a reverse-complemented view
    if seq:
        okv, v = s.call("old/view", lambda: make_seq(rcs, name="q", moltype=mtn).rc())
        if okv:
            seq_objs.append(("old", "rcview", v))
        okv, v = s.call("new/view", lambda: make_seq(rcs, name="q", moltype=mtn, new_type=True).rc())
        if okv:
            seq_objs.append(("new", "rcview", v))
    for impl, kind, obj in seq_objs:
        for inc, trim, incomplete in OPTS:
            evals += 1
            want = model_get_translation(table, seq, impl, inc, trim, incomplete)
            _cmp(
                s,
                f"{impl}/seq.get_translation",
                f"code {cid} {kind} {seq[:60]!r} include_stop={inc} trim_stop={trim} incomplete_ok={incomplete}",
                lambda: obj.get_translation(gc=cid, include_stop=inc, trim_stop=trim, incomplete_ok=incomplete),
                want,
            )
        # has_terminal_stop / trim_stop_codon
        if L % 3 == 0:
            term = L >= 3 and aa_of(table, seq[-3:]) == "*"
            _cmp(s, f"{impl}/has_terminal_stop", f"code {cid} {seq[:60]!r}", lambda: str(obj.has_terminal_stop(gc=cid)), ("ok", str(term)))
            _cmp(s, f"{impl}/trim_stop_codon", f"code {cid} {seq[:60]!r}", lambda: obj.trim_stop_codon(gc=cid), ("ok", seq[:-3] if term else seq))
    # --- collections (two rows of equal length: the sequence and a copy with another first codon)
    if L >= 6 and L <= 60:
        first = "AAA" if seq[:3].replace("U", "T") != "AAA" else "CCC"
        alt = first + seq[3:]
        if aa_of(table, first) == "*":
            first = "GGG"
            alt = first + seq[3:]
        data = {"a": seq, "b": alt}
        makers = [
            ("old/SequenceCollection", lambda: make_unaligned_seqs(data, moltype=mtn)),
            ("old/Alignment", lambda: make_aligned_seqs(data, moltype=mtn, array_align=False)),
            ("old/ArrayAlignment", lambda: make_aligned_seqs(data, moltype=mtn, array_align=True)),
            ("new/SequenceCollection", lambda: make_unaligned_seqs(data, moltype=mtn, new_type=True)),
        ]
        for label, mk in makers:
            impl = label.split("/")[0]
            okm, coll = s.call(label + "/construct", mk)
            if not okm:
                continue
            for inc, trim, incomplete in ((False, True, False), (True, True, False), (True, False, False), (False, True, True)):
                evals += 1
                wants = {n: model_get_translation(table, r, impl, inc, trim, incomplete) for n, r in data.items()}
                # alignments keep their length: a trimmed terminal stop becomes a gap column
                pad = "-" if ("Alignment" in label and trim and not inc and L % 3 == 0 and aa_of(table, seq[-3:]) == "*") else ""
                if any(w[0] == "raise" for w in wants.values()):
                    want = ("raise", "a row is rejected")
                else:
                    want = ("ok", repr(sorted((n, w[1] + pad) for n, w in wants.items())))
                _cmp(
                    s,
                    f"{label}.get_translation",
                    f"code {cid} rows {data} include_stop={inc} trim_stop={trim} incomplete_ok={incomplete}",
                    lambda: repr(sorted(coll.get_translation(gc=cid, include_stop=inc, trim_stop=trim, incomplete_ok=incomplete).to_dict().items())),
                    want,
                )
        # the translate_seqs app (old-style collections)
        okm, coll = s.call("app/construct", lambda: make_unaligned_seqs(data, moltype=mtn))
        if okm:
            oka, app = s.call("app/get_app", lambda: cogent3.get_app("translate_seqs", moltype=mtn, gc=cid))
            if oka:
                wants = {n: model_get_translation(table, r, "old", False, True, False) for n, r in data.items()}
                evals += 1
                try:
                    res = app(coll)
                    if any(w[0] == "raise" for w in wants.values()):
                        s.check(not bool(res), "app/translate_seqs/accepted", f"code {cid} rows {data}: expected NotCompleted, got {res!r}"[:300])
                    elif s.check(bool(res), "app/translate_seqs/not-completed", f"code {cid} rows {data}: {res!r}"[:300]):
                        s.eq(sorted(res.to_dict().items()), sorted((n, w[1]) for n, w in wants.items()), "app/translate_seqs", f"code {cid} rows {data}")
                except Exception as e:  # noqa: BLE001
                    s.fail(f"app/translate_seqs/raises:{type(e).__name__}", str(e))
    s.evals = evals
    stops_anywhere = any("*" in f for f in frames_plus + frames_rc)
    s.nontrivial = L >= 3 and (cid != 1 or stops_anywhere or L % 3 != 0)
    s.cls("rna" if rna else "dna", f"len%3={L % 3}")
    if L > 765:
        s.cls(">=256 codons")
    if stops_anywhere:
        s.cls("has-stop")
    if cid != 1:
        s.cls("non-standard-code")
    return s


SUBS = [
    Sub("tables", exec_table, enumerate=enum_tables, exhaustive=True),
    Sub("complement", exec_complement, enumerate=enum_complement, exhaustive=True),
    Sub("rc", exec_rc, strategy=rc_cases(), quick=1500, thorough=160_000, shards_quick=8),
    Sub("translate", exec_translate, strategy=translate_cases(), quick=1600, thorough=320_000, shards_quick=16),
]

KNOWN_PREDICATES = {}

# thorough tier: coverage-guided campaigns (atheris/libFuzzer mutating the bytes Hypothesis draws from)
FUZZ = {
    "subs": ['rc', 'translate'],
    "targets": ['cogent3.core.genetic_code', 'cogent3.core.new_genetic_code', 'cogent3.core.moltype', 'cogent3.core.new_moltype', 'cogent3.core.sequence', 'cogent3.core.new_sequence'],
    "execs_thorough": 40_000, "jobs_thorough": 4, "execs_quick": 1000, "jobs_quick": 2,
}

META = {
    "technique": "exhaustive enumeration (27 codes x 64 codons, all IUPAC symbols/base subsets) plus Hypothesis-generated sequences, against pinned NCBI tables with TCAG index arithmetic",
    "level_text": "The finite part of the property (every code table entry through every single-codon entry point; complement and ambiguity maps of every IUPAC symbol for DNA/RNA, old and new moltypes) is enumerated completely; multi-codon behaviour (frames, strands, stop handling, views, collections, alignments, the translate_seqs app) is explored with thousands of generated canonical sequences per run, including lengths around the 256-codon boundary.",
    "level_note": "Trusts the pinned table snapshot in vlib/ncbi_codes.py and a 10-line reference translator. Degenerate/gapped codons (incomplete_ok paths) are not asserted.",
    "design_ref": "DESIGN.md section 1, C12",
}
